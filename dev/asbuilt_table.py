#!/usr/bin/env python3
"""dev/asbuilt_table.py -- markdown table of the last quick run of every check (from /verif/evidence) for DESIGN.md."""
import json
import glob

print("| id | quick wall (s) | symbolic paths | obligations discharged | replays validated | violations |")
print("|---|---|---|---|---|---|")
tot = 0.0
for f in sorted(glob.glob("/verif/evidence/C*.json")):
    ev = json.load(open(f))
    cov = ev.get("coverage", {})
    tot += float(ev.get("wall_s") or 0)
    print("| %s | %.0f | %s | %s | %s | %s |" % (ev["property_id"], ev.get("wall_s") or 0, cov.get("states"), cov.get("discharged"), cov.get("traces_validated_against_impl"), ev.get("violations")))
print("\nsum of quick wall times: %.0f s" % tot)
