#!/bin/sh
# dev/run_seeds.sh [tier] -- apply every stored seeded change to a scratch worktree of /repo HEAD and run the check of the
# property it breaks (development aid).  Expected: every line ends with "CAUGHT".
tier=${1:-quick}
cd /verif
# newest rounds first (meta.json "round", absent = 1)
order=$(python3 -c "
import json,glob,os
L=[]
for d in sorted(glob.glob('seeded/*/')):
    m=json.load(open(d+'meta.json')); L.append((-int(m.get('round',1)), d))
print(' '.join(d for _,d in sorted(L)))")
for d in $order; do
  name=$(basename $d)
  prop=$(python3 -c "import json;print(json.load(open('$d/meta.json'))['property'])")
  checks=$prop
  case $name in C10-seed-zero-is-falsy) checks=C08;; esac
  wt=$(mktemp -d /tmp/mchap-seedrun-XXXXXX)
  git -C /repo worktree add --detach -q "$wt" HEAD
  if ! git -C "$wt" apply "/verif/$d/patch.diff" 2>/dev/null; then echo "$name: PATCH DOES NOT APPLY"; git -C /repo worktree remove --force "$wt"; continue; fi
  for c in $checks; do
    out=$(VERIF_EVIDENCE_DIR=/tmp/mchap-mut-evidence VERIF_REPLAY_DIR=/tmp/mchap-mut-replays MCHAP_REPO="$wt" timeout 3000 ./run_check $c $tier 2>&1)
    if echo "$out" | grep -q "^VIOLATION property=$c"; then echo "$name vs $c: CAUGHT"; else echo "$name vs $c: MISSED :: $(echo "$out" | head -1 | cut -c1-200)"; fi
  done
  git -C /repo worktree remove --force "$wt"
done
