#!/bin/sh
# dev/run_thorough.sh [ids...] -- run thorough tiers one after another with a per-check cap (development aid).
# Evidence of thorough runs goes to /tmp so that /verif/evidence keeps the quick-tier files of the registered commands' last run.
cd /verif
ids="$@"
[ -z "$ids" ] && ids=$(ls checks | sed -n 's/^c\([0-9][0-9]\)\.py$/C\1/p')
for id in $ids; do
  start=$(date +%s)
  VERIF_EVIDENCE_DIR=/tmp/mchap-thorough-evidence timeout ${CAP:-3600} ./run_check $id thorough 2>&1 | grep -v "^\s" | cut -c1-400
  echo "$id thorough exit=$? wall=$(( $(date +%s) - start ))s"
done
