#!/usr/bin/env python3
"""dev/save_seed.py <worktree> <name> <property> '<needs>' '<caught_by>' '<ran>'  -- store a confirmed seeded change under /verif/seeded/<name>/"""
import json, os, subprocess, sys, shutil
wt, name, prop, needs, caught, ran = sys.argv[1:7]
d = os.path.join("/verif/seeded", name)
os.makedirs(d, exist_ok=True)
diff = subprocess.check_output(["git", "-C", wt, "diff", "--", "mchap"]).decode()
open(os.path.join(d, "patch.diff"), "w").write(diff)
if os.path.exists(os.path.join(wt, "seed_demo.py")):
    shutil.copy(os.path.join(wt, "seed_demo.py"), os.path.join(d, "seed_demo.py"))
meta = dict(property=prop, breaks=prop, source="independent sub-agent given only the property text and its own scratch worktree",
            base_commit=subprocess.check_output(["git", "-C", wt, "rev-parse", "HEAD"]).decode().strip(),
            needs_to_manifest=needs, detected_by=caught, confirmed=ran,
            apply="git -C /repo apply /verif/seeded/%s/patch.diff   (undo: git -C /repo checkout -- .)" % name,
            demo="cd <tree with patch> && PYTHONPATH=<tree> /venv/bin/python seed_demo.py  -> exit 1 with the patch, 0 without")
json.dump(meta, open(os.path.join(d, "meta.json"), "w"), indent=1)
print("saved", d)
