#!/bin/sh
# dev/run_all.sh quick|thorough [ids...]  -- run the registered checks sequentially on /repo (development aid)
tier=${1:-quick}; shift
cd /verif
ids="$@"
[ -z "$ids" ] && ids=$(ls checks | sed -n 's/^c\([0-9][0-9]\)\.py$/C\1/p')
for id in $ids; do
  /usr/bin/time -f "$id wall=%es" ./run_check $id $tier 2>&1 | grep -v "^\s" | cut -c1-300
  echo "$id exit=$?"
done
