#!/usr/bin/env python3
"""Regenerate MANIFEST.json from the check modules present in checks/ (development aid)."""
import importlib, json, os, sys
sys.path.insert(0, os.path.dirname(os.path.dirname(os.path.abspath(__file__))))
V = os.path.dirname(os.path.dirname(os.path.abspath(__file__)))
NA = {
 # property -> reason when no check is claimed
}
PENDING = "check not yet built in this snapshot of /verif (work in progress; see DESIGN.md section 3)"
checks = []
na = []
for i in range(1, 21):
    pid = "C%02d" % i
    f = os.path.join(V, "checks", "c%02d.py" % i)
    if not os.path.exists(f):
        na.append(dict(property_id=pid, reason=NA.get(pid, PENDING)))
        continue
    src = open(f).read()
    ns = {}
    # read metadata without importing z3 etc.
    import ast
    tree = ast.parse(src)
    meta = {}
    for node in tree.body:
        if isinstance(node, ast.Assign) and len(node.targets) == 1 and isinstance(node.targets[0], ast.Name):
            if node.targets[0].id in ("ID", "TITLE", "ENCODED", "STUBS", "ASSUMES", "BOUNDS", "LEVEL_TEXT", "OUTSIDE", "TECHNIQUE", "HAS_THOROUGH"):
                try:
                    meta[node.targets[0].id] = ast.literal_eval(node.value)
                except Exception:
                    pass
    entry = dict(
        property_id=pid,
        quick_cmd="./run_check %s quick" % pid,
        evidence_file="/verif/evidence/%s.json" % pid,
        replay_cmd_template="./run_check %s --replay {path}" % pid,
        engine="nbsym",
        level_claimed=dict(
            category="model_checking",
            text=meta.get("LEVEL_TEXT") or (
                "Bounded symbolic execution of the real source (%s) with z3: every obligation is discharged as "
                "pc /\\ not claim = unsat for ALL values of the symbolic inputs, for each enumerated discrete shape inside the bound "
                "(quick: %s; thorough: %s). Not a proof beyond those shapes." % (
                    ", ".join(meta.get("ENCODED", [])[:6]) + (" ..." if len(meta.get("ENCODED", [])) > 6 else ""),
                    meta.get("BOUNDS", {}).get("quick", ""), meta.get("BOUNDS", {}).get("thorough", ""))),
            design_ref="DESIGN.md section 3, %s" % pid),
        level_note="Trusted base: nbsym engine (float64 modelled as reals; log/exp/lgamma algebra; numpy facade; two AST rewrites), "
                   "z3 5.1 nlsat, numba codegen assumed to follow the Python source semantics. Stubs: %s. Assumes: %s. Outside the claim: %s" % (
                       "; ".join(meta.get("STUBS", [])) or "none", "; ".join(meta.get("ASSUMES", [])) or "none",
                       meta.get("OUTSIDE", "shapes beyond the stated bounds; float rounding")),
        technique=meta.get("TECHNIQUE", "symbolic execution of the repo's Python source with z3 (nlsat) -- solver verdict per obligation, counterexamples replayed on the real jitted code"),
    )
    if meta.get("HAS_THOROUGH", True):
        entry["thorough_cmd"] = "./run_check %s thorough" % pid
    checks.append(entry)
man = dict(
    version=1,
    setup_cmd="./setup.sh",
    hooks=dict(guard="MCHAP_VERIF", enable="none needed: checks load /repo's source through the nbsym shadow loader and substitute names in the shadow modules only; no repo instrumentation commits",
               baseline_off_cmd="cd /repo && /venv/bin/python -m pytest -ra -q -p no:cacheprovider --timeout=900 --continue-on-collection-errors",
               source_commits=[], add_only=True),
    engines=[dict(name="nbsym", path="/verif/nbsym", serves_properties=[c["property_id"] for c in checks],
                  kind_free_text="custom per-path symbolic executor (decision-replay DFS) for the numba subset of Python, on z3: symbolic ints/reals/bools, exact log/exp/lgamma algebra, numpy facade; obligations discharged by z3 qfnra-nlsat after clearing denominators; counterexamples replayed on the real code")],
    checks=checks,
    notes="Exit codes: 0 held (KNOWN-FINDING lines allowed), 1 reproduced unlisted violation, 3 inconclusive/harness error. Known findings: /verif/known_findings.json.",
    not_applicable=na,
)
json.dump(man, open(os.path.join(V, "MANIFEST.json"), "w"), indent=1)
print("checks:", [c["property_id"] for c in checks], "na:", [n["property_id"] for n in na])
