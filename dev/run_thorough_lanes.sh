#!/bin/sh
# dev/run_thorough_lanes.sh LANES id... -- thorough tiers in LANES parallel lanes with a per-check cap (development aid for sizing).
# Evidence of these runs goes to /tmp so that /verif/evidence keeps the files of the registered commands' last run.
cd /verif
lanes=$1; shift
out=${OUT:-/tmp/thorough_lanes.txt}
i=0
for id in "$@"; do
  i=$(( (i % lanes) + 1 ))
  eval "lane$i=\"\$lane$i $id\""
done
k=1
while [ $k -le $lanes ]; do
  eval "ids=\$lane$k"
  ( for id in $ids; do
      start=$(date +%s)
      line=$(VERIF_EVIDENCE_DIR=/tmp/mchap-thorough-evidence VERIF_REPLAY_DIR=/tmp/mchap-thorough-replays timeout ${CAP:-1500} ./run_check $id thorough 2>&1 | grep -E "^C[0-9]+ thorough|VIOLATION|HARNESS" | head -3 | cut -c1-220)
      echo "$id wall=$(( $(date +%s) - start ))s :: $line" >> $out
    done ) &
  k=$((k+1))
done
wait
echo ALL-DONE >> $out
