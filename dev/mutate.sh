#!/bin/sh
# dev/mutate.sh <check-id> <tier> <patch-file | -e 'sed-expr' file>   -- run a check against a mutated scratch copy of /repo
# (development aid, not a registered command).  The scratch worktree is removed afterwards.
set -e
id=$1; tier=$2; shift 2
wt=$(mktemp -d /tmp/mchap-mut-XXXXXX)
git -C /repo worktree add --detach -q "$wt" HEAD
trap 'git -C /repo worktree remove --force "$wt" 2>/dev/null; rm -rf "$wt"' EXIT
if [ "$1" = "-e" ]; then
  sed -i "$2" "$wt/$3"
else
  git -C "$wt" apply "$1"
fi
git -C "$wt" diff --stat | tail -3
cd /verif && VERIF_EVIDENCE_DIR=/tmp/mchap-mut-evidence VERIF_REPLAY_DIR=/tmp/mchap-mut-replays MCHAP_REPO="$wt" ./run_check "$id" "$tier" || echo "exit=$?"
