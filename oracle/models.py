"""Independent reference models (closed forms over z3 terms / exact rationals).

Nothing here calls the repository function it is an oracle for."""
import itertools
import math
from fractions import Fraction

import z3


def genotypes(n_alleles, ploidy):
    """all sorted allele tuples"""
    return list(itertools.combinations_with_replacement(range(n_alleles), ploidy))


def vcf_order(n_alleles, ploidy):
    """VCF spec order of genotypes: sort by last allele, then the one before, ..."""
    return sorted(genotypes(n_alleles, ploidy), key=lambda g: tuple(reversed(g)))


def counts(g):
    c = {}
    for a in g:
        c[a] = c.get(a, 0) + 1
    return c


def perms(g):
    r = math.factorial(len(g))
    for v in counts(g).values():
        r //= math.factorial(v)
    return r


def rising(x, k):
    """x (x+1) ... (x+k-1) as a z3 term"""
    r = z3.RealVal(1)
    for i in range(k):
        r = r * (x + i)
    return r


def multinomial_pmf(g, freqs):
    """unordered genotype probability under independent allele draws; freqs: z3 terms/rationals"""
    r = z3.RealVal(perms(g))
    for a in g:
        r = r * freqs[a]
    return r


def dirmult_pmf(g, freqs, F):
    """Dirichlet-multinomial with alpha_i = f_i (1-F)/F (rising factorial form).  Alleles with
    f_i = 0 (python 0) give probability 0 when present."""
    if any((not z3.is_expr(freqs[a])) and freqs[a] == 0 for a in g):
        return z3.RealVal(0)
    s = (1 - F) / F
    r = z3.RealVal(perms(g))
    for a, d in counts(g).items():
        r = r * rising(freqs[a] * s, d)
    return r / rising(s, len(g))


def genotype_prior(g, freqs, F):
    """F is None/0 -> multinomial; else Dirichlet-multinomial"""
    if F is None:
        return multinomial_pmf(g, freqs)
    return dirmult_pmf(g, freqs, F)


# ------------------------------------------------------------------ pedigree inheritance model


def ms_sub(a, b):
    """multiset difference a - b (sorted tuples); None when b is not contained in a"""
    a = list(a)
    for x in b:
        if x not in a:
            return None
        a.remove(x)
    return tuple(a)


def submultisets(ms, k):
    return sorted(set(itertools.combinations(sorted(ms), k)))


def parent_gamete_pmf(g, parent, lam=0):
    """P(gamete multiset g | parent multiset): random sampling of chromosome copies without
    replacement, mixed with double reduction (a,a) at rate lam (diploid gametes only)"""
    tau, ploidy = len(g), len(parent)
    pc, gc = counts(parent), counts(g)
    base = Fraction(1)
    for a, d in gc.items():
        base *= math.comb(pc.get(a, 0), d)
    base /= math.comb(ploidy, tau)
    if (not z3.is_expr(lam)) and lam == 0:
        return z3.RealVal(base)
    assert tau == 2
    dr = Fraction(pc.get(g[0], 0), ploidy) if g[0] == g[1] else Fraction(0)
    return (1 - lam) * z3.RealVal(base) + lam * z3.RealVal(dr)


def pop_gamete_pmf(g, f):
    return multinomial_pmf(g, f)


def gamete_pmf(g, parent, lam, err, f):
    """parent None = unknown parent (gamete from the population); empty gamete has probability 1"""
    if len(g) == 0:
        return z3.RealVal(1)
    if parent is None:
        return pop_gamete_pmf(g, f)
    return (1 - err) * parent_gamete_pmf(g, parent, lam) + err * pop_gamete_pmf(g, f)


def trio_pmf(progeny, P, Q, tau_p, tau_q, lam_p, lam_q, e_p, e_q, f):
    progeny = tuple(sorted(progeny))
    assert len(progeny) == tau_p + tau_q
    tot = z3.RealVal(0)
    for gp in submultisets(progeny, tau_p):
        gq = ms_sub(progeny, gp)
        tot = tot + gamete_pmf(gp, P, lam_p, e_p, f) * gamete_pmf(gq, Q, lam_q, e_q, f)
    return tot


def gamete_support(parent, tau, dr):
    s = set(submultisets(parent, tau))
    if dr and tau == 2:
        s |= {(a, a) for a in parent}
    return s


def mendelian_valid(progeny, P, Q, tau_p, tau_q, dr_p=False, dr_q=False):
    progeny = tuple(sorted(progeny))
    sq = gamete_support(Q, tau_q, dr_q)
    for gp in gamete_support(P, tau_p, dr_p):
        gq = ms_sub(progeny, gp)
        if gq is not None and tuple(sorted(gq)) in sq:
            return True
    return False


def duo_mendelian_valid(progeny, P, tau, dr=False):
    progeny = tuple(sorted(progeny))
    return any(ms_sub(progeny, gp) is not None for gp in gamete_support(P, tau, dr))
