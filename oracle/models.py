"""Independent reference models (closed forms over z3 terms / exact rationals).

Nothing here calls the repository function it is an oracle for."""
import itertools
import math
from fractions import Fraction

import z3


def genotypes(n_alleles, ploidy):
    """all sorted allele tuples"""
    return list(itertools.combinations_with_replacement(range(n_alleles), ploidy))


def vcf_order(n_alleles, ploidy):
    """VCF spec order of genotypes: sort by last allele, then the one before, ..."""
    return sorted(genotypes(n_alleles, ploidy), key=lambda g: tuple(reversed(g)))


def counts(g):
    c = {}
    for a in g:
        c[a] = c.get(a, 0) + 1
    return c


def perms(g):
    r = math.factorial(len(g))
    for v in counts(g).values():
        r //= math.factorial(v)
    return r


def rising(x, k):
    """x (x+1) ... (x+k-1) as a z3 term"""
    r = z3.RealVal(1)
    for i in range(k):
        r = r * (x + i)
    return r


def multinomial_pmf(g, freqs):
    """unordered genotype probability under independent allele draws; freqs: z3 terms/rationals"""
    r = z3.RealVal(perms(g))
    for a in g:
        r = r * freqs[a]
    return r


def dirmult_pmf(g, freqs, F):
    """Dirichlet-multinomial with alpha_i = f_i (1-F)/F (rising factorial form).  Alleles with
    f_i = 0 (python 0) give probability 0 when present."""
    if any((not z3.is_expr(freqs[a])) and freqs[a] == 0 for a in g):
        return z3.RealVal(0)
    s = (1 - F) / F
    r = z3.RealVal(perms(g))
    for a, d in counts(g).items():
        r = r * rising(freqs[a] * s, d)
    return r / rising(s, len(g))


def genotype_prior(g, freqs, F):
    """F is None/0 -> multinomial; else Dirichlet-multinomial"""
    if F is None:
        return multinomial_pmf(g, freqs)
    return dirmult_pmf(g, freqs, F)
