"""Symbolic executor core: context/path exploration, symbolic scalars with an exact
log/exp/lgamma algebra, numpy facade, shadow loader for /repo sources, VC discharge.

Everything here is per-process global state (one z3 context); harnesses run one
configuration at a time inside a worker process.
"""
import ast
import builtins
import copy
import fractions
import hashlib
import importlib
import math
import os
import sys
import time
import types

import numpy as _np
import z3

Fraction = fractions.Fraction


def repo_root():
    return os.environ.get("MCHAP_REPO", "/repo")


# ------------------------------------------------------------------ exceptions


class PathAbort(BaseException):
    """infeasible path (both sides of a branch unsat)"""


class Inconclusive(BaseException):
    """solver returned unknown / budget exhausted: the configuration is inconclusive"""


# ------------------------------------------------------------------ context

BRANCH_TIMEOUT_MS = int(os.environ.get("NBSYM_BRANCH_TIMEOUT_MS", "20000"))
MAX_DECISIONS = int(os.environ.get("NBSYM_MAX_DECISIONS", "20000"))


class Stats:
    def __init__(self):
        self.nsolver = 0
        self.tsolver = 0.0
        self.paths = 0
        self.aborted = 0

    def add(self, o):
        self.nsolver += o.nsolver
        self.tsolver += o.tsolver
        self.paths += o.paths
        self.aborted += o.aborted


class Ctx:
    cur = None

    def __init__(self):
        self.isolver = z3.Solver()
        self.isolver.set("timeout", BRANCH_TIMEOUT_MS)
        self.rsolver = z3.Tactic("qfnra-nlsat").solver()
        self.rsolver.set("timeout", BRANCH_TIMEOUT_MS)
        self.decisions = []
        self.pos = 0
        self.work = []
        self.pc = []
        self.nsolver = 0
        self.tsolver = 0.0
        self.events = []  # engine-level observations (int store overflow, ...)
        self.notes = {}

    def _solver_for(self, e):
        return self.isolver if has_int(e) or not has_real(e) else self.rsolver

    def check(self, cond=None):
        t = time.time()
        if cond is None:
            r = self.isolver.check()
        else:
            s = self._solver_for(cond)
            s.push()
            s.add(cond)
            r = s.check()
            s.pop()
        self.tsolver += time.time() - t
        self.nsolver += 1
        return r

    def assume(self, e):
        if isinstance(e, SymBool):
            e = e.e
        self._solver_for(e).add(e)
        self.pc.append(e)

    def branch(self, cond):
        """cond: z3 BoolRef -> python bool, forking the path when both sides are feasible."""
        cond = z3.simplify(cond)
        if z3.is_true(cond):
            return True
        if z3.is_false(cond):
            return False
        if self.pos < len(self.decisions):
            d = self.decisions[self.pos]
            self.pos += 1
            self.assume(cond if d else z3.Not(cond))
            return d
        if len(self.decisions) > MAX_DECISIONS:
            raise Inconclusive("decision budget exhausted")
        rt = self.check(cond)
        rf = self.check(z3.Not(cond))
        if rt == z3.unknown or rf == z3.unknown:
            raise Inconclusive("solver unknown at branch %s" % str(cond)[:200])
        if rt == z3.sat and rf == z3.sat:
            self.work.append(self.decisions[: self.pos] + [False])
            d = True
        elif rt == z3.sat:
            d = True
        elif rf == z3.sat:
            d = False
        else:
            raise PathAbort()
        self.decisions.append(d)
        self.pos += 1
        self.assume(cond if d else z3.Not(cond))
        return d

    def concretize_int(self, e):
        """fork over all feasible values of int expr e (solver-enumerated)."""
        e = z3.simplify(e)
        if z3.is_int_value(e):
            return e.as_long()
        while True:
            r = self.check()
            if r == z3.unknown:
                raise Inconclusive("unknown while concretising")
            if r != z3.sat:
                raise PathAbort()
            v = self.isolver.model().eval(e, model_completion=True).as_long()
            if self.branch(e == v):
                return v

    def feasible(self, cond):
        """is pc & cond satisfiable? (no fork)"""
        r = self.check(cond)
        if r == z3.unknown:
            raise Inconclusive("unknown in feasibility query")
        return r == z3.sat

    def event(self, kind, **detail):
        self.events.append(dict(kind=kind, **detail))


def _walk_has(e, pred, seen):
    k = e.get_id()
    if k in seen:
        return False
    seen.add(k)
    if pred(e):
        return True
    for c in e.children():
        if _walk_has(c, pred, seen):
            return True
    return False


def has_real(e):
    return _walk_has(e, lambda t: z3.is_real(t) and not z3.is_rational_value(t) and t.num_args() == 0, set())


def has_int(e):
    return _walk_has(e, lambda t: z3.is_int(t) and not z3.is_int_value(t) and t.num_args() == 0, set())


LAST_CTX = None


class PathResult:
    __slots__ = ("ctx", "value", "exc")

    def __init__(self, ctx, value=None, exc=None):
        self.ctx = ctx
        self.value = value
        self.exc = exc


def explore(fn, max_paths=200000, stats=None, catch=(Exception,)):
    """Run fn(ctx) once per feasible path.  Yields PathResult.  Exceptions raised by the
    code under test (subclasses of Exception) are captured in PathResult.exc."""
    work = [[]]
    n = 0
    while work:
        dec = work.pop()
        ctx = Ctx()
        ctx.decisions = list(dec)
        Ctx.cur = ctx
        res = None
        try:
            try:
                v = fn(ctx)
                res = PathResult(ctx, v)
            except PathAbort:
                if stats is not None:
                    stats.aborted += 1
            except catch as e:  # noqa
                res = PathResult(ctx, None, e)
                ctx.exc_origin = _exc_origin(e)
        finally:
            Ctx.cur = None
        work.extend(ctx.work)
        if stats is not None:
            stats.nsolver += ctx.nsolver
            stats.tsolver += ctx.tsolver
            stats.paths += 1
        n += 1
        if n > max_paths:
            raise Inconclusive("too many paths")
        if res is not None:
            global LAST_CTX
            LAST_CTX = ctx  # the path being judged by the harness (Collector.fail takes its model from here when none is given)
            yield res


def _exc_origin(e):
    """file of the innermost frame of the exception's traceback (a call that does not match the callee's signature raises in the
    CALLER's frame: when that caller is a harness, the exception says that the harness no longer matches the code's interface)"""
    tb = e.__traceback__
    last = None
    while tb is not None:
        last = tb.tb_frame.f_code.co_filename
        tb = tb.tb_next
    return last


_SIG_MISMATCH = ("got an unexpected keyword argument", "positional argument", "required keyword-only argument", "got multiple values for argument")


def interface_mismatch(exc, origin):
    """True when `exc` is a signature-mismatch TypeError raised by a call made from the verification machinery itself"""
    if not isinstance(exc, TypeError) or not any(t in str(exc) for t in _SIG_MISMATCH):
        return False
    here = os.path.dirname(os.path.dirname(os.path.abspath(__file__)))
    return bool(origin) and os.path.abspath(origin).startswith(here + os.sep)


# ------------------------------------------------------------------ scalars

LN = z3.Function("Ln", z3.RealSort(), z3.RealSort())
EXP = z3.Function("Exp", z3.RealSort(), z3.RealSort())
GAM = z3.Function("Gam", z3.RealSort(), z3.RealSort())


def _z(x):
    if isinstance(x, Sym):
        return x
    if isinstance(x, (bool, _np.bool_)):
        return SymBool(z3.BoolVal(bool(x)))
    if isinstance(x, (int, _np.integer)):
        return SymInt(z3.IntVal(int(x)))
    if isinstance(x, (float, _np.floating)):
        return SymReal.const(float(x))
    if isinstance(x, Fraction):
        return SymReal(z3.RealVal(x))
    if isinstance(x, _np.ndarray) and x.ndim == 0:
        return _z(x.item())
    raise TypeError("cannot lift %r" % type(x))


def _defer(f):
    def g(self, o, *a):
        if isinstance(o, _np.ndarray) and o.ndim > 0:
            return NotImplemented
        return f(self, o, *a)

    g.__name__ = f.__name__
    return g


class Sym:
    pass


class SymBool(Sym):
    def __init__(self, e):
        self.e = e

    def __bool__(self):
        return Ctx.cur.branch(self.e)

    @_defer
    def __and__(self, o):
        return SymBool(z3.And(self.e, _z(o).e))

    __rand__ = __and__

    @_defer
    def __or__(self, o):
        return SymBool(z3.Or(self.e, _z(o).e))

    __ror__ = __or__

    def __invert__(self):
        return SymBool(z3.Not(self.e))

    def __eq__(self, o):
        return SymBool(self.e == _z(o).e)

    def __ne__(self, o):
        return SymBool(self.e != _z(o).e)

    def __hash__(self):
        return id(self)

    def __index__(self):
        return int(bool(self))

    def _asint(self):
        return SymInt(z3.If(self.e, 1, 0))

    def __add__(self, o):
        return self._asint() + o

    __radd__ = __add__

    def __mul__(self, o):
        return self._asint() * o

    __rmul__ = __mul__

    def __repr__(self):
        return "SymBool(%s)" % self.e


def _cmp(op):
    def f(self, o):
        if isinstance(o, _np.ndarray) and o.ndim > 0:
            return NotImplemented
        if o is None:
            return op == "__ne__"
        o = _z(o)
        if isinstance(self, SymReal) or isinstance(o, SymReal):
            return SymReal._compare(op, _toreal(self), _toreal(o))
        if isinstance(o, SymBool):
            o = o._asint()
        r = z3.simplify(getattr(self.e, op)(o.e))
        if z3.is_true(r):
            return True
        if z3.is_false(r):
            return False
        return SymBool(r)

    f.__name__ = op
    return f


def _toreal(x):
    if isinstance(x, SymReal):
        return x
    if isinstance(x, SymInt):
        e = x.e
        if z3.is_int_value(e):
            return SymReal(z3.RealVal(e.as_long()))
        return SymReal(z3.ToReal(e))
    if isinstance(x, SymBool):
        return SymReal(z3.If(x.e, z3.RealVal(1), z3.RealVal(0)))
    return _toreal(_z(x))


class SymInt(Sym):
    def __init__(self, e):
        self.e = e if z3.is_int_value(e) else z3.simplify(e)

    def _bin(self, o, f, rev=False, divisor=False):
        o = _z(o)
        if isinstance(o, SymReal):
            return NotImplemented
        if isinstance(o, SymBool):
            o = o._asint()
        a, b = (o.e, self.e) if rev else (self.e, o.e)
        if divisor:
            b = z3.simplify(b)
            if not z3.is_int_value(b):
                b = z3.IntVal(Ctx.cur.concretize_int(b))
            if b.as_long() == 0:
                raise ZeroDivisionError("integer division or modulo by zero")
            if b.as_long() < 0:
                raise NotImplementedError("negative divisor")
        r = SymInt(f(a, b))
        return r

    @_defer
    def __add__(self, o):
        return self._bin(o, lambda a, b: a + b)

    @_defer
    def __radd__(self, o):
        return self._bin(o, lambda a, b: a + b, True)

    @_defer
    def __sub__(self, o):
        return self._bin(o, lambda a, b: a - b)

    @_defer
    def __rsub__(self, o):
        return self._bin(o, lambda a, b: a - b, True)

    @_defer
    def __mul__(self, o):
        return _ovf(self._bin(o, lambda a, b: a * b))

    @_defer
    def __rmul__(self, o):
        return _ovf(self._bin(o, lambda a, b: a * b, True))

    @_defer
    def __floordiv__(self, o):
        return self._bin(o, lambda a, b: a / b, divisor=True)  # z3 int div = floor for positive divisor

    @_defer
    def __mod__(self, o):
        return self._bin(o, lambda a, b: a % b, divisor=True)

    def __rmod__(self, o):
        return self._bin(o, lambda a, b: a % b, True, divisor=True)

    def __rfloordiv__(self, o):
        return self._bin(o, lambda a, b: a / b, True, divisor=True)

    @_defer
    def __truediv__(self, o):
        return symdiv(self, o)

    @_defer
    def __rtruediv__(self, o):
        return symdiv(o, self)

    def __neg__(self):
        return SymInt(-self.e)

    def __pos__(self):
        return self

    def __abs__(self):
        return SymInt(z3.If(self.e >= 0, self.e, -self.e))

    def __index__(self):
        return Ctx.cur.concretize_int(self.e)

    __int__ = __index__

    def __float__(self):
        return float(self.__index__())

    def __bool__(self):
        return Ctx.cur.branch(self.e != 0)

    __lt__ = _cmp("__lt__")
    __le__ = _cmp("__le__")
    __gt__ = _cmp("__gt__")
    __ge__ = _cmp("__ge__")
    __eq__ = _cmp("__eq__")
    __ne__ = _cmp("__ne__")

    def __hash__(self):
        return hash(self.__index__())

    def __repr__(self):
        return "SymInt(%s)" % self.e

    def __str__(self):
        return str(self.__index__())

    def __format__(self, spec):
        return format(self.__index__(), spec)


def _ovf(r):
    if cfg.check_int64 and isinstance(r, SymInt) and Ctx.cur is not None:
        lim = 2 ** 63
        if z3.is_int_value(r.e):
            if not (-lim <= r.e.as_long() < lim):
                Ctx.cur.event("int-overflow", value=str(r.e))
        elif Ctx.cur.feasible(z3.Or(r.e >= lim, r.e < -lim)):
            Ctx.cur.event("int-overflow", value=str(r.e)[:120])
    return r


_LOGCONST = {}
for _k in range(2, 65):
    _LOGCONST[math.log(_k)] = _k
POWVARS = {}


def _is0(e):
    return z3.is_rational_value(e) and e.as_fraction() == 0


def _factor(n):
    out = {}
    p = 2
    while n > 1 and p * p <= n and p < 2000:  # large cofactors stay one atom
        while n % p == 0:
            out[p] = out.get(p, 0) + 1
            n //= p
        p += 1
    if n > 1:
        out[n] = out.get(n, 0) + 1
    return out


ZERO = "zero"


class LogForm:
    """ln( prod t^k * prod Gam(b)^k ); atoms keyed by z3 ast id.  The key ZERO stands for
    the factor 0 (ln 0 = -inf)."""

    __slots__ = ("fac", "gam")

    def __init__(self, fac=None, gam=None):
        self.fac = fac or {}
        self.gam = gam or {}

    @staticmethod
    def of(t, k=1):
        t = z3.simplify(t)
        if z3.is_rational_value(t):
            fr = t.as_fraction()
            if fr == 0:
                return LogForm({ZERO: (z3.RealVal(0), k)})
            if fr > 0:
                lf = LogForm()
                for prime, mult in _factor(fr.numerator).items():
                    lf.fac[("c", prime)] = (z3.RealVal(prime), mult * k)
                for prime, mult in _factor(fr.denominator).items():
                    lf.fac[("c", prime)] = (z3.RealVal(prime), lf.fac.get(("c", prime), (None, 0))[1] - mult * k)
                lf.fac = {a: b for a, b in lf.fac.items() if b[1] != 0}
                return lf
            raise ValueError("log of negative constant %s" % fr)
        if z3.is_app_of(t, z3.Z3_OP_DIV):
            a = LogForm.of(t.arg(0), k)
            b = LogForm.of(t.arg(1), -k)
            return a.mul(b)
        if z3.is_app_of(t, z3.Z3_OP_MUL):
            r = LogForm()
            for c in t.children():
                r = r.mul(LogForm.of(c, k))
            return r
        if z3.is_app_of(t, z3.Z3_OP_POWER) and z3.is_rational_value(t.arg(1)) and t.arg(1).as_fraction().denominator == 1:
            return LogForm.of(t.arg(0), k * int(t.arg(1).as_fraction()))
        return LogForm({t.get_id(): (t, k)})

    def mul(self, o, sign=1):
        fac = dict(self.fac)
        for key, (t, k) in o.fac.items():
            k2 = fac.get(key, (t, 0))[1] + sign * k
            if k2:
                fac[key] = (t, k2)
            else:
                fac.pop(key, None)
        gam = dict(self.gam)
        for key, (t, k) in o.gam.items():
            k2 = gam.get(key, (t, 0))[1] + sign * k
            if k2:
                gam[key] = (t, k2)
            else:
                gam.pop(key, None)
        return LogForm(fac, gam)

    def zexp(self):
        return self.fac.get(ZERO, (None, 0))[1]

    def pow(self, n):
        if n == 0:
            return LogForm()
        return LogForm(
            {a: (t, k * n) for a, (t, k) in self.fac.items()}, {a: (t, k * n) for a, (t, k) in self.gam.items()}
        )

    def scale(self, T):
        """(prod t^k)^T with T a (positive) z3 real term: atoms become fresh positive 'pow'
        variables; 0^T = 0."""
        fac = {}
        items = list(self.fac.items()) + [(("g", kk), (GAM(b), k)) for kk, (b, k) in self.gam.items()]
        for key, (t, k) in items:
            if key == ZERO:
                fac[ZERO] = (t, k)
                continue
            name = "pow!%s!%s" % (t.get_id(), T.get_id())
            v = z3.Real(name)
            POWVARS[name] = (t, T)
            if Ctx.cur is not None:
                Ctx.cur.assume(v > 0)
            fac[("pow", name)] = (v, k)
        return LogForm(fac)

    def term(self):
        num = []
        den = []
        for t, k in list(self.fac.values()) + [(GAM(b), k) for b, k in self.gam.values()]:
            (num if k > 0 else den).extend([t] * abs(k))
        n = z3.Product(num) if len(num) > 1 else (num[0] if num else z3.RealVal(1))
        if not den:
            return n
        d = z3.Product(den) if len(den) > 1 else den[0]
        return n / d


def _expc_atom(c):
    """LogForm of the constant exp(c), c a non-zero rational: a positive variable bracketed by
    rational bounds (relative width 1e-24) -- sound for identities, tight enough for witnesses"""
    import decimal

    neg = c < 0
    c = abs(c)
    name = "expc!%s" % c
    v = z3.Real(name)
    with decimal.localcontext() as dc:
        dc.prec = 40
        val = (decimal.Decimal(c.numerator) / decimal.Decimal(c.denominator)).exp()
        lo = Fraction(val * (1 - decimal.Decimal(10) ** -24))
        hi = Fraction(val * (1 + decimal.Decimal(10) ** -24))
    if Ctx.cur is not None:
        Ctx.cur.assume(z3.And(v > z3.RealVal(lo), v < z3.RealVal(hi)))
    EXPC[name] = float(val)
    return LogForm({("expc", name): (v, -1 if neg else 1)})


EXPC = {}


def _or(a, b):
    if a is None:
        return b
    if b is None:
        return a
    return z3.Or(a, b)


class SymReal(Sym):
    """plain: z3 real term _e ; log-form: lf (value = ln(lf.term())); optional symbolic NaN flag"""

    __slots__ = ("_e", "lf", "nan", "base", "off")

    def __init__(self, e=None, lf=None, nan=None, base=None, off=0):
        self._e = e
        self.lf = lf
        self.nan = nan
        self.base = base  # z3 term such that value == base + off (off concrete int)
        self.off = off

    @staticmethod
    def const(f):
        if f != f:
            return SymReal(z3.RealVal(0), nan=z3.BoolVal(True))
        if f == float("-inf"):
            return SymReal(lf=LogForm({ZERO: (z3.RealVal(0), 1)}))
        if f == float("inf"):
            return SymReal(lf=LogForm({ZERO: (z3.RealVal(0), -1)}))
        if f in _LOGCONST:
            return SymReal(lf=LogForm.of(z3.RealVal(_LOGCONST[f])))
        return SymReal(z3.RealVal(Fraction(f)))

    @property
    def e(self):
        if self._e is None:
            if self.lf.zexp() != 0:
                raise NotImplementedError("infinite value used as a plain real")
            if not self.lf.fac and not self.lf.gam:
                self._e = z3.RealVal(0)
            else:
                self._e = LN(self.lf.term())
        return self._e

    def _zero_plain(self):
        return self.lf is None and _is0(z3.simplify(self._e))

    def _nan(self, o):
        return _or(self.nan, o.nan)

    @_defer
    def __add__(self, o, sign=1):
        oz = _z(o)
        o = _toreal(oz)
        nan = self._nan(o)
        if self.lf is not None and o.lf is not None:
            za, zb = self.lf.zexp(), o.lf.zexp() * sign
            if za * zb < 0:
                return SymReal(z3.RealVal(0), nan=z3.BoolVal(True))  # inf - inf
            return SymReal(lf=self.lf.mul(o.lf, sign), nan=nan)
        if self.lf is not None and (o._zero_plain() or self.lf.zexp() != 0):
            return SymReal(lf=self.lf, nan=nan)
        if o.lf is not None and (self._zero_plain() or o.lf.zexp() != 0):
            return SymReal(lf=o.lf if sign > 0 else LogForm().mul(o.lf, -1), nan=nan)
        # log-form + rational constant c  ->  multiply by the bracketed constant exp(c)
        if self.lf is not None and o.lf is None and z3.is_rational_value(z3.simplify(o._e)):
            return SymReal(lf=self.lf.mul(_expc_atom(z3.simplify(o._e).as_fraction()), sign), nan=nan)
        if o.lf is not None and self.lf is None and z3.is_rational_value(z3.simplify(self._e)):
            a = _expc_atom(z3.simplify(self._e).as_fraction())
            return SymReal(lf=a.mul(o.lf, sign), nan=nan)
        r = SymReal(self.e + o.e if sign > 0 else self.e - o.e, nan=nan)
        if self.lf is None and isinstance(oz, SymInt) and z3.is_int_value(oz.e):
            r.base = self.base if self.base is not None else self._e
            r.off = self.off + sign * oz.e.as_long()
        elif self.lf is None and o.lf is None and z3.is_rational_value(z3.simplify(o._e)):
            fr = z3.simplify(o._e).as_fraction()
            if fr.denominator == 1:
                r.base = self.base if self.base is not None else self._e
                r.off = self.off + sign * int(fr)
        return r

    @_defer
    def __radd__(self, o):
        return self.__add__(o)

    def __neg__(self):
        if self.lf is not None:
            return SymReal(lf=LogForm().mul(self.lf, -1), nan=self.nan)
        return SymReal(-self.e, nan=self.nan)

    def __pos__(self):
        return self

    @_defer
    def __sub__(self, o):
        return self.__add__(o, -1)

    @_defer
    def __rsub__(self, o):
        return _toreal(_z(o)) - self

    @_defer
    def __mul__(self, o):
        oz = _z(o)
        k = None
        if isinstance(oz, SymBool):
            oz = oz._asint()
        if isinstance(oz, SymInt) and z3.is_int_value(z3.simplify(oz.e)):
            k = z3.simplify(oz.e).as_long()
        elif isinstance(oz, SymReal) and oz.lf is None:
            se = z3.simplify(oz._e)
            if z3.is_rational_value(se) and se.as_fraction().denominator == 1:
                k = int(se.as_fraction())
        if self.lf is not None and k is None and isinstance(oz, SymInt) and Ctx.cur is not None:
            k = Ctx.cur.concretize_int(oz.e)  # log-value times a symbolic integer count: fork over its values
        if self.lf is not None and k is not None:
            return SymReal(lf=self.lf.pow(k), nan=_or(self.nan, getattr(oz, "nan", None)))
        o = _toreal(oz)
        if o.lf is not None and self.lf is None:
            return o * self
        if self.lf is not None and o.lf is None:
            return SymReal(lf=self.lf.scale(z3.simplify(o.e)), nan=self._nan(o))
        return SymReal(self.e * o.e, nan=self._nan(o))

    __rmul__ = __mul__

    @_defer
    def __truediv__(self, o):
        return symdiv(self, o)

    @_defer
    def __rtruediv__(self, o):
        return symdiv(o, self)

    def __pow__(self, n):
        n = _z(n)
        if isinstance(n, SymInt) and z3.is_int_value(n.e) and n.e.as_long() >= 0:
            r = SymReal(z3.RealVal(1))
            for _ in range(n.e.as_long()):
                r = r * self
            return r
        raise NotImplementedError("pow")

    def __abs__(self):
        return SymReal(z3.If(self.e >= 0, self.e, -self.e), nan=self.nan)

    def _pos(self):
        """term t with value == ln(t), if available"""
        if self.lf is not None:
            if self.lf.zexp() < 0:
                return None
            return self.lf.term()
        if self._zero_plain():
            return z3.RealVal(1)
        return None

    @staticmethod
    def _compare(op, a, b):
        r = None
        if a.lf is not None or b.lf is not None:
            # infinities
            za = a.lf.zexp() if a.lf is not None else 0
            zb = b.lf.zexp() if b.lf is not None else 0
            if za < 0 or zb < 0:  # +inf involved
                va = 1 if za < 0 else (-1 if za > 0 else 0)
                vb = 1 if zb < 0 else (-1 if zb > 0 else 0)
                r = z3.BoolVal(getattr(va, op)(vb))
            else:
                pa, pb = a._pos(), b._pos()
                if pa is not None and pb is not None:
                    r = getattr(pa, op)(pb)
                elif za > 0 or zb > 0:  # -inf against a plain finite real
                    va = -1 if za > 0 else 0
                    vb = -1 if zb > 0 else 0
                    r = z3.BoolVal(getattr(va, op)(vb))
        if r is None:
            r = getattr(a.e, op)(b.e)
        nan = a._nan(b)
        if nan is not None:
            r = z3.And(z3.Not(nan), r) if op != "__ne__" else z3.Or(nan, r)
        r = z3.simplify(r)
        if z3.is_true(r):
            return True
        if z3.is_false(r):
            return False
        return SymBool(r)

    __lt__ = _cmp("__lt__")
    __le__ = _cmp("__le__")
    __gt__ = _cmp("__gt__")
    __ge__ = _cmp("__ge__")
    __eq__ = _cmp("__eq__")
    __ne__ = _cmp("__ne__")

    def __hash__(self):
        return id(self)

    def __repr__(self):
        return "SymReal(e=%s, lf=%s, nan=%s)" % (self._e, self.lf and self.lf.term(), self.nan)

    def __float__(self):
        e = z3.simplify(self.e)
        if z3.is_rational_value(e) and self.nan is None:
            return float(e.as_fraction())
        raise Inconclusive("float() of a symbolic real")

    def __bool__(self):
        return bool(self != 0)

    def log(self):
        if self.lf is not None:
            raise NotImplementedError("log of log-form")
        return SymReal(lf=LogForm.of(self.e), nan=self.nan)

    def exp(self):
        if self.lf is not None:
            if self.lf.zexp() < 0:
                raise NotImplementedError("exp(+inf)")
            return SymReal(self.lf.term(), nan=self.nan)
        if self._zero_plain():
            return SymReal(z3.RealVal(1), nan=self.nan)
        return SymReal(EXP(self.e), nan=self.nan)

    def log1p(self):
        return (1 + self).log()

    def isnan(self):
        if self.nan is None:
            return False
        n = z3.simplify(self.nan)
        if z3.is_true(n):
            return True
        if z3.is_false(n):
            return False
        return SymBool(n)


def real_term(x):
    """z3 real term of a number-like value"""
    return _toreal(_z(x)).e


def pos_term(x):
    """z3 term t such that value(x) = ln t (x must be in log-form or exactly 0)"""
    p = _toreal(_z(x))._pos()
    if p is None:
        raise ValueError("not a log-form value: %r" % (x,))
    return p


def exp_term(x):
    """z3 term equal to exp(x)"""
    r = _toreal(_z(x)).exp()
    return r.e


def lgamma(x):
    if cfg.concrete_floats and isinstance(x, (int, float, _np.number)) and not isinstance(x, bool):
        # fully concrete modules: numba's lgamma (no exception at the poles)
        try:
            return math.lgamma(x)
        except ValueError:
            return float("inf")
    x = _z(x)
    if isinstance(x, SymBool):
        x = x._asint()
    if isinstance(x, SymInt):
        k = Ctx.cur.concretize_int(x.e) if not z3.is_int_value(x.e) else x.e.as_long()
        if k <= 0:
            return SymReal.const(float("inf"))  # numba: lgamma(0) = +inf (no exception)
        return SymReal(lf=LogForm.of(z3.RealVal(math.factorial(k - 1))))
    e = z3.simplify(x.e)
    if z3.is_rational_value(e):
        fr = e.as_fraction()
        if fr.denominator == 1:
            if fr < 1:
                return SymReal.const(float("inf"))  # numba: lgamma(0) = +inf (no exception)
            return SymReal(lf=LogForm.of(z3.RealVal(math.factorial(int(fr) - 1))))
        # half-integers etc: Gamma atom on the fractional base
        base = z3.RealVal(fr - math.floor(fr) if fr > 0 else fr)
        off = math.floor(fr) if fr > 0 else 0
    else:
        base = x.base if x.base is not None else x._e
        off = x.off
        base = canon(base)
        if z3.is_rational_value(base):
            return lgamma(SymReal(z3.RealVal(base.as_fraction() + off)))
    if off < 0:
        # Gamma(b - m) = Gamma(b) / ((b-1)...(b-m))
        lf = LogForm(gam={base.get_id(): (base, 1)})
        for i in range(1, -off + 1):
            lf = lf.mul(LogForm.of(base - i), -1)
        return SymReal(lf=lf, nan=x.nan)
    lf = LogForm(gam={base.get_id(): (base, 1)})
    for i in range(off):
        lf = lf.mul(LogForm.of(base + i))
    return SymReal(lf=lf, nan=x.nan)


# ------------------------------------------------------------------ arrays

_INT_RANGES = {
    _np.dtype("int8"): (-(2**7), 2**7 - 1),
    _np.dtype("int16"): (-(2**15), 2**15 - 1),
    _np.dtype("int32"): (-(2**31), 2**31 - 1),
    _np.dtype("uint8"): (0, 2**8 - 1),
}


def _ldt(dtype):
    if dtype is None:
        return None
    if dtype is float:
        return _np.dtype("float64")
    if dtype is int:
        return _np.dtype("int64")
    if dtype is bool:
        return _np.dtype("bool")
    try:
        return _np.dtype(dtype)
    except TypeError:
        return None


class SArray(_np.ndarray):
    """object ndarray remembering its logical dtype"""

    def __new__(cls, shape, ldtype=float):
        a = _np.empty(shape, dtype=object).view(cls)
        a.ldtype = _ldt(ldtype)
        return a

    def __array_finalize__(self, obj):
        self.ldtype = getattr(obj, "ldtype", None)

    @staticmethod
    def _norm_one(i):
        if isinstance(i, _np.ndarray) and i.dtype == object:
            flat = list(i.ravel())
            if flat and all(isinstance(x, (bool, _np.bool_, SymBool)) for x in flat):
                return _np.asarray([bool(x) for x in flat], dtype=bool).reshape(i.shape)
            return _np.asarray([int(x) for x in flat], dtype=_np.int64).reshape(i.shape)
        if isinstance(i, (SymInt, SymBool)):
            return i.__index__()
        if isinstance(i, list) and any(isinstance(x, Sym) for x in i):
            return [x.__index__() if isinstance(x, Sym) else x for x in i]
        return i

    @classmethod
    def _norm(cls, idx):
        if isinstance(idx, tuple):
            return tuple(cls._norm_one(i) for i in idx)
        return cls._norm_one(idx)

    def __getitem__(self, idx):
        r = super().__getitem__(self._norm(idx))
        return r

    def __setitem__(self, idx, v):
        rng = _INT_RANGES.get(self.ldtype)
        if rng is not None:
            v = _wrap_store(v, rng, self.ldtype)
        elif self.ldtype is not None and self.ldtype.kind in "iu" and isinstance(v, (float, SymReal)):
            v = _float_to_int(v)
        super().__setitem__(self._norm(idx), v)

    def tobytes(self, *a):
        return repr([_canon(x) for x in self.ravel()]).encode()

    def astype(self, dtype, *a, **k):
        dt = _ldt(dtype)
        if dt is not None and dt.kind in "iub" and cfg.concrete_ints and not any(isinstance(x, Sym) for x in self.ravel()):
            return _np.asarray([_cast(x, dt) for x in self.ravel()], dtype=dt).reshape(self.shape)
        if dt is not None and dt.kind in "iufb":
            out = SArray(self.shape, dt)
            flat = [_cast(x, dt) for x in self.ravel()]
            tmp = _np.empty(len(flat), dtype=object)
            for i, x in enumerate(flat):
                tmp[i] = x
            _np.ndarray.__setitem__(out, Ellipsis, tmp.reshape(self.shape))
            return out
        return _np.asarray(self, dtype=object).astype(dtype, *a, **k)

    def copy(self, *a, **k):
        r = _np.ndarray.copy(self, *a, **k)
        r.ldtype = self.ldtype
        return r

    def __invert__(self):
        return NP._bmap(lambda v: (~v) if isinstance(v, SymBool) else ((not v) if isinstance(v, (bool, _np.bool_)) else ~v), self)

    def sum(self, axis=None, **k):
        if self.dtype != object:
            return getattr(self.view(_np.ndarray), "sum")(axis=axis, **k)
        return NP.sum(self, axis=axis)

    def any(self, axis=None, **k):
        if self.dtype != object:
            return getattr(self.view(_np.ndarray), "any")(axis=axis, **k)
        return NP.any(self, axis=axis)

    def all(self, axis=None, **k):
        if self.dtype != object:
            return getattr(self.view(_np.ndarray), "all")(axis=axis, **k)
        return NP.all(self, axis=axis)

    def max(self, axis=None, **k):
        if self.dtype != object:
            return getattr(self.view(_np.ndarray), "max")(axis=axis, **k)
        return NP.max(self, axis=axis)

    def min(self, axis=None, **k):
        if self.dtype != object:
            return getattr(self.view(_np.ndarray), "min")(axis=axis, **k)
        return NP.min(self, axis=axis)

    def argmax(self, axis=None, **k):
        if self.dtype != object:
            return getattr(self.view(_np.ndarray), "argmax")(axis=axis, **k)
        return NP.argmax(self, axis=axis)


def _canon(x):
    if isinstance(x, Sym):
        if isinstance(x, SymReal):
            raise Inconclusive("tobytes of symbolic real")
        return x.__index__()
    if isinstance(x, (_np.integer,)):
        return int(x)
    return x


def _float_to_int(v):
    if isinstance(v, float):
        return int(v)
    e = z3.simplify(v.e)
    if z3.is_rational_value(e):
        return int(e.as_fraction())
    raise Inconclusive("symbolic real stored in an int array")


def _cast(x, dt):
    if dt.kind in "iu":
        if isinstance(x, (SymInt,)):
            return x
        if isinstance(x, SymBool):
            return x._asint()
        if isinstance(x, (bool, _np.bool_)):
            return int(x)
        if isinstance(x, (int, _np.integer)):
            return int(x)
        return _float_to_int(x)
    if dt.kind == "f":
        if isinstance(x, (SymReal,)):
            return x
        if isinstance(x, Sym):
            return _toreal(x)
        if isinstance(x, Fraction):
            return x
        return float(x)
    if dt.kind == "b":
        if isinstance(x, (bool, _np.bool_)):
            return bool(x)
        if isinstance(x, SymBool):
            return x
        return x != 0
    return x


def _wrap_store(v, rng, ldtype):
    lo, hi = rng
    span = hi - lo + 1

    def one(x):
        if isinstance(x, (bool, _np.bool_)):
            return int(x)
        if isinstance(x, (int, _np.integer)):
            x = int(x)
            if x < lo or x > hi:
                if Ctx.cur is not None:
                    Ctx.cur.event("int-store-overflow", value=x, dtype=str(ldtype))
                return (x - lo) % span + lo
            return x
        if isinstance(x, SymBool):
            return x._asint()
        if isinstance(x, SymInt):
            ctx = Ctx.cur
            if z3.is_int_value(x.e):
                return one(x.e.as_long())
            if x.e.num_args() == 0 and x.e.decl().name() in INT_BOUNDS:
                blo, bhi = INT_BOUNDS[x.e.decl().name()]
                if lo <= blo and bhi <= hi:
                    return x
            if ctx is not None and ctx.feasible(z3.Or(x.e < lo, x.e > hi)):
                ctx.event("int-store-overflow", value=str(x.e), dtype=str(ldtype))
                return SymInt((x.e - lo) % span + lo)
            return x
        if isinstance(x, (float, SymReal)):
            return one(_float_to_int(x))
        return x

    if isinstance(v, _np.ndarray):
        if v.dtype != object:
            if v.dtype.kind in "iu" and v.size and (v.min() < lo or v.max() > hi):
                return NP._map(one, v)
            return v
        return NP._map(one, v)
    if isinstance(v, (list, tuple)):
        return [one(x) if not isinstance(x, (list, tuple)) else _wrap_store(x, rng, ldtype) for x in v]
    return one(v)


class _Cfg:
    concrete_ints = False  # integer arrays created by the facade are real numpy arrays
    check_int64 = False  # emit an `int-overflow` event when an integer product can leave int64
    concrete_floats = False  # float arrays created by the facade are real numpy arrays too (fully concrete modules)
    fp_error = False  # non-jitted numpy code runs under the programs' `warnings.simplefilter("error", RuntimeWarning)`: an invalid
    #                   or zero-divisor ARRAY division (numpy would warn) raises, unless the code under test set np.errstate to ignore
    note_int_truediv = False  # emit an `int-truediv` event when `/` is applied to two integers (the result is a float64 in numba)
    nd_sets = False  # modules loaded while this is set get `set` / `frozenset` / set displays / set comprehensions whose ITERATION ORDER is
    #                  chosen by the solver (str / bytes hashing is randomised per process: the order is not a function of the inputs)


cfg = _Cfg()

_FLOATS = (float, _np.float64, _np.float32)


def _is_float_dtype(dtype):
    dt = _ldt(dtype)
    return dt is not None and dt.kind == "f"


def sarray(values, ldtype=None):
    """build an SArray from a (nested) list / ndarray of values"""
    if isinstance(values, SArray) and ldtype is None:
        return values
    src = _np.asarray(values, dtype=object) if not isinstance(values, _np.ndarray) else values
    if ldtype is None:
        if isinstance(values, _np.ndarray) and values.dtype != object:
            ldtype = values.dtype
        else:
            flat = list(src.ravel())
            if any(isinstance(x, (float, SymReal, Fraction, _np.floating)) for x in flat):
                ldtype = float
            elif flat and all(isinstance(x, (bool, _np.bool_, SymBool)) for x in flat):
                ldtype = bool
            else:
                ldtype = _np.int64
    out = SArray(src.shape, ldtype)
    if src.dtype != object:
        src = src.astype(object)
        if _ldt(ldtype).kind == "f":
            src = NP._map(float, src) if src.ndim else src
        elif _ldt(ldtype).kind in "iu":
            src = NP._map(int, src) if src.ndim else src
    _np.ndarray.__setitem__(out, Ellipsis, src)
    return out


MIN_ATOMS = {}  # id -> (If-term created by np.minimum on log values, exp(u), exp(v))


def abstract_mins(term, prefix="mu"):
    """replace every exp(min(u, v)) atom inside `term` by a fresh variable.
    returns (term', [(mu, exp_u, exp_v)])"""
    found = []
    seen = set()

    def walk(t):
        k = t.get_id()
        if k in seen:
            return
        seen.add(k)
        if k in MIN_ATOMS and MIN_ATOMS[k][0].eq(t):
            found.append(MIN_ATOMS[k])
            return
        for ch in t.children():
            walk(ch)

    walk(term)
    subs = []
    out = []
    for i, (t, up, vp) in enumerate(found):
        mu = z3.Real("%s!%d" % (prefix, t.get_id()))
        subs.append((t, mu))
        # normalise to (mu, ratio, other): for min(1, r) the constant 1 goes last
        if z3.is_rational_value(up) and not z3.is_rational_value(vp):
            up, vp = vp, up
        out.append((mu, up, vp))
    return (z3.substitute(term, *subs) if subs else term), out


class _Random:
    """placeholder; harnesses install their own stubs (nbsym.stubs)"""

    def __getattr__(self, k):
        raise Inconclusive("np.random.%s reached without a stub" % k)


class _NP:
    """facade over numpy; arrays are SArray (object) when symbolic/float, plain numpy otherwise"""

    inf = float("inf")
    nan = float("nan")
    int8 = _np.int8
    int16 = _np.int16
    int32 = _np.int32
    int64 = _np.int64
    uint8 = _np.uint8
    float32 = _np.float32
    float64 = _np.float64
    bool_ = _np.bool_
    ndarray = _np.ndarray
    newaxis = None
    e = math.e
    pi = math.pi

    def __init__(self):
        self.random = _Random()

    def __getattr__(self, k):
        return getattr(_np, k)

    # ---- construction
    def _new(self, shape, dtype, fill):
        dt = _ldt(dtype) or _np.dtype("float64")
        if (cfg.concrete_ints and dt.kind in "iub") or (cfg.concrete_floats and dt.kind == "f" and not isinstance(fill, Sym)):
            return _np.full(shape, fill if fill is not None else 0, dtype=dt)
        a = SArray(shape, dt)
        if fill is None:
            fill = 0.0 if dt.kind == "f" else (False if dt.kind == "b" else 0)
        elif not isinstance(fill, (Sym, _np.ndarray, list)):
            fill = _cast(fill, dt) if dt.kind in "iufb" else fill
        _np.ndarray.__setitem__(a, Ellipsis, fill)
        return a

    def empty(self, shape, dtype=float):
        return self._new(shape, dtype, None)

    def zeros(self, shape, dtype=float):
        return self._new(shape, dtype, 0)

    def ones(self, shape, dtype=float):
        return self._new(shape, dtype, 1)

    def full(self, shape, v, dtype=None):
        if isinstance(v, (str, bytes)):
            return _np.full(shape, v, dtype=dtype)
        if dtype is None:
            dtype = float if isinstance(v, (float, SymReal, Fraction)) else (bool if isinstance(v, (bool, SymBool)) else _np.int64)
        return self._new(shape, dtype, v)

    def zeros_like(self, a, dtype=None):
        return self._new(a.shape, dtype or getattr(a, "ldtype", None) or a.dtype, 0)

    def empty_like(self, a, dtype=None):
        return self.zeros_like(a, dtype)

    def ones_like(self, a, dtype=None):
        return self._new(a.shape, dtype or getattr(a, "ldtype", None) or a.dtype, 1)

    def array(self, x, dtype=None, copy=True):
        if dtype is not None and _ldt(dtype) is not None and _ldt(dtype).kind in "SUO":
            return _np.array(x, dtype=dtype)
        if isinstance(x, SArray):
            r = x.copy()
            if dtype is not None:
                r = r.astype(dtype)
            return r
        if isinstance(x, _np.ndarray) and x.dtype != object:
            dt = _ldt(dtype) or x.dtype
            if dt.kind == "f" or not cfg.concrete_ints:
                return sarray(x.astype(dt) if dt.kind != "f" else x, dt)
            return _np.array(x, dtype=dt)
        src = _np.asarray(_tolist(x), dtype=object) if not isinstance(x, _np.ndarray) else x
        flat = list(src.ravel())
        has_sym = any(isinstance(v, Sym) for v in flat)
        if flat and any(isinstance(v, (str, bytes)) for v in flat):
            return _np.array(_tolist(x), dtype=dtype)  # character data stays real numpy
        if dtype is None:
            if any(isinstance(v, (float, SymReal, Fraction, _np.floating)) for v in flat):
                dtype = float
            elif flat and all(isinstance(v, (bool, _np.bool_, SymBool)) for v in flat):
                dtype = bool
            else:
                dtype = _np.int64
        dt = _ldt(dtype)
        if not has_sym and cfg.concrete_ints and dt.kind in "iub":
            return _np.array(_tolist(x), dtype=dt)
        out = SArray(src.shape, dt)
        rng = _INT_RANGES.get(dt)
        vals = self._map(lambda v: _cast(v, dt), src) if src.ndim else _cast(src.item(), dt)
        if rng is not None:
            vals = _wrap_store(vals, rng, dt)
        _np.ndarray.__setitem__(out, Ellipsis, vals)
        return out

    def asarray(self, x, dtype=None):
        if isinstance(x, _np.ndarray) and dtype is None:
            return x
        return self.array(x, dtype=dtype)

    def arange(self, *a, dtype=None):
        a = [int(v) for v in a]
        r = _np.arange(*a)
        if cfg.concrete_ints:
            return r if dtype is None else r.astype(dtype)
        return sarray(r, dtype or _np.int64)

    def copy(self, a):
        return a.copy()

    # ---- elementwise helpers
    @staticmethod
    def _map(f, x, *more):
        if isinstance(x, _np.ndarray):
            out = SArray(x.shape, getattr(x, "ldtype", None))
            if more:
                arrs = _np.broadcast_arrays(_np.asarray(x, dtype=object), *[_np.asarray(m, dtype=object) for m in more])
                out = SArray(arrs[0].shape, getattr(x, "ldtype", None))
                for idx in _np.ndindex(arrs[0].shape):
                    _np.ndarray.__setitem__(out, idx, f(*[a[idx] for a in arrs]))
                return out
            for idx in _np.ndindex(x.shape):
                _np.ndarray.__setitem__(out, idx, f(_np.ndarray.__getitem__(x, idx)))
            return out
        if more and any(isinstance(m, _np.ndarray) for m in more):
            arrs = _np.broadcast_arrays(_np.asarray(x, dtype=object), *[_np.asarray(m, dtype=object) for m in more])
            out = SArray(arrs[0].shape, None)
            for idx in _np.ndindex(arrs[0].shape):
                _np.ndarray.__setitem__(out, idx, f(*[a[idx] for a in arrs]))
            return out
        return f(x, *more)

    def _fmap(self, f, x, *more):
        r = self._map(f, x, *more)
        if isinstance(r, SArray):
            r.ldtype = _np.dtype("float64")
        return r

    def _bmap(self, f, x, *more):
        r = self._map(f, x, *more)
        if isinstance(r, SArray):
            r.ldtype = _np.dtype("bool")
        elif isinstance(r, bool):
            r = _np.bool_(r)  # numpy's scalar result has .all() / .any()
        return r

    def log(self, x):
        if cfg.concrete_floats and _all_plain((x,), {}):
            with _np.errstate(all="ignore"):
                return _np.log(x)
        def f(v):
            if isinstance(v, Sym):
                v = _toreal(v)
                if v.lf is None:
                    ctx = Ctx.cur
                    if ctx is not None and not z3.is_rational_value(z3.simplify(v.e)):
                        if ctx.feasible(v.e < 0):
                            ctx.event("log-of-negative", term=str(v.e)[:200])
                            ctx.assume(v.e >= 0)
                return v.log()
            if isinstance(v, Fraction):
                return SymReal(lf=LogForm.of(z3.RealVal(v)))
            v = float(v)
            if v != v:
                return SymReal.const(v)
            if v == 0:
                return SymReal.const(float("-inf"))
            return SymReal(lf=LogForm.of(z3.RealVal(Fraction(v))))

        return self._fmap(f, x)

    def exp(self, x):
        if cfg.concrete_floats and _all_plain((x,), {}):
            with _np.errstate(all="ignore"):
                return _np.exp(x)
        def f(v):
            if isinstance(v, Sym):
                return _toreal(v).exp()
            if isinstance(v, Fraction):
                v = float(v) if v != 0 else 0
            if v == float("-inf"):
                return 0.0
            if v == 0:
                return 1.0
            if v != v:
                return v
            return SymReal(EXP(z3.RealVal(Fraction(v))))

        return self._fmap(f, x)

    def log1p(self, x):
        if cfg.concrete_floats and _all_plain((x,), {}):
            with _np.errstate(all="ignore"):
                return _np.log1p(x)
        return self._fmap(lambda v: _toreal(_z(v)).log1p(), x)

    def log10(self, x):
        if cfg.concrete_floats and _all_plain((x,), {}):
            with _np.errstate(all="ignore"):
                return _np.log10(x)
        raise Inconclusive("log10 not modelled")

    def isnan(self, x):
        def f(v):
            if isinstance(v, SymReal):
                return v.isnan()
            if isinstance(v, (Sym, Fraction, int)):
                return False
            return v != v

        return self._bmap(f, x)

    def minimum(self, a, b):
        def f(u, v):
            if not isinstance(u, Sym) and not isinstance(v, Sym):
                return min(u, v)
            if isinstance(u, (SymInt, int)) and isinstance(v, (SymInt, int)):
                u, v = _z(u), _z(v)
                return SymInt(z3.If(u.e < v.e, u.e, v.e))
            u = _toreal(_z(u))
            v = _toreal(_z(v))
            c = u < v
            if isinstance(c, bool):
                return u if c else v
            c = c.e
            if u.lf is not None or v.lf is not None:
                up, vp = u._pos(), v._pos()
                if up is not None and vp is not None:
                    t = z3.If(c, up, vp)
                    MIN_ATOMS[t.get_id()] = (t, up, vp)
                    return SymReal(lf=LogForm({t.get_id(): (t, 1)}), nan=u._nan(v))
            return SymReal(z3.If(c, u.e, v.e), nan=u._nan(v))

        return self._map(f, a, b)

    def maximum(self, a, b):
        def f(u, v):
            if not isinstance(u, Sym) and not isinstance(v, Sym):
                return max(u, v)
            if isinstance(u, (SymInt, int)) and isinstance(v, (SymInt, int)):
                u, v = _z(u), _z(v)
                return SymInt(z3.If(u.e > v.e, u.e, v.e))
            u = _toreal(_z(u))
            v = _toreal(_z(v))
            c = u > v
            if isinstance(c, bool):
                return u if c else v
            c = c.e
            if u.lf is not None or v.lf is not None:
                up, vp = u._pos(), v._pos()
                if up is not None and vp is not None:
                    t = z3.If(c, up, vp)
                    return SymReal(lf=LogForm({t.get_id(): (t, 1)}), nan=u._nan(v))
            return SymReal(z3.If(c, u.e, v.e), nan=u._nan(v))

        return self._map(f, a, b)

    def abs(self, x):
        return self._map(lambda v: abs(v), x)

    absolute = abs

    def where(self, c, a=None, b=None):
        if a is None:
            c = _np.asarray(SArray._norm_one(c) if isinstance(c, _np.ndarray) and c.dtype == object else c)
            return _np.where(c)

        def f(cc, u, v):
            if isinstance(cc, SymBool):
                return u if bool(cc) else v
            return u if cc else v

        return self._map(f, c, a, b)

    def _reduce(self, x, axis, f, init=None):
        x = x if isinstance(x, _np.ndarray) else _np.asarray(_tolist(x), dtype=object)
        if axis is None:
            vals = [_np.ndarray.__getitem__(x, i) for i in _np.ndindex(x.shape)] if x.ndim != 1 else [
                _np.ndarray.__getitem__(x, i) for i in range(x.shape[0])]
            return f(vals)
        if axis < 0:
            axis += x.ndim
        moved = _np.moveaxis(_np.asarray(x, dtype=object), axis, -1)
        out = SArray(moved.shape[:-1], getattr(x, "ldtype", None))
        for idx in _np.ndindex(moved.shape[:-1]):
            _np.ndarray.__setitem__(out, idx, f(list(moved[idx])))
        return out

    def sum(self, x, axis=None, **k):
        if isinstance(x, _np.ndarray) and x.dtype != object:
            return _np.sum(x.view(_np.ndarray), axis=axis, **k)

        def f(vals):
            t = 0
            for v in vals:
                t = t + v
            return t

        return self._reduce(x, axis, f)

    def prod(self, x, axis=None, **k):
        if isinstance(x, _np.ndarray) and x.dtype != object:
            return _np.prod(x.view(_np.ndarray), axis=axis, **k)

        def f(vals):
            t = 1
            for v in vals:
                t = t * v
            return t

        return self._reduce(x, axis, f)

    def any(self, x, axis=None, **k):
        if isinstance(x, _np.ndarray) and x.dtype != object:
            return _np.any(x.view(_np.ndarray), axis=axis, **k)

        def f(vals):
            for v in vals:
                if v:
                    return True
            return False

        return self._reduce(x, axis, f)

    def all(self, x, axis=None, **k):
        if isinstance(x, _np.ndarray) and x.dtype != object:
            return _np.all(x.view(_np.ndarray), axis=axis, **k)

        def f(vals):
            for v in vals:
                if not v:
                    return False
            return True

        return self._reduce(x, axis, f)

    def max(self, x, axis=None, **k):
        if isinstance(x, _np.ndarray) and x.dtype != object:
            return _np.max(x.view(_np.ndarray), axis=axis, **k)

        def f(vals):
            m = vals[0]
            for v in vals[1:]:
                if v > m:
                    m = v
            return m

        return self._reduce(x, axis, f)

    amax = max

    def min(self, x, axis=None, **k):
        if isinstance(x, _np.ndarray) and x.dtype != object:
            return _np.min(x.view(_np.ndarray), axis=axis, **k)

        def f(vals):
            m = vals[0]
            for v in vals[1:]:
                if v < m:
                    m = v
            return m

        return self._reduce(x, axis, f)

    amin = min

    def argmax(self, x, axis=None, **k):
        if isinstance(x, _np.ndarray) and x.dtype != object:
            return _np.argmax(x.view(_np.ndarray), axis=axis, **k)

        def f(vals):
            m = 0
            for i in range(1, len(vals)):
                if vals[i] > vals[m]:
                    m = i
            return m

        return self._reduce(x, axis, f)

    def argmin(self, x, axis=None, **k):
        if isinstance(x, _np.ndarray) and x.dtype != object:
            return _np.argmin(x.view(_np.ndarray), axis=axis, **k)

        def f(vals):
            m = 0
            for i in range(1, len(vals)):
                if vals[i] < vals[m]:
                    m = i
            return m

        return self._reduce(x, axis, f)

    def mean(self, x, axis=None):
        n = x.size if axis is None else x.shape[axis]
        return symdiv(self.sum(x, axis=axis), n)

    def nanmean(self, x, axis=None):
        raise Inconclusive("nanmean not modelled")

    def cumsum(self, x, axis=None):
        if isinstance(x, _np.ndarray) and x.dtype != object:
            return _np.cumsum(x, axis=axis)
        flat = list(x.ravel())
        out = SArray(len(flat), getattr(x, "ldtype", None))
        t = 0
        for i, v in enumerate(flat):
            t = t + v
            _np.ndarray.__setitem__(out, i, t)
        return out

    def sort(self, x, axis=-1):
        if not isinstance(x, _np.ndarray):
            x = self.array(x) if any(isinstance(v, Sym) for v in _np.asarray(_tolist(x), dtype=object).ravel()) else _np.asarray(x)
        if isinstance(x, _np.ndarray) and x.dtype != object:
            return _np.sort(x, axis=axis)
        r = x.copy()
        _sort_inplace(r, axis)
        return r

    def argsort(self, x, axis=-1, kind=None):
        if isinstance(x, _np.ndarray) and x.dtype != object:
            return _np.argsort(x, axis=axis, kind=kind)
        assert x.ndim == 1
        idx = list(range(len(x)))
        vals = list(x)
        # insertion sort (stable); comparisons fork
        for i in range(1, len(idx)):
            j = i
            while j > 0 and vals[idx[j]] < vals[idx[j - 1]]:
                idx[j], idx[j - 1] = idx[j - 1], idx[j]
                j -= 1
        return _np.array(idx)

    def searchsorted(self, a, v, side="left"):
        if not isinstance(v, Sym) and not (isinstance(a, _np.ndarray) and a.dtype == object):
            return _np.searchsorted(a, v, side=side)
        n = 0
        for x in a:
            if (x <= v) if side == "right" else (x < v):
                n += 1
            else:
                break
        return n

    def unique(self, x, **k):
        if isinstance(x, _np.ndarray) and x.dtype == object:
            x = _np.asarray([_canon(v) for v in x.ravel()]).reshape(x.shape)
        return _np.unique(x, **k)

    def concatenate(self, arrs, axis=0):
        if all(isinstance(a, _np.ndarray) and a.dtype != object for a in arrs):
            return _np.concatenate(arrs, axis=axis)
        ld = None
        for a in arrs:
            ld = getattr(a, "ldtype", None) or ld
        r = _np.concatenate([_np.asarray(a, dtype=object) for a in arrs], axis=axis).view(SArray)
        r.ldtype = ld
        return r

    def expand_dims(self, a, axis):
        return _np.expand_dims(a, axis)

    def isin(self, a, b):
        bl = list(_np.asarray(b, dtype=object).ravel())

        def f(v):
            for w in bl:
                if v == w:
                    return True
            return False

        return self._bmap(f, a)

    def array_equal(self, a, b):
        a = _np.asarray(a, dtype=object)
        b = _np.asarray(b, dtype=object)
        if a.shape != b.shape:
            return False
        for u, v in zip(a.ravel(), b.ravel()):
            if not (u == v):
                return False
        return True

    def logical_not(self, x):
        return self._bmap(lambda v: ~v if isinstance(v, SymBool) else (not v), x)

    def logical_and(self, a, b):
        return self._bmap(lambda u, v: (u & v) if isinstance(u, Sym) or isinstance(v, Sym) else (bool(u) and bool(v)), a, b)

    def logical_or(self, a, b):
        return self._bmap(lambda u, v: (u | v) if isinstance(u, Sym) or isinstance(v, Sym) else (bool(u) or bool(v)), a, b)

    def round(self, x, decimals=0):
        if isinstance(x, _np.ndarray) and x.dtype != object:
            return _np.round(x, decimals)
        raise Inconclusive("round of symbolic value")

    def floor(self, x):
        raise Inconclusive("floor not modelled")

    def count_nonzero(self, x, axis=None):
        return self.sum(self._map(lambda v: (v != 0), x), axis=axis)


def _tolist(x):
    if isinstance(x, _np.ndarray):
        return x.tolist()
    if isinstance(x, (list, tuple)):
        return [_tolist(v) for v in x]
    return x


def _sort_inplace(a, axis=-1):
    if a.ndim == 1:
        vals = list(a)
        for i in range(1, len(vals)):
            j = i
            while j > 0 and vals[j] < vals[j - 1]:
                vals[j], vals[j - 1] = vals[j - 1], vals[j]
                j -= 1
        for i, v in enumerate(vals):
            _np.ndarray.__setitem__(a, i, v)
        return
    moved = _np.moveaxis(a, axis, -1)
    for idx in _np.ndindex(moved.shape[:-1]):
        _sort_inplace(moved[idx])


def _sarray_sort(self, axis=-1, **k):
    _sort_inplace(self, axis)


SArray.sort = _sarray_sort

def _all_plain(args, kwargs):
    def ok(x):
        if isinstance(x, Sym):
            return False
        if isinstance(x, _np.ndarray):
            return x.dtype != object
        if isinstance(x, (list, tuple)):
            return all(ok(v) for v in x)
        return True

    return all(ok(a) for a in args) and all(ok(v) for v in kwargs.values())


def _delegating(name, f):
    real = getattr(_np, name, None)
    if real is None:
        return f

    def g(self, *a, **k):
        if a and _all_plain(a, k) and (cfg.concrete_floats or any(isinstance(x, (_np.ndarray, _np.generic, list, tuple)) for x in a)):
            return real(*[x.view(_np.ndarray) if isinstance(x, SArray) else x for x in a], **k)
        return f(self, *a, **k)

    g.__name__ = name
    return g


_NO_DELEGATE = {"empty", "zeros", "ones", "full", "zeros_like", "empty_like", "ones_like", "array", "asarray", "arange", "copy", "log", "exp", "log1p", "log10"}
for _name, _f in list(vars(_NP).items()):
    if callable(_f) and not _name.startswith("_") and _name not in _NO_DELEGATE and not isinstance(_f, (staticmethod, type)):
        setattr(_NP, _name, _delegating(_name, _f))

NP = _NP()
np = NP


class _MATH:
    lgamma = staticmethod(lgamma)
    inf = float("inf")
    nan = float("nan")

    @staticmethod
    def log(x):
        return NP.log(x)

    @staticmethod
    def exp(x):
        return NP.exp(x)

    @staticmethod
    def isnan(x):
        return NP.isnan(x)

    @staticmethod
    def factorial(n):
        return math.factorial(int(n))

    def __getattr__(self, k):
        return getattr(math, k)


MATH = _MATH()


class _Numba:
    @staticmethod
    def njit(*a, **k):
        if len(a) == 1 and callable(a[0]) and not k:
            return a[0]
        return lambda f: f

    jit = njit

    @staticmethod
    def vectorize(*a, **k):
        """numba.vectorize -> numpy.vectorize of the Python function"""
        def deco(f):
            vf = _np.vectorize(f)

            def g(*args):
                arrs = [_np.asarray(x) for x in args]
                if any(x.size == 0 for x in arrs):
                    return _np.zeros(_np.broadcast(*arrs).shape, dtype=_np.int64)
                return vf(*args)

            return g
        if len(a) == 1 and callable(a[0]) and not k:
            return deco(a[0])
        return deco

    @staticmethod
    def guvectorize(sigs, layout, **k):
        """numba.guvectorize -> numpy.vectorize with the same core signature; the kernel writes into its last argument"""
        def deco(f):
            outs = layout.split("->")[1]
            def kernel(*args):
                ref = _np.asarray(args[0])
                out = _np.empty(ref.shape, dtype=ref.dtype)
                f(*args, out)
                return out
            return _np.vectorize(kernel, signature=layout)
        return deco

    class typed:
        class Dict:
            @staticmethod
            def empty(*a, **k):
                return {}

        class List:
            @staticmethod
            def empty_list(*a, **k):
                return []

    class types:
        int64 = float64 = int8 = unicode_type = None

        @staticmethod
        def UniTuple(*a):
            return None

    class core:
        class types:
            int64 = float64 = None

    class errors:
        class NumbaDeprecationWarning(Warning):
            pass

        class NumbaPendingDeprecationWarning(Warning):
            pass

    def __getattr__(self, k):
        raise AttributeError(k)


NUMBA = _Numba()

# ------------------------------------------------------------------ division / literals


def symfloat(s):
    f = float(s)
    if cfg.concrete_floats:
        return f  # fully concrete modules keep native floats
    if f in _LOGCONST:
        return SymReal.const(f)
    return SymReal(z3.RealVal(Fraction(s)))


def _plain(x):
    return (isinstance(x, _np.ndarray) and x.dtype != object) or isinstance(x, (int, float, _np.number)) and not isinstance(x, bool)


def _fp_raises():
    return cfg.fp_error and _np.geterr()["invalid"] != "ignore"


def symdiv(a, b):
    if (isinstance(a, _np.ndarray) or isinstance(b, _np.ndarray)) and _plain(a) and _plain(b):
        if _fp_raises():
            with _np.errstate(divide="raise", invalid="raise"):
                try:
                    return _np.true_divide(a, b)
                except FloatingPointError as e:
                    raise RuntimeWarning("%s (numpy warning turned into an error by the program's warning filter)" % e)
        with _np.errstate(all="ignore"):
            return _np.true_divide(a, b)  # concrete numeric arrays: numpy itself
    if isinstance(a, _np.ndarray) or isinstance(b, _np.ndarray):
        # numpy semantics (array operands): no ZeroDivisionError
        return NP._fmap(lambda u, v: _scalar_div(u, v, array=True), a, b)
    return _scalar_div(a, b, array=False)


def _scalar_div(a, b, array):
    if cfg.concrete_floats and isinstance(a, (int, float, _np.number)) and isinstance(b, (int, float, _np.number)):
        return a / b  # fully concrete modules: native division
    if isinstance(a, (bool, _np.bool_)):
        a = int(a)
    if isinstance(b, (bool, _np.bool_)):
        b = int(b)
    if cfg.note_int_truediv and Ctx.cur is not None and isinstance(a, (int, _np.integer, SymInt)) and isinstance(b, (int, _np.integer, SymInt)):
        Ctx.cur.event("int-truediv", a=str(a)[:40], b=str(b)[:40])
    if isinstance(a, (int, _np.integer, Fraction)) and isinstance(b, (int, _np.integer, Fraction)):
        if b == 0:
            if array:
                return float("nan") if a == 0 else SymReal.const(float("inf") if a > 0 else float("-inf"))
            raise ZeroDivisionError("division by zero")
        return SymReal(z3.RealVal(Fraction(a) / Fraction(b)))
    a = _toreal(_z(a))
    b = _toreal(_z(b))
    if b.lf is not None or a.lf is not None:
        # division of log values: not an identity we can exploit; use plain terms
        pass
    be = z3.simplify(b.e)
    if z3.is_rational_value(be):
        if be.as_fraction() == 0:
            if array:
                if _fp_raises():
                    raise RuntimeWarning("invalid value / divide by zero encountered in divide (numpy warning turned into an error by the program's warning filter)")
                return SymReal(z3.RealVal(0), nan=z3.BoolVal(True))
            raise ZeroDivisionError("division by zero")
    elif Ctx.cur is not None:
        if Ctx.cur.branch(be == 0):
            if array:
                if _fp_raises():
                    raise RuntimeWarning("invalid value / divide by zero encountered in divide (numpy warning turned into an error by the program's warning filter)")
                return SymReal(z3.RealVal(0), nan=z3.BoolVal(True))
            raise ZeroDivisionError("division by zero")
    return SymReal(a.e / b.e, nan=a._nan(b))


def symidiv(a, b):
    if isinstance(a, _np.ndarray):
        ld = getattr(a, "ldtype", None) or a.dtype
        if _ldt(ld) is not None and _ldt(ld).kind in "iub":
            raise TypeError(
                "UFuncTypeError: Cannot cast ufunc 'divide' output from dtype('float64') to dtype('%s') "
                "with casting rule 'same_kind'" % _ldt(ld)
            )
        r = symdiv(a, b)
        if a.dtype != object:
            a[...] = r
            return a
        _np.ndarray.__setitem__(a, Ellipsis, r)
        return a
    return symdiv(a, b)


class _Rewrite(ast.NodeTransformer):
    def visit_BinOp(self, node):
        self.generic_visit(node)
        if isinstance(node.op, ast.Div):
            return ast.copy_location(
                ast.Call(ast.Name("__symdiv__", ast.Load()), [node.left, node.right], []), node
            )
        return node

    def visit_AugAssign(self, node):
        self.generic_visit(node)
        if isinstance(node.op, ast.Div):
            load = copy.deepcopy(node.target)
            for n in ast.walk(load):
                if hasattr(n, "ctx"):
                    n.ctx = ast.Load()
            return ast.copy_location(
                ast.Assign([node.target], ast.Call(ast.Name("__symidiv__", ast.Load()), [load, node.value], [])),
                node,
            )
        return node

    def visit_ExceptHandler(self, node):
        # bare `except:` must not swallow the engine's path-steering BaseExceptions
        self.generic_visit(node)
        if node.type is None:
            node.type = ast.Name("Exception", ast.Load())
        return node

    def visit_Set(self, node):
        self.generic_visit(node)
        if not cfg.nd_sets:
            return node
        return ast.copy_location(ast.Call(ast.Name("__ndset__", ast.Load()), [ast.List(node.elts, ast.Load())], []), node)

    def visit_SetComp(self, node):
        self.generic_visit(node)
        if not cfg.nd_sets:
            return node
        return ast.copy_location(ast.Call(ast.Name("__ndset__", ast.Load()), [ast.ListComp(node.elt, node.generators)], []), node)

    def visit_Constant(self, node):
        if isinstance(node.value, float):
            return ast.copy_location(
                ast.Call(ast.Name("__symfloat__", ast.Load()), [ast.Constant(repr(node.value))], []), node
            )
        return node


# ------------------------------------------------------------------ sets with a solver-chosen iteration order


def _nd_perms(n):
    """the candidate orders of an n-element set: all of them up to 3 elements, 6 representative ones beyond"""
    import itertools as _it

    idx = list(range(n))
    if n <= 3:
        return [list(p) for p in _it.permutations(idx)]
    h = n // 2
    cands = [idx, idx[::-1], idx[1:] + idx[:1], idx[h:] + idx[:h], [1, 0] + idx[2:], idx[:-2] + [n - 1, n - 2]]
    out = []
    for c_ in cands:
        if c_ not in out:
            out.append(c_)
    return out


class NDSet(set):
    """a Python set as the language defines it: membership, size and algebra are those of `set`; the ORDER in which it is
    iterated is unspecified -- here drawn by the solver (one bounded integer per iterated set state), stable while the set is
    not modified, as CPython guarantees.  Results of the set algebra are NDSets again."""

    _counter = [0]

    def __init__(self, it=()):
        super().__init__()
        self._ord = []
        self._perm = None
        for x in it:
            self.add(x)

    # ---- mutation keeps the insertion list and drops the drawn order
    def add(self, x):
        if not set.__contains__(self, x):
            set.add(self, x)
            self._ord.append(x)
            self._perm = None

    def discard(self, x):
        if set.__contains__(self, x):
            set.discard(self, x)
            self._ord = [y for y in self._ord if not (y is x or y == x)]
            self._perm = None

    def remove(self, x):
        if not set.__contains__(self, x):
            raise KeyError(x)
        self.discard(x)

    def pop(self):
        for x in self:
            self.discard(x)
            return x
        raise KeyError("pop from an empty set")

    def clear(self):
        set.clear(self)
        self._ord = []
        self._perm = None

    def update(self, *others):
        for o in others:
            for x in o:
                self.add(x)

    def __ior__(self, o):
        self.update(o)
        return self

    def __iand__(self, o):
        for x in [y for y in self._ord if y not in o]:
            self.discard(x)
        return self

    def __isub__(self, o):
        for x in [y for y in self._ord if y in o]:
            self.discard(x)
        return self

    def difference_update(self, *others):
        for o in others:
            self.__isub__(set(o))

    def intersection_update(self, *others):
        for o in others:
            self.__iand__(set(o))

    # ---- algebra returns NDSets
    def copy(self):
        return NDSet(self._ord)

    def __or__(self, o):
        return NDSet(list(self._ord) + [x for x in _nd_plain_order(o)])

    __ror__ = __or__
    union = lambda self, *os_: NDSet(list(self._ord) + [x for o in os_ for x in _nd_plain_order(o)])  # noqa: E731

    def __and__(self, o):
        return NDSet([x for x in self._ord if x in o])

    __rand__ = __and__
    intersection = lambda self, *os_: NDSet([x for x in self._ord if all(x in o for o in os_)])  # noqa: E731

    def __sub__(self, o):
        return NDSet([x for x in self._ord if x not in o])

    def __rsub__(self, o):
        return NDSet([x for x in _nd_plain_order(o) if not set.__contains__(self, x)])

    difference = lambda self, *os_: NDSet([x for x in self._ord if not any(x in o for o in os_)])  # noqa: E731

    def __xor__(self, o):
        return NDSet([x for x in self._ord if x not in o] + [x for x in _nd_plain_order(o) if not set.__contains__(self, x)])

    __rxor__ = __xor__
    symmetric_difference = __xor__

    # ---- the one thing that differs from `set`
    def __iter__(self):
        n = len(self._ord)
        ctx = Ctx.cur
        if n < 2 or ctx is None or not cfg.nd_sets:
            return iter(list(self._ord))
        if self._perm is None:
            perms = _nd_perms(n)
            i = ctx.notes["setorder"] = ctx.notes.get("setorder", 0) + 1
            k = int(SymInt(fresh_int(ctx, "setorder%d" % i, 0, len(perms) - 1)))
            ctx.event("set-iteration", size=n, order=k, elements=[repr(x)[:40] for x in self._ord])
            self._perm = perms[k]
        return iter([self._ord[i] for i in self._perm])

    def __repr__(self):
        return "{" + ", ".join(repr(x) for x in self._ord) + "}" if self._ord else "set()"

    __str__ = __repr__

    def __reduce__(self):
        return (NDSet, (list(self._ord),))


def _nd_plain_order(o):
    return list(o._ord) if isinstance(o, NDSet) else list(o)


# ------------------------------------------------------------------ loader

_modules = {}
_summaries = {}  # module name -> {function name: summary}
_extern = {}  # import name -> replacement module object (stubs for pysam etc.)
SKIP_INIT = {"mchap"}  # the top-level package only re-exports (and would pull in everything)
loaded_sources = {}  # module name -> (file, sha1)


def reset_modules():
    _modules.clear()
    loaded_sources.clear()


def set_extern(name, module):
    _extern[name] = module


def _imp(name, globals=None, locals=None, fromlist=(), level=0):
    if level != 0:
        pkg = globals["__package__"]
        base = pkg.split(".")
        if level > 1:
            base = base[: -(level - 1)]
        name = ".".join(base + ([name] if name else []))
    if name in _extern:
        return _extern[name]
    if name == "numpy":
        return NP
    if name == "numba":
        return NUMBA
    if name.startswith("numba."):  # from numba.typed import Dict, from numba.core import types ...
        obj = NUMBA
        if fromlist:
            try:
                for part in name.split(".")[1:]:
                    obj = getattr(obj, part)
                return obj
            except AttributeError:
                pass
        else:
            return NUMBA
    if name == "math":
        return MATH
    if name == "mchap" or name.startswith("mchap."):
        m = load(name)
        if fromlist:
            for f in fromlist:
                if not hasattr(m, f):
                    p = os.path.join(repo_root(), *name.split("."), f)
                    if os.path.exists(p + ".py") or os.path.isdir(p):
                        load(name + "." + f)
            return m
        return load(name.split(".")[0])
    m = importlib.import_module(name)
    if fromlist:
        return m
    return importlib.import_module(name.split(".")[0])


def load(name, keep_init=False):
    """shadow-load module `name` from the repository's current source"""
    if name in _modules:
        return _modules[name]
    if "." in name:
        load(name.rsplit(".", 1)[0])  # parent package first (as Python does)
        if name in _modules:
            return _modules[name]
    root = repo_root()
    path = os.path.join(root, *name.split("."))
    if os.path.isdir(path):
        file = os.path.join(path, "__init__.py")
        pkg = name
    else:
        file = path + ".py"
        pkg = name.rsplit(".", 1)[0]
    m = types.ModuleType("sym_" + name)
    m.__package__ = pkg
    m.__file__ = file
    b = dict(vars(builtins))
    b["__import__"] = _imp
    if cfg.nd_sets:
        b["set"] = b["frozenset"] = NDSet
    m.__dict__["__ndset__"] = NDSet
    m.__dict__["__builtins__"] = b
    _modules[name] = m
    src = open(file).read() if os.path.exists(file) else ""
    if name in SKIP_INIT and not keep_init:
        src = ""  # skip package __init__ side imports
    else:
        loaded_sources[name] = (file, hashlib.sha1(src.encode()).hexdigest()[:12])
    import warnings

    with warnings.catch_warnings():
        warnings.simplefilter("ignore")
        tree = ast.parse(src, file)
    tree = _Rewrite().visit(tree)
    ast.fix_missing_locations(tree)
    code = compile(tree, file, "exec")
    m.__dict__["__symdiv__"] = symdiv
    m.__dict__["__symfloat__"] = symfloat
    m.__dict__["__symidiv__"] = symidiv
    if "." in name:
        parent = load(name.rsplit(".", 1)[0])
        setattr(parent, name.rsplit(".", 1)[1], m)
    old = cfg.concrete_ints
    cfg.concrete_ints = True  # module-level tables (e.g. _COMB_CACHE) are concrete
    try:
        exec(code, m.__dict__)
    finally:
        cfg.concrete_ints = old
    for k, v in _summaries.get(name, {}).items():
        m.__dict__["_real_" + k] = m.__dict__[k]
        m.__dict__[k] = v
    return m


def patch_everywhere(fn_module, fn_name, replacement):
    """replace a function in its defining shadow module and in every loaded shadow module that
    imported it by name (from x import f)."""
    orig = getattr(load(fn_module), "_real_" + fn_name, None) or getattr(load(fn_module), fn_name)
    for m in list(_modules.values()):
        if getattr(m, fn_name, None) is orig:
            setattr(m, fn_name, replacement)
    setattr(load(fn_module), fn_name, replacement)
    return orig


# ------------------------------------------------------------------ summaries


def _sum_add_log_prob(x, y):
    x = _toreal(_z(x))
    y = _toreal(_z(y))
    px, py = x._pos(), y._pos()
    if px is None or py is None:
        raise Inconclusive("add_log_prob summary on non log-form value")
    return SymReal(lf=LogForm.of(px + py), nan=x._nan(y))


def _sum_sum_log_probs(array):
    acc = array[0]
    for i in range(1, len(array)):
        acc = _sum_add_log_prob(acc, array[i])
    return acc


def _sum_normalise_log_probs(llks):
    ps = [_toreal(_z(v))._pos() for v in llks]
    if any(p is None for p in ps):
        raise Inconclusive("normalise_log_probs summary on non log-form value")
    tot = z3.Sum(ps) if len(ps) > 1 else ps[0]
    out = SArray(len(ps), float)
    for i, p in enumerate(ps):
        _np.ndarray.__setitem__(out, i, SymReal(p / tot))
    return out


def use_summaries(on=True):
    """install (or remove) the summaries of mchap.jitutils.{add_log_prob,sum_log_probs,
    normalise_log_probs}; must be called before the modules are loaded"""
    if on:
        _summaries["mchap.jitutils"] = {
            "add_log_prob": _sum_add_log_prob,
            "sum_log_probs": _sum_sum_log_probs,
            "normalise_log_probs": _sum_normalise_log_probs,
        }
    else:
        _summaries.pop("mchap.jitutils", None)


# ------------------------------------------------------------------ VC discharge

ONE = z3.RealVal(1)


def _fprod(D, exclude=None):
    """product term of a factor dict {id: (term, k)}; exclude: factor dict to divide out (must be contained)"""
    fs = []
    for k, (t, e) in D.items():
        if exclude is not None and k in exclude:
            e -= exclude[k][1]
        fs.extend([t] * e)
    if not fs:
        return None
    return z3.Product(fs) if len(fs) > 1 else fs[0]


def _flcm(D1, D2):
    L = dict(D1)
    for k, (t, e) in D2.items():
        if k not in L or L[k][1] < e:
            L[k] = (t, e)
    return L


def _fmul(n, f):
    if f is None:
        return n
    if n.eq(ONE):
        return f
    return n * f


def _fadd(D1, D2):
    D = dict(D1)
    for k, (t, e) in D2.items():
        D[k] = (t, D[k][1] + e) if k in D else (t, e)
    return D


def _ffactors(t, sign=1):
    """split a (division-free) term into constant * atomic factors: returns (Fraction c, factor dict)"""
    if z3.is_rational_value(t):
        return t.as_fraction(), {}
    if z3.is_app_of(t, z3.Z3_OP_MUL):
        c = Fraction(1)
        D = {}
        for ch in t.children():
            c2, D2 = _ffactors(ch)
            c *= c2
            D = _fadd(D, D2)
        return c, D
    if z3.is_app_of(t, z3.Z3_OP_UMINUS):
        c, D = _ffactors(t.arg(0))
        return -c, D
    return Fraction(1), {t.get_id(): (t, 1)}


def as_frac2(t, memo):
    """z3 real term with +,-,*,/,ite -> (division-free numerator, denominator as a factor dict).
    Denominators are kept factored so sums share common factors (degree stays low)."""
    k = t.get_id()
    if k in memo:
        return memo[k]
    if z3.is_rational_value(t):
        r = (t, {})
    elif z3.is_app_of(t, z3.Z3_OP_ADD) or z3.is_app_of(t, z3.Z3_OP_SUB):
        sub = z3.is_app_of(t, z3.Z3_OP_SUB)
        parts = [as_frac2(c, memo) for c in t.children()]
        L = {}
        for _, D in parts:
            L = _flcm(L, D)
        terms = [_fmul(n, _fprod(L, D)) for n, D in parts]
        if sub:
            n = terms[0]
            for x in terms[1:]:
                n = n - x
        else:
            n = z3.Sum(terms) if len(terms) > 1 else terms[0]
        r = (n, L)
    elif z3.is_app_of(t, z3.Z3_OP_UMINUS):
        n, D = as_frac2(t.arg(0), memo)
        r = (-n, D)
    elif z3.is_app_of(t, z3.Z3_OP_MUL):
        n, D = ONE, {}
        for c in t.children():
            n2, D2 = as_frac2(c, memo)
            n = n2 if n.eq(ONE) else (n if n2.eq(ONE) else n * n2)
            D = _fadd(D, D2)
        r = (n, D)
    elif z3.is_app_of(t, z3.Z3_OP_DIV):
        n1, D1 = as_frac2(t.arg(0), memo)
        n2, D2 = as_frac2(t.arg(1), memo)
        c, F2 = _ffactors(n2)
        n = _fmul(n1, _fprod(D2))
        if c != 1:
            n = n * z3.RealVal(1 / c)
        r = (n, _fadd(D1, F2))
    elif z3.is_app_of(t, z3.Z3_OP_ITE):
        c = norm_bool(t.arg(0), memo)
        n1, D1 = as_frac2(t.arg(1), memo)
        n2, D2 = as_frac2(t.arg(2), memo)
        L = _flcm(D1, D2)
        r = (z3.If(c, _fmul(n1, _fprod(L, D1)), _fmul(n2, _fprod(L, D2))), L)
    elif z3.is_app_of(t, z3.Z3_OP_POWER) and z3.is_rational_value(t.arg(1)) and t.arg(1).as_fraction().denominator == 1 and t.arg(1).as_fraction() >= 0:
        n, D = as_frac2(t.arg(0), memo)
        p = int(t.arg(1).as_fraction())
        r = (z3.Product([n] * p) if p > 1 else (n if p == 1 else ONE), {k2: (tt, e * p) for k2, (tt, e) in D.items()} if p >= 1 else {})
    else:
        r = (t, {})
    memo[k] = r
    return r


def as_frac(t, memo=None):
    """(num, den) division-free terms"""
    if memo is None:
        memo = {}
    n, D = as_frac2(t, memo)
    d = _fprod(D)
    return n, (d if d is not None else ONE)


def norm_bool(b, memo=None, dens=None):
    """clear denominators inside a boolean term over reals.  `dens` collects denominator factors
    (the caller asserts them non-zero)."""
    if memo is None:
        memo = {}
    if dens is None:
        dens = memo.setdefault("__dens__", [])
    else:
        memo["__dens__"] = dens
    if z3.is_true(b) or z3.is_false(b):
        return b
    if z3.is_and(b):
        return z3.And([norm_bool(c, memo, dens) for c in b.children()])
    if z3.is_or(b):
        return z3.Or([norm_bool(c, memo, dens) for c in b.children()])
    if z3.is_not(b):
        return z3.Not(norm_bool(b.arg(0), memo, dens))
    if z3.is_app_of(b, z3.Z3_OP_IMPLIES):
        return z3.Implies(norm_bool(b.arg(0), memo, dens), norm_bool(b.arg(1), memo, dens))
    if z3.is_app_of(b, z3.Z3_OP_ITE):
        return z3.If(norm_bool(b.arg(0), memo, dens), norm_bool(b.arg(1), memo, dens), norm_bool(b.arg(2), memo, dens))
    ops = {z3.Z3_OP_EQ: "__eq__", z3.Z3_OP_DISTINCT: "__ne__", z3.Z3_OP_LE: "__le__", z3.Z3_OP_LT: "__lt__",
           z3.Z3_OP_GE: "__ge__", z3.Z3_OP_GT: "__gt__"}
    for op, name in ops.items():
        if z3.is_app_of(b, op) and b.num_args() == 2 and z3.is_real(b.arg(0)):
            n1, D1 = as_frac2(b.arg(0), memo)
            n2, D2 = as_frac2(b.arg(1), memo)
            L = _flcm(D1, D2)
            for k, (t, e) in L.items():
                dens.append(t)
            l = _fmul(n1, _fprod(L, D1))
            r = _fmul(n2, _fprod(L, D2))
            if name not in ("__eq__", "__ne__"):
                # both sides were multiplied by prod(L); make the multiplier a square (> 0)
                odd = {k: (t, 1) for k, (t, e) in L.items() if e % 2 == 1}
                o = _fprod(odd)
                if o is not None:
                    l, r = l * o, r * o
            return getattr(l, name)(r)
    if z3.is_app_of(b, z3.Z3_OP_EQ) and z3.is_bool(b.arg(0)):
        return norm_bool(b.arg(0), memo, dens) == norm_bool(b.arg(1), memo, dens)
    return b


class VCResult:
    __slots__ = ("status", "model", "secs", "claim")

    def __init__(self, status, model, secs, claim=None):
        self.status = status
        self.model = model
        self.secs = secs
        self.claim = claim

    def __repr__(self):
        return "VC(%s, %.3fs)" % (self.status, self.secs)


VC_TIMEOUT_MS = int(os.environ.get("NBSYM_VC_TIMEOUT_MS", "60000"))


def prove(ctx, claim, timeout=None, extra=()):
    """discharge  pc /\\ extra  |=  claim.   returns VCResult(status in unsat|sat|unknown)"""
    if isinstance(claim, SymBool):
        claim = claim.e
    if isinstance(claim, bool):
        claim = z3.BoolVal(claim)
    timeout = timeout or VC_TIMEOUT_MS
    t0 = time.time()
    cache = getattr(ctx, "_vcs", None)
    if cache is None or cache[0] != len(ctx.pc):
        mixed = any(has_int(c) and has_real(c) for c in ctx.pc)
        rs = z3.Tactic("qfnra-nlsat").solver()
        memo = {}
        dens = []
        seen = set()
        for c in ctx.pc:
            if not has_int(c):
                rs.add(norm_bool(c, memo, dens))
        for d in dens:
            if d.get_id() not in seen:
                seen.add(d.get_id())
                rs.add(d != 0)
        cache = (len(ctx.pc), rs, memo, seen, mixed)
        ctx._vcs = cache
    _, rs, memo, seen, mixed = cache
    ex_mixed = any(has_int(c) and has_real(c) for c in extra)
    if has_int(claim) or mixed or ex_mixed or not has_real(claim):
        s = z3.Solver()
        s.set("timeout", timeout)
        for c in list(ctx.pc) + list(extra):
            s.add(c)
        s.add(z3.Not(claim))
        r = s.check()
        model = s.model() if r == z3.sat else None
    else:
        s = rs
        s.set("timeout", timeout)
        s.push()
        dens = []
        memo = {}  # fresh: z3 ast ids may be recycled between calls
        for c in extra:
            if not has_int(c):
                s.add(norm_bool(c, memo, dens))
        s.add(z3.Not(norm_bool(claim, memo, dens)))
        for d in dens:
            if d.get_id() not in seen:
                s.add(d != 0)
        r = s.check()
        model = s.model() if r == z3.sat else None
        s.pop()
    secs = time.time() - t0
    st = "unsat" if r == z3.unsat else ("sat" if r == z3.sat else "unknown")
    return VCResult(st, model, secs, claim)


def prove_eq(ctx, lhs, rhs, timeout=None, extra=()):
    return prove(ctx, real_term(lhs) == real_term(rhs), timeout=timeout, extra=extra)


def model_value(model, var):
    """python Fraction / int / bool for a variable in a model (algebraic numbers approximated)"""
    v = model.eval(var, model_completion=True)
    if z3.is_int_value(v):
        return v.as_long()
    if z3.is_rational_value(v):
        return v.as_fraction()
    if z3.is_algebraic_value(v):
        return v.approx(30).as_fraction()
    if z3.is_true(v):
        return True
    if z3.is_false(v):
        return False
    return str(v)


def model_dict(model):
    out = {}
    if model is None:
        return out
    for d in model.decls():
        if d.arity() == 0:
            out[d.name()] = model_value(model, d())
    return out


def jsonable(x):
    if isinstance(x, Fraction):
        return float(x) if x.denominator != 1 else int(x)
    if isinstance(x, dict):
        return {str(k): jsonable(v) for k, v in x.items()}
    if isinstance(x, (list, tuple)):
        return [jsonable(v) for v in x]
    if isinstance(x, _np.ndarray):
        return jsonable(x.tolist())
    if isinstance(x, (_np.integer,)):
        return int(x)
    if isinstance(x, (_np.floating,)):
        return float(x)
    if isinstance(x, (int, float, str, bool)) or x is None:
        return x
    return str(x)


# ------------------------------------------------------------------ helpers for harnesses


def fresh_real(ctx, name, lo=None, hi=None, lo_strict=True, hi_strict=True):
    v = z3.Real(name)
    if lo is not None:
        ctx.assume(v > lo if lo_strict else v >= lo)
    if hi is not None:
        ctx.assume(v < hi if hi_strict else v <= hi)
    return v


INT_BOUNDS = {}


def fresh_int(ctx, name, lo, hi):
    """lo <= v <= hi"""
    v = z3.Int(name)
    INT_BOUNDS[name] = (lo, hi)
    ctx.assume(z3.And(v >= lo, v <= hi))
    return v


def enum_int(ctx, name, lo, hi, base=16):
    """solver-enumerated integer in [lo, hi], concretised digit by digit: a path costs O(base * digits) branch queries
    instead of O(hi - lo) (concretize_int walks the values one at a time)"""
    span = hi - lo
    digits = []
    k = 0
    place = 1
    while True:
        d = z3.Int("%s__d%d" % (name, k))
        ctx.assume(z3.And(d >= 0, d < base))
        digits.append((d, place))
        place *= base
        k += 1
        if place > span:
            break
    total = z3.Sum([d * pl for d, pl in digits]) if len(digits) > 1 else digits[0][0] * digits[0][1]
    ctx.assume(total <= span)
    v = lo
    for d, pl in reversed(digits):
        v += ctx.concretize_int(d) * pl
    return v


def simplex(ctx, prefix, n, strict=True):
    """n frequencies > 0 (>= 0 when not strict) summing to one; the last is 1 - sum"""
    fs = [z3.Real("%s%d" % (prefix, i)) for i in range(n - 1)]
    if n == 1:
        return [z3.RealVal(1)]
    fs.append(1 - (z3.Sum(fs) if len(fs) > 1 else fs[0]))
    for f in fs:
        ctx.assume(f > 0 if strict else f >= 0)
    return fs


def real_array(terms, log=False):
    out = SArray(len(terms), float)
    for i, t in enumerate(terms):
        v = t if isinstance(t, (SymReal, float, int)) else SymReal(t)
        if log:
            v = NP.log(v)
        _np.ndarray.__setitem__(out, i, v)
    return out


class Profile:
    """records the repository functions entered while active"""

    def __init__(self):
        self.seen = set()
        self.root = repo_root()

    def __enter__(self):
        def prof(frame, event, arg):
            if event == "call":
                co = frame.f_code
                if co.co_filename.startswith(self.root):
                    self.seen.add((os.path.relpath(co.co_filename, self.root), co.co_qualname if hasattr(co, "co_qualname") else co.co_name))

        sys.setprofile(prof)
        return self

    def __exit__(self, *a):
        sys.setprofile(None)

    def names(self):
        return sorted("%s:%s" % (f, n) for f, n in self.seen if n != "<module>")


# ------------------------------------------------------------------ numeric evaluation (validation / replay)


def eval_term(t, env=None):
    """numerically evaluate a z3 term (float) under env: name -> number; LN/EXP/GAM interpreted"""
    env = env or {}
    memo = {}

    def ev(t):
        k = t.get_id()
        if k in memo:
            return memo[k]
        r = _ev(t)
        memo[k] = r
        return r

    def _ev(t):
        if z3.is_int_value(t):
            return t.as_long()
        if z3.is_rational_value(t):
            return float(t.as_fraction())
        if z3.is_true(t):
            return True
        if z3.is_false(t):
            return False
        if t.num_args() == 0:
            name = t.decl().name()
            if name in env:
                return env[name]
            if name in EXPC:
                return EXPC[name]
            if name.startswith("pow!") and name in POWVARS:
                b, T = POWVARS[name]
                return ev(b) ** ev(T)
            raise KeyError(name)
        ch = [ev(c) for c in t.children()]
        kd = t.decl().kind()
        if kd == z3.Z3_OP_ADD:
            return sum(ch)
        if kd == z3.Z3_OP_SUB:
            r = ch[0]
            for c in ch[1:]:
                r -= c
            return r
        if kd == z3.Z3_OP_UMINUS:
            return -ch[0]
        if kd == z3.Z3_OP_MUL:
            r = 1
            for c in ch:
                r *= c
            return r
        if kd == z3.Z3_OP_DIV:
            return ch[0] / ch[1] if ch[1] != 0 else float("nan")
        if kd == z3.Z3_OP_IDIV:
            return ch[0] // ch[1]
        if kd == z3.Z3_OP_MOD:
            return ch[0] % ch[1]
        if kd == z3.Z3_OP_POWER:
            return ch[0] ** ch[1]
        if kd == z3.Z3_OP_TO_REAL:
            return ch[0]
        if kd == z3.Z3_OP_ITE:
            return ch[1] if ch[0] else ch[2]
        if kd == z3.Z3_OP_AND:
            return all(ch)
        if kd == z3.Z3_OP_OR:
            return any(ch)
        if kd == z3.Z3_OP_NOT:
            return not ch[0]
        if kd == z3.Z3_OP_EQ:
            return ch[0] == ch[1]
        if kd == z3.Z3_OP_DISTINCT:
            return ch[0] != ch[1]
        if kd == z3.Z3_OP_LE:
            return ch[0] <= ch[1]
        if kd == z3.Z3_OP_LT:
            return ch[0] < ch[1]
        if kd == z3.Z3_OP_GE:
            return ch[0] >= ch[1]
        if kd == z3.Z3_OP_GT:
            return ch[0] > ch[1]
        name = t.decl().name()
        if name == "Ln":
            return math.log(ch[0]) if ch[0] > 0 else (float("-inf") if ch[0] == 0 else float("nan"))
        if name == "Exp":
            return math.exp(ch[0])
        if name == "Gam":
            return math.gamma(ch[0])
        raise NotImplementedError(str(t.decl()))

    return ev(t)


def to_float(x, env=None):
    """float value of a (concrete or model-evaluated) engine scalar"""
    if isinstance(x, (int, float, _np.integer, _np.floating)):
        return float(x)
    if isinstance(x, Fraction):
        return float(x)
    if isinstance(x, (SymInt, SymBool)):
        return float(eval_term(x.e if isinstance(x, SymInt) else x._asint().e, env))
    x = _toreal(_z(x))
    if x.nan is not None and eval_term(x.nan, env):
        return float("nan")
    if x.lf is not None:
        z = x.lf.zexp()
        if z > 0:
            return float("-inf")
        if z < 0:
            return float("inf")
        tot = 0.0
        for t, k in x.lf.fac.values():
            v = eval_term(t, env)
            if v == 0:
                return float("-inf") if k > 0 else float("inf")
            tot += k * math.log(v)
        for b, k in x.lf.gam.values():
            tot += k * math.lgamma(eval_term(b, env))
        return tot
    return float(eval_term(x.e, env))


def to_float_array(a, env=None):
    a = _np.asarray(a, dtype=object)
    out = _np.empty(a.shape, dtype=float)
    for idx in _np.ndindex(a.shape):
        out[idx] = to_float(a[idx], env)
    return out


# ------------------------------------------------------------------ canonical rational functions

_ATOMS = {}


def _p_const(c):
    return {(): Fraction(c)} if c != 0 else {}


def _p_add(a, b, sign=1):
    r = dict(a)
    for m, c in b.items():
        v = r.get(m, 0) + sign * c
        if v:
            r[m] = v
        else:
            r.pop(m, None)
    return r


def _m_mul(m1, m2):
    d = dict(m1)
    for v, e in m2:
        d[v] = d.get(v, 0) + e
    return tuple(sorted(d.items()))


def _p_mul(a, b):
    r = {}
    for m1, c1 in a.items():
        for m2, c2 in b.items():
            m = _m_mul(m1, m2)
            v = r.get(m, 0) + c1 * c2
            if v:
                r[m] = v
            else:
                r.pop(m, None)
    return r


def _ratfun(t, memo):
    k = t.get_id()
    if k in memo:
        return memo[k]
    one = _p_const(1)
    if z3.is_rational_value(t):
        fr = t.as_fraction()
        r = (_p_const(fr), one)
    elif z3.is_int_value(t):
        r = (_p_const(t.as_long()), one)
    elif z3.is_app_of(t, z3.Z3_OP_ADD) or z3.is_app_of(t, z3.Z3_OP_SUB):
        sign = -1 if z3.is_app_of(t, z3.Z3_OP_SUB) else 1
        n, d = _ratfun(t.arg(0), memo)
        for c in t.children()[1:]:
            n2, d2 = _ratfun(c, memo)
            if d == d2:
                n = _p_add(n, n2, sign)
            else:
                n, d = _p_add(_p_mul(n, d2), _p_mul(n2, d), sign), _p_mul(d, d2)
        r = (n, d)
    elif z3.is_app_of(t, z3.Z3_OP_UMINUS):
        n, d = _ratfun(t.arg(0), memo)
        r = (_p_add({}, n, -1), d)
    elif z3.is_app_of(t, z3.Z3_OP_MUL):
        n, d = one, one
        for c in t.children():
            n2, d2 = _ratfun(c, memo)
            n, d = _p_mul(n, n2), _p_mul(d, d2)
        r = (n, d)
    elif z3.is_app_of(t, z3.Z3_OP_DIV):
        n1, d1 = _ratfun(t.arg(0), memo)
        n2, d2 = _ratfun(t.arg(1), memo)
        r = (_p_mul(n1, d2), _p_mul(d1, n2))
    elif z3.is_app_of(t, z3.Z3_OP_TO_REAL) and z3.is_int_value(t.arg(0)):
        r = (_p_const(t.arg(0).as_long()), one)
    else:
        _ATOMS[k] = t
        r = ({((k, 1),): Fraction(1)}, one)
    memo[k] = r
    return r


def _p_term(p):
    if not p:
        return z3.RealVal(0)
    parts = []
    for m in sorted(p):
        c = p[m]
        fs = []
        for v, e in m:
            fs.extend([_ATOMS[v]] * e)
        if not fs:
            parts.append(z3.RealVal(c))
        else:
            prod = z3.Product(fs) if len(fs) > 1 else fs[0]
            parts.append(prod if c == 1 else z3.RealVal(c) * prod)
    return z3.Sum(parts) if len(parts) > 1 else parts[0]


def canon(t):
    """canonical z3 term of a rational function (monomial content cancelled, denominator monic)"""
    n, d = _ratfun(z3.simplify(t), {})
    if not n:
        return z3.RealVal(0)
    # cancel common monomial
    monos = list(n) + list(d)
    common = dict(monos[0])
    for m in monos[1:]:
        dm = dict(m)
        common = {v: min(e, dm.get(v, 0)) for v, e in common.items() if dm.get(v, 0) > 0}
    if common:
        def strip(p):
            out = {}
            for m, c in p.items():
                dm = dict(m)
                for v, e in common.items():
                    dm[v] -= e
                    if dm[v] == 0:
                        del dm[v]
                out[tuple(sorted(dm.items()))] = c
            return out

        n, d = strip(n), strip(d)
    lead = d[sorted(d)[0]]
    n = {m: c / lead for m, c in n.items()}
    d = {m: c / lead for m, c in d.items()}
    if d == {(): Fraction(1)}:
        return _p_term(n)
    # proportional polynomials -> constant
    if set(n) == set(d):
        ratios = {n[m] / d[m] for m in n}
        if len(ratios) == 1:
            return z3.RealVal(ratios.pop())
    return _p_term(n) / _p_term(d)
