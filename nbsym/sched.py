"""Cooperative scheduler + contract stubs for multiprocessing.Pool / Manager().Queue() / stdout.

Every simulated OS process is a Python thread that runs only while it holds the baton.  At every *visible* operation
(queue put/get, a chunk written to stdout, AsyncResult.get/wait, Pool.join, the start of a pool task) the process hands the
baton back to the central scheduler together with a guard ("may I proceed?").  The scheduler then asks `choose(n, labels)`
which of the n runnable processes moves next.  The checks pass a `choose` that draws a fresh bounded solver integer and
concretises it through the engine, so the decision-replay DFS enumerates *every* interleaving inside the bound, and the
schedule of a failing path is a solver model that can be replayed.

Contract modelled (documented behaviour of the standard library, nothing else):
* Pool(n): at most n tasks execute at once, tasks start in submission order; apply_async returns at once;
  AsyncResult.get() blocks until the task finished and re-raises its exception; wait() blocks and never raises;
  close() forbids new tasks; join() blocks until every submitted task finished; pool processes are daemonic: when the
  main process ends (normally or by an exception) they are killed wherever they are.
* Manager().Queue(): unbounded FIFO; get() blocks while empty; put() never blocks.
* stdout: a write of a string reaches the terminal in (up to) two chunks, and chunks of different processes may
  interleave -- one process writing whole lines is the only way to keep lines intact.
Outside: pickling of the task arguments, start-up failures of processes, signals.

Partial-order reduction (prunes equivalent schedules only; every explored schedule is a real one, so it cannot create an
alarm): steps that commute with every step of every other process are executed eagerly instead of being offered to the
scheduler -- the start of a pool task while the pool has a free process for every waiting task, AsyncResult.get/wait and
Pool.join once enabled (they only read the finished state of a task), and stdout writes while the program has a single
writing process: the harness first explores with atomic writes and records which processes write after the first child
was created; only if two or more do (never the case for the unchanged driver) it explores again with every such write
chunked and scheduled (Sim(chunk_writes=True)).  Queue operations are always scheduled.
"""
import threading


class _Kill(BaseException):
    pass


class Deadlock(Exception):
    pass


class Proc:
    def __init__(self, sim, name, fn, guard=None):
        self.sim, self.name, self.fn = sim, name, fn
        self.guard = guard
        self.desc = "start " + name
        self.eager = None  # callable -> bool: the pending step commutes with everything else
        self.go = threading.Semaphore(0)
        self.done = False
        self.started = False
        self.exc = None
        self.result = None
        self.on_start = None
        self.on_finish = None
        self.thread = threading.Thread(target=self._run, daemon=True)
        self.thread.start()

    def _run(self):
        self.go.acquire()
        try:
            if self.sim.killing:
                return
            self.started = True
            if self.on_start:
                self.on_start()
            try:
                self.result = self.fn()
            except _Kill:
                pass
            except BaseException as e:  # noqa -- the task's exception is data (AsyncResult.get re-raises it)
                self.exc = e
        finally:
            self.done = True
            if self.on_finish and self.started:
                self.on_finish()
            self.sim.back.release()


class Sim:
    cur = None  # the simulation the calling thread belongs to

    def __init__(self, choose, max_steps=2000, chunk_writes=False):
        self.choose = choose
        self.chunk_writes = chunk_writes
        self.procs = []
        self.back = threading.Semaphore(0)
        self.current = None
        self.killing = False
        self.deadlock = None
        self.schedule = []
        self.steps = 0
        self.max_steps = max_steps
        self.stdout = []  # (process name, chunk)
        self.writers = set()  # processes that wrote to stdout after the first child process was created

    def spawn(self, name, fn, guard=None):
        p = Proc(self, name, fn, guard)
        self.procs.append(p)
        return p

    def yield_(self, guard, desc, eager=None):
        """called by the running process: give the baton back; resume when scheduled and guard() holds"""
        p = self.current
        p.guard, p.desc, p.eager = guard, desc, eager
        self.back.release()
        p.go.acquire()
        if self.killing:
            raise _Kill()

    def run(self, main_fn):
        """returns the main process (done, .exc/.result set) -- or sets self.deadlock when nothing can move"""
        Sim.cur = self
        main = self.spawn("main", main_fn)
        try:
            while not main.done:
                runnable = [p for p in self.procs if not p.done and (p.guard is None or p.guard())]
                if not runnable:
                    self.deadlock = [(p.name, p.desc) for p in self.procs if not p.done]
                    break
                self.steps += 1
                if self.steps > self.max_steps:
                    self.deadlock = [("scheduler", "step budget exhausted (livelock?)")]
                    break
                eager = [p for p in runnable if p.eager is not None and p.eager()]
                if eager:
                    p = eager[0]
                else:
                    i = self.choose(len(runnable), ["%s:%s" % (p.name, p.desc) for p in runnable]) if len(runnable) > 1 else 0
                    p = runnable[i]
                self.schedule.append("%s:%s" % (p.name, p.desc))
                self.current = p
                p.guard = p.eager = None
                p.go.release()
                self.back.acquire()
        finally:
            # the main process is gone (or nothing can move): every other process is killed where it stands
            self.killing = True
            for p in self.procs:
                if not p.done:
                    p.go.release()
            for p in self.procs:
                p.thread.join(5)
            Sim.cur = None
        return main


# ------------------------------------------------------------------ stubs handed to the code under test


class SimQueue:
    def __init__(self, sim):
        self.sim, self.items = sim, []

    def put(self, x, *a, **k):
        self.sim.yield_(None, "queue.put")
        self.items.append(x)

    put_nowait = put

    def get(self, *a, **k):
        self.sim.yield_(lambda: len(self.items) > 0, "queue.get")
        return self.items.pop(0)

    def empty(self):
        return not self.items

    def qsize(self):
        return len(self.items)


class SimAsyncResult:
    def __init__(self, sim, proc):
        self.sim, self.proc = sim, proc

    def wait(self, timeout=None):
        self.sim.yield_(lambda: self.proc.done, "result.wait(%s)" % self.proc.name, eager=lambda: True)

    def get(self, timeout=None):
        self.sim.yield_(lambda: self.proc.done, "result.get(%s)" % self.proc.name, eager=lambda: True)
        if self.proc.exc is not None:
            raise self.proc.exc
        return self.proc.result

    def ready(self):
        return self.proc.done

    def successful(self):
        return self.proc.done and self.proc.exc is None


class SimPool:
    def __init__(self, sim, processes=None, *a, **k):
        self.sim = sim
        self.n = int(processes) if processes else 4
        self.busy = 0
        self.tasks = []
        self.closed = False

    def _submit(self, fn, args, kwds, name):
        if self.closed:
            raise ValueError("Pool not running")
        k = len(self.tasks)
        prev = list(self.tasks)

        def guard():
            return self.busy < self.n and all(t.started or t.done for t in prev)

        p = self.sim.spawn("task%d" % k if name is None else name, lambda: fn(*args, **(kwds or {})), guard)
        # starting commutes with everything unless tasks compete for the pool's processes
        p.eager = lambda: sum(1 for t in self.tasks if not t.started and not t.done) <= self.n - self.busy

        def on_start():
            self.busy += 1

        def on_finish():
            self.busy -= 1

        p.on_start, p.on_finish = on_start, on_finish
        self.tasks.append(p)
        return SimAsyncResult(self.sim, p)

    def apply_async(self, func, args=(), kwds=None, callback=None, error_callback=None):
        return self._submit(func, tuple(args), kwds, None)

    def apply(self, func, args=(), kwds=None):
        return self.apply_async(func, args, kwds).get()

    def map(self, func, iterable, chunksize=None):
        rs = [self.apply_async(func, (x,)) for x in iterable]
        return [r.get() for r in rs]

    def imap(self, func, iterable, chunksize=1):
        rs = [self.apply_async(func, (x,)) for x in iterable]
        for r in rs:
            yield r.get()

    imap_unordered = imap

    def starmap(self, func, iterable, chunksize=None):
        rs = [self.apply_async(func, tuple(x)) for x in iterable]
        return [r.get() for r in rs]

    def close(self):
        self.closed = True

    def terminate(self):
        self.closed = True
        for t in self.tasks:
            if not t.done and not t.started:
                t.guard = lambda: False

    def join(self):
        self.sim.yield_(lambda: all(t.done for t in self.tasks), "pool.join", eager=lambda: True)

    def __enter__(self):
        return self

    def __exit__(self, *a):
        self.terminate()


class SimStdout:
    def __init__(self, sim):
        self.sim = sim

    def write(self, s):
        s = str(s)
        sim = self.sim
        me = sim.current.name
        if len(sim.procs) > 1:
            sim.writers.add(me)
        if not sim.chunk_writes or len(sim.procs) <= 1:  # a single writing process: its writes cannot be torn by anybody
            if s:
                sim.stdout.append((me, s))
            return len(s)
        h = len(s) // 2
        for chunk in (s[:h], s[h:]):
            if chunk:
                sim.yield_(None, "stdout.write")
                sim.stdout.append((me, chunk))
        return len(s)

    def flush(self):
        pass


def mp_module(sim):
    """a stand-in for the `multiprocessing` module bound to one simulation"""
    import types

    m = types.ModuleType("multiprocessing(sim)")

    class _Manager:
        def Queue(self, *a, **k):
            return SimQueue(sim)

        def __enter__(self):
            return self

        def __exit__(self, *a):
            return False

        def shutdown(self):
            pass

    m.Manager = lambda *a, **k: _Manager()
    m.Queue = lambda *a, **k: SimQueue(sim)
    m.Pool = lambda processes=None, *a, **k: SimPool(sim, processes)
    m.cpu_count = lambda: 4
    m.get_context = lambda *a, **k: m
    return m
