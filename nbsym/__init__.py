"""nbsym -- a small symbolic executor (z3) for the numba-subset Python of MCHap.

See /verif/DESIGN.md section 1.  The repository's own source is loaded from
disk on every run (nbsym.engine.load), executed with symbolic scalars and a
numpy facade, and obligations are discharged by z3 (nlsat for reals).
"""
