"""Check runner: configurations -> worker pool -> obligations -> replay -> evidence.

A check module (checks/cNN.py) defines

    ID, TITLE, ENCODED (list of repo functions), STUBS, ASSUMES, BOUNDS = {"quick": .., "thorough": ..}
    configs(tier)            -> list of JSON-able dicts
    run_config(cfg, col)     -> None   (symbolic run; reports through the Collector `col`)
    replay(violation)        -> (reproduced: bool, info: str)    # on the REAL code
    validate(seed)           -> int    # translator validation: engine vs real code on concrete inputs

Exit codes: 0 held (KNOWN-FINDING lines allowed); 1 reproduced unlisted violation;
3 inconclusive / harness error (never reported as success).
"""
import importlib
import json
import multiprocessing as mp
import os
import sys
import time
import traceback

VERIF = os.path.dirname(os.path.dirname(os.path.abspath(__file__)))


MAX_BAD_PER_KIND = int(os.environ.get("VERIF_MAX_BAD_PER_KIND", "3"))


class Collector:
    """collects obligations for one configuration"""

    def __init__(self, cfg):
        self.cfg = cfg
        self.paths = 0
        self.obligations = 0
        self.discharged = 0
        self.violations = []
        self.inconclusive = []
        self.vc_s = 0.0
        self.samples = []
        self.reach = 0
        self.reach_checked = 0
        self.nontrivial = set()
        self.functions = set()
        self._bad = {}
        self.skipped = 0

    # -- obligations
    def check(self, ctx, claim, site, kind, shape=None, witness=None, desc=None, timeout=None, extra=()):
        from . import engine as E

        # on a broken tree the same obligation family fails over and over (and sat/unknown answers are the slow
        # ones): after a few failures of one (site, kind) in this configuration the rest are skipped, not counted
        key = (site, kind)
        if self._bad.get(key, 0) >= MAX_BAD_PER_KIND:
            self.skipped += 1
            return False
        self.obligations += 1
        r = E.prove(ctx, claim, timeout=timeout, extra=extra)
        self.vc_s += r.secs
        if len(self.samples) < 2 and desc is not None:
            self.samples.append({"obligation": desc, "claim": str(r.claim)[:400], "verdict": r.status, "config": self.cfg})
        if desc is not None:
            self.nontrivial.add(str(desc)[:200])
        if r.status == "unsat":
            self.discharged += 1
            return True
        md = E.model_dict(r.model)
        try:
            # a purely real obligation is refuted by the real-arithmetic solver, whose model does not mention the integer choices
            # of the path (which genotype, which permutation ...): complete it from the path's integer solver
            import z3 as _z3

            if ctx.isolver.check() == _z3.sat:
                for k_, v_ in E.model_dict(ctx.isolver.model()).items():
                    md.setdefault(k_, v_)
        except BaseException:
            pass
        rec = dict(site=site, kind=kind, shape=shape or {}, config=self.cfg, desc=desc,
                   witness=E.jsonable(witness) if witness is not None else None,
                   model=E.jsonable(md), claim=str(r.claim)[:600])
        self._bad[key] = self._bad.get(key, 0) + 1
        if r.status == "sat":
            self.violations.append(rec)
        else:
            self.inconclusive.append(rec)
        return False

    def fail(self, site, kind, shape=None, witness=None, desc=None, model=None):
        """a violation established without a final solver query (e.g. an exception on a feasible path:
        the path condition itself was solver-checked)"""
        from . import engine as E

        if kind == "exception" and E.LAST_CTX is not None:
            # a signature-mismatch TypeError raised by a call the HARNESS makes is not a verdict on the code
            exc_txt = str((witness or {}).get("exc", "")) if isinstance(witness, dict) else ""
            origin = getattr(E.LAST_CTX, "exc_origin", None)
            in_harness = bool(origin) and os.path.abspath(origin).startswith(os.path.dirname(os.path.dirname(os.path.abspath(__file__))) + os.sep)
            sig = "TypeError" in exc_txt and any(t in exc_txt for t in E._SIG_MISMATCH)
            # ... and so is an AttributeError / KeyError raised by the harness's OWN line (it looked up a field / parameter by a name the
            # code no longer uses); exceptions raised inside the code under test are untouched by this rule
            lookup = exc_txt.startswith(("AttributeError(", "KeyError("))
            if in_harness and (sig or lookup):
                self.note_inconclusive("harness/interface mismatch (the harness addresses the code by a signature / attribute / key it no longer has): %s" % exc_txt[:200])
                return
        self.obligations += 1
        if not model and E.LAST_CTX is not None:
            # a concrete point on the failing path, so that the replay runs the same path
            try:
                model = E.model_dict(E.prove(E.LAST_CTX, False, timeout=10000).model)
            except BaseException:
                model = {}
        self.violations.append(dict(site=site, kind=kind, shape=shape or {}, config=self.cfg, desc=desc,
                                    witness=E.jsonable(witness), model=E.jsonable(model or {}), claim=None))

    def ok(self, desc=None):
        """an obligation decided on the path itself (all branch conditions solver-checked)"""
        self.obligations += 1
        self.discharged += 1
        if desc is not None:
            self.nontrivial.add(str(desc)[:200])
            if len(self.samples) < 2:
                self.samples.append({"obligation": desc, "verdict": "unsat (decided by path condition)", "config": self.cfg})

    def note_inconclusive(self, why):
        self.inconclusive.append(dict(site="engine", kind="inconclusive", desc=str(why)[:400], config=self.cfg))

    def reachable(self, ctx):
        """reachability twin: the same path with claim False must be sat"""
        from . import engine as E

        self.reach_checked += 1
        r = E.prove(ctx, False, timeout=20000)
        if r.status == "sat":
            self.reach += 1
        return r.status == "sat"

    def path(self, n=1):
        self.paths += n

    def result(self, stats=None, secs=0.0):
        return dict(cfg=self.cfg, paths=self.paths, obligations=self.obligations, discharged=self.discharged,
                    violations=self.violations, inconclusive=self.inconclusive, vc_s=self.vc_s,
                    samples=self.samples, reach=self.reach, reach_checked=self.reach_checked,
                    nontrivial=sorted(self.nontrivial)[:50], n_nontrivial=len(self.nontrivial),
                    functions=sorted(self.functions),
                    branch_queries=stats.nsolver if stats else 0, branch_s=stats.tsolver if stats else 0.0,
                    secs=secs)


def _worker(args):
    modname, cfg = args
    t0 = time.time()
    from . import engine as E

    try:
        mod = importlib.import_module(modname)
        col = Collector(cfg)
        stats = E.Stats()
        col.stats = stats
        try:
            mod.run_config(cfg, col)
        except E.Inconclusive as e:
            col.note_inconclusive("Inconclusive: %s" % (e,))
        res = col.result(stats, time.time() - t0)
        res["paths"] = max(res["paths"], 0)
        res["sources"] = dict(E.loaded_sources)
        return res
    except BaseException:
        return dict(cfg=cfg, error=traceback.format_exc(), secs=time.time() - t0)


def _sig(v):
    return "%s|%s|%s" % (v["site"], v["kind"], json.dumps(v.get("shape") or {}, sort_keys=True))


def load_known(pid):
    p = os.path.join(VERIF, "known_findings.json")
    if not os.path.exists(p):
        return []
    data = json.load(open(p))
    return [f for f in data.get("findings", []) if f.get("property") == pid and f.get("status", "known") == "known"]


def match_known(v, known):
    for k in known:
        if k["site"] != v["site"] or k["kind"] != v["kind"]:
            continue
        want = k.get("shape") or {}
        shape = v.get("shape") or {}
        if all(shape.get(a) == b for a, b in want.items()):
            return k
    return None


def main(modname, argv=None):
    argv = sys.argv[1:] if argv is None else argv
    if os.environ.get("MCHAP_REPO"):  # development: analyse and replay against a scratch worktree
        sys.path.insert(0, os.environ["MCHAP_REPO"])
    mod = importlib.import_module(modname)
    pid = mod.ID
    if argv and argv[0] == "--replay":
        rec = json.load(open(argv[1]))
        ok, info = mod.replay(rec)
        print("replay of %s: %s -- %s" % (argv[1], "REPRODUCED" if ok else "not reproduced", info))
        return 1 if ok else 0
    tier = argv[0] if argv else os.environ.get("VERIF_TIER", "quick")
    seed = int(os.environ.get("VERIF_SEED", "0"))
    nproc = int(os.environ.get("VERIF_JOBS", str(min(16, os.cpu_count() or 1))))
    t0 = time.time()
    harness_errors = []

    # translator validation (engine vs real code on concrete inputs)
    validated = 0
    try:
        validated = int(mod.validate(seed)) if hasattr(mod, "validate") else 0
    except BaseException:
        harness_errors.append("translator validation failed:\n" + traceback.format_exc())

    cfgs = list(mod.configs(tier))
    import random

    rnd = random.Random(seed)
    order = list(range(len(cfgs)))
    rnd.shuffle(order)
    # heavy first when the check provides weights
    if hasattr(mod, "weight"):
        order.sort(key=lambda i: -mod.weight(cfgs[i]))
    results = []
    if nproc > 1 and len(cfgs) > 1:
        ctxm = mp.get_context("fork")
        with ctxm.Pool(nproc, maxtasksperchild=int(getattr(mod, "TASKS_PER_CHILD", 20))) as pool:
            for r in pool.imap_unordered(_worker, [(modname, cfgs[i]) for i in order], chunksize=1):
                results.append(r)
    else:
        for i in order:
            results.append(_worker((modname, cfgs[i])))

    tot = dict(paths=0, obligations=0, discharged=0, vc_s=0.0, branch_queries=0, branch_s=0.0, reach=0,
               reach_checked=0, n_nontrivial=0)
    violations, inconclusive, samples, functions, sources = [], [], [], set(), {}
    nontrivial = set()
    for r in results:
        if "error" in r:
            harness_errors.append("config %s:\n%s" % (json.dumps(r["cfg"]), r["error"]))
            continue
        for k in ("paths", "obligations", "discharged", "vc_s", "branch_queries", "branch_s", "reach", "reach_checked"):
            tot[k] += r[k]
        violations += r["violations"]
        inconclusive += r["inconclusive"]
        samples += r["samples"][:2]
        functions |= set(r["functions"])
        sources.update(r.get("sources", {}))
        nontrivial |= set(r["nontrivial"])
        tot["n_nontrivial"] += r["n_nontrivial"]

    # evidence samples: one per kind of configuration first (group / kind / step / program / loop ...), at most 10
    def _skey(smp):
        c_ = smp.get("config") or {}
        return tuple(str(c_.get(k)) for k in ("group", "kind", "step", "prog", "cls", "loop", "which"))

    seen_k, picked, rest = set(), [], []
    for smp in samples:
        (picked if _skey(smp) not in seen_k else rest).append(smp)
        seen_k.add(_skey(smp))
    samples = (picked + rest)[:10]

    # vacuity guard
    if not harness_errors and (tot["paths"] == 0 or tot["obligations"] == 0):
        harness_errors.append("vacuous run: paths=%d obligations=%d" % (tot["paths"], tot["obligations"]))
    if not harness_errors and tot["reach_checked"] and tot["reach"] == 0:
        harness_errors.append("reachability twin never satisfiable: harness assumptions are vacuous")

    # group, replay, known findings
    known = load_known(pid)
    groups = {}
    for v in violations:
        groups.setdefault(_sig(v), []).append(v)
    out_lines = []
    n_new = 0
    n_known = 0
    not_reproduced = []
    replay_dir = os.environ.get("VERIF_REPLAY_DIR") or os.path.join(VERIF, "replays")
    max_replays = int(getattr(mod, "MAX_REPLAYS_PER_SIG", 3))
    for sig, vs in sorted(groups.items()):
        k = match_known(vs[0], known)
        reproduced = None
        info = ""
        for v in vs[:max_replays]:
            try:
                ok, info = mod.replay(v)
            except BaseException:
                ok, info = False, "replay crashed: " + traceback.format_exc()[-800:]
            if ok:
                reproduced = v
                break
            # the abstraction x^T -> fresh variable can give models whose base values do not exhibit the
            # failure; the solver verdict says the identity is not valid, so look for a genuine point nearby
            if hasattr(mod, "alt_models"):
                for m2 in mod.alt_models(v, rnd):
                    v2 = dict(v, model=m2)
                    try:
                        ok, info2 = mod.replay(v2)
                    except BaseException:
                        ok, info2 = False, "replay crashed"
                    if ok:
                        reproduced, info = v2, info2 + " [witness refined from the solver model]"
                        break
                if reproduced is not None:
                    break
        if reproduced is None:
            not_reproduced.append((sig, info, vs[0]))
            continue
        if k is not None:
            n_known += 1
            out_lines.append("KNOWN-FINDING: property=%s %s [%s] (%d symbolic witnesses; replayed: %s)" % (
                pid, k.get("what", sig), sig, len(vs), info[:200]))
            continue
        n_new += 1
        os.makedirs(replay_dir, exist_ok=True)
        import hashlib

        path = os.path.join(replay_dir, "%s-%s.json" % (pid, hashlib.sha1(sig.encode()).hexdigest()[:10]))
        rec = dict(reproduced)
        rec["replay_info"] = info
        rec["property"] = pid
        rec["how_to_replay"] = "cd /verif && ./run_check %s --replay %s" % (pid, path)
        json.dump(rec, open(path, "w"), indent=1, default=str)
        out_lines.append("VIOLATION property=%s replay=%s" % (pid, path))
        out_lines.append("  site=%s kind=%s shape=%s :: %s" % (reproduced["site"], reproduced["kind"],
                                                            json.dumps(reproduced.get("shape")), info[:300]))
    for sig, info, v in not_reproduced:
        harness_errors.append("symbolic counterexample did not reproduce on the real code (encoding/stub error?): %s :: %s\n  config=%s\n  model=%s" % (
            sig, info[:500], json.dumps(v.get("config")), json.dumps(v.get("model"))[:600]))
    for v in inconclusive[:10]:
        harness_errors.append("inconclusive obligation: %s|%s %s cfg=%s" % (v.get("site"), v.get("kind"), v.get("desc"), json.dumps(v.get("config"))))

    wall = time.time() - t0
    ev = dict(
        property_id=pid, tier=tier, seed=seed, level="model_checking",
        coverage=dict(
            states=tot["paths"], transitions=tot["obligations"],
            traces_validated_against_impl=validated,
            samples=samples or [{"note": "no sample recorded"}],
            obligations=tot["obligations"], discharged=tot["discharged"],
            evaluations=tot["obligations"], distinct_nontrivial=len(nontrivial) if len(nontrivial) < 50 * max(1, len(results)) else tot["n_nontrivial"],
            rule="one evaluation = one solver-discharged obligation (pc /\\ not claim unsat) on one symbolic path of one "
                 "configuration; states = symbolic paths (each covers all real-valued inputs of its configuration); "
                 "distinct = distinct obligation descriptions",
            configurations=len(cfgs), exhaustive=False,
            sat=len(violations), inconclusive=len(inconclusive),
            branch_queries=tot["branch_queries"], solver_s=round(tot["vc_s"] + tot["branch_s"], 2),
            reachability_twin=dict(checked=tot["reach_checked"], satisfiable=tot["reach"]),
            functions_encoded=sorted(functions)[:200] or list(getattr(mod, "ENCODED", [])),
            sources={k: v[1] for k, v in sorted(sources.items())},
            bounds=getattr(mod, "BOUNDS", {}).get(tier, ""),
            stubs=list(getattr(mod, "STUBS", [])),
            known_findings_matched=n_known, new_violations=n_new,
            slowest_configs=[dict(config=r["cfg"], secs=round(r.get("secs", 0.0), 1)) for r in sorted(results, key=lambda r: -r.get("secs", 0.0))[:5]],
            cpu_s=round(sum(r.get("secs", 0.0) for r in results), 1), workers=nproc,
            solver="z3 %s (qfnra-nlsat for real obligations, default solver for integer path conditions)" % _z3v(),
            explanation=getattr(mod, "TITLE", ""),
        ),
        assumptions=list(getattr(mod, "ASSUMES", [])) + [
            "float64 modelled as real numbers; numba-compiled code follows the Python semantics of its source",
            "AST rewrites: '/' exact for int/int, float literals exact decimals (ln n literals as ln n)",
        ],
        wall_s=round(wall, 2), violations=n_new,
    )
    evdir = os.environ.get("VERIF_EVIDENCE_DIR") or os.path.join(VERIF, "evidence")  # dev runs on mutants write elsewhere
    os.makedirs(evdir, exist_ok=True)
    with open(os.path.join(evdir, "%s.json" % pid), "w") as f:
        json.dump(ev, f, indent=1, default=str)
    print("%s %s: configs=%d paths=%d obligations=%d discharged=%d sat=%d inconclusive=%d validated=%d wall=%.1fs solver=%.1fs" % (
        pid, tier, len(cfgs), tot["paths"], tot["obligations"], tot["discharged"], len(violations), len(inconclusive),
        validated, wall, tot["vc_s"] + tot["branch_s"]))
    for line in out_lines:
        print(line)
    for h in harness_errors[:20]:
        print("HARNESS-ERROR: " + h, file=sys.stderr)
    if n_new:
        return 1
    if harness_errors:
        return 3
    return 0


def _z3v():
    import z3

    return z3.get_version_string()
