"""C06 -- read extraction: the matrix fed to inference is exactly the filtered pileup (pysam behind contract stubs)."""
import itertools
import os

import numpy as rnp
import z3

from nbsym import engine as E

ID = "C06"
TITLE = "extract_read_variants keeps exactly the alignments of the sample's read groups that pass MAPQ / duplicate / QC-fail / supplementary filters, one row per read name with mates merged; cells are the aligned bases; reference mismatches always raise; DP/RCOUNT/RCALLS/SNVDP are the corresponding counts"
TECHNIQUE = 'symbolic execution of extract_read_variants against pysam contract stubs; expected matrix as a z3 fold over all alignment variables; witnesses replayed on synthetic BAMs through real pysam'
ENCODED = ["mchap.io.bam.encode_read_distributions", "mchap.encoding.integer.transcode.as_probabilistic", "mchap.io.loci.Locus.set_sequence", "mchap.io.loci.Locus.set_variants", "mchap.io.loci._merge_snps", "mchap.io.loci.Locus.validate_reference_alleles",
           "mchap.io.bam.extract_read_variants", "mchap.io.bam.encode_read_alleles", "mchap.io.bam.encode_read_distributions",
           "mchap.application.baseclass.program.encode_sample_reads", "mchap.application.arguments.collect_default_program_arguments", "mchap.application.assemble.program.cli",
           "mchap.application.call.program.cli", "mchap.application.call_exact.program.cli", "mchap.application.call_pedigree.program.cli", "mchap.encoding.character.transcode.as_allelic", "mchap.encoding.character.sequence.depth",
           "mchap.encoding.integer.transcode.as_probabilistic", "mchap.mset.unique_counts"]
STUBS = ["pysam.AlignmentFile / AlignedSegment -> contract stubs: header['RG'] list, fetch() yields k alignments whose flags, MAPQ, read group, read name, per-site 'aligned?' and base are symbolic; get_aligned_pairs(matches_only=True, with_seq=True) yields one (read_pos, ref_pos, ref_base) per aligned site",
         "everything inside pysam/htslib (BAM/CRAM decoding, CIGAR -> aligned pairs, fetch overlap, clipping) is outside the claim"]
ASSUMES = ["the expected matrix is a z3 term over ALL read variables (fold over alignments in file order); the obligation is pc => expected == observed, so attributes the code never looked at are universally quantified",
           "bases range over {REF, ALT, N}; read names over 2 values; 3 read groups (two for sample A, one for sample B)"]
BOUNDS = {"quick": "read probabilities: every call pattern of 2 reads x 2 SNVs (2 and 3 alleles) with a symbolic error rate; SNV file vs FASTA: 2 records (thorough 3) at 2 positions, possibly sharing one, and 3 records at one position (a tri-allelic site split per ALT), REF in {A,C}, any ALT, FASTA bases in {A,C}, sequence-first and variants-first; 2 alignments x 1 SNV, read groups {rg0->A, rg2->B}, bases {REF, ALT} (thorough: 3 read groups, bases {REF, ALT, N}), four combinations of the keep flags (thorough: all eight), MAPQ and threshold symbolic in 0..2, id field SM and ID, either sample; pool of two samples; reference mismatch injected at any aligned site; command line -> extract_read_variants / encode_read_distributions for assemble, call, call-exact, call-pedigree: 64 option settings each (3 keep flags x 4 mapping qualities incl. 0 x {defaults, read-group field ID + explicit error rate + phred scores}) on the repository's test files, arguments bound through the callees' own signatures",
          "thorough": "2 alignments x 1 SNV on the wide domain (3 read groups, bases {REF, ALT, N}; all eight keep-flag settings for one sample, the default setting for each other sample / read-group id, reference mismatch injected) and 3 alignments x 1 SNV on the small domain for one sample (keep flags all on / all off, mismatch); SNV file vs FASTA with 3 records; shared-file layouts on the wide domain; 2 alignments x 2 SNVs was sized at > 25 CPU-minutes per configuration and is outside the tier"}
OUTSIDE = "htslib decoding, CIGAR handling, fetch overlap semantics, CRAM reference lookup (pysam); phred-based probabilities (float)"
TASKS_PER_CHILD = 2
RGS = [dict(ID="rg0", SM="A"), dict(ID="rg1", SM="A"), dict(ID="rg2", SM="B")]
BASES = "ACN"
GAP, NCODE = -1, 2


def configs(tier):
    out = []
    if tier == "quick":
        for idf, want in (("SM", "A"), ("ID", "rg2")):
            for skips in ((True, True, True), (False, True, True), (True, False, True), (True, True, False)):
                out.append(dict(group="extract", k=2, ns=1, idf=idf, want=want, mismatch=False, skips=list(skips), small=True))
            out.append(dict(group="extract", k=2, ns=1, idf=idf, want=want, mismatch=True, skips=[True, True, True], small=True))
        out.append(dict(group="encode", k=2, ns=1, small=True))
        out.append(dict(group="encode", k=2, ns=1, small=True, layout="two"))
        out.append(dict(group="locus-ref", n_rec=2))
        out.append(dict(group="locus-ref", n_rec=3, same_pos=True))
        out.append(dict(group="dists"))
        for prog in CLI_PROGS:
            out.append(dict(group="cli-options", prog=prog))
        return out
    # sized on this sandbox: 2 alignments x 2 SNVs costs > 25 CPU-minutes per configuration (x 36) and is left out; the wider domains
    # (3 read groups, bases {REF, ALT, N}) are explored at one SNV, three alignments on the small domain
    for k, ns, small in [(2, 1, False), (3, 1, True)]:
        for idf in ("SM", "ID"):
            for want in (("A", "B") if idf == "SM" else ("rg0", "rg2")):
                full = (k == 2 and idf == "SM" and want == "A")  # all eight keep-flag settings once; elsewhere the default setting
                if k == 3 and not (idf == "SM" and want == "A"):
                    continue  # three alignments are ~5x the cost of two: one sample / id field
                for skips in (itertools.product((False, True), repeat=3) if full else ([(True, True, True), (False, False, False)] if k == 3 else [(True, True, True)])):
                    out.append(dict(group="extract", k=k, ns=ns, idf=idf, want=want, mismatch=False, skips=list(skips), small=small))
                out.append(dict(group="extract", k=k, ns=ns, idf=idf, want=want, mismatch=True, skips=[True, True, True], small=small))
    out.append(dict(group="encode", k=2, ns=1, small=False))
    out.append(dict(group="encode", k=2, ns=1, small=False, layout="two"))
    out.append(dict(group="locus-ref", n_rec=2))
    out.append(dict(group="locus-ref", n_rec=3))
    out.append(dict(group="dists"))
    for prog in CLI_PROGS:
        out.append(dict(group="cli-options", prog=prog))
    return out


# ------------------------------------------------------------------ command line -> program -> extract_read_variants
CLI_PROGS = {"assemble": "mchap.application.assemble", "call": "mchap.application.call", "call-exact": "mchap.application.call_exact",
             "call-pedigree": "mchap.application.call_pedigree"}
CLI_MQ = [None, 0, 7, 33]


def _cli_drive(load, progname, choice):
    """program.cli(<command line>) on the repository's own test files, then encode_sample_reads of the first locus with
    extract_read_variants / encode_read_distributions replaced by recorders bound through their REAL signatures.  The option
    settings are drawn through `choice` (solver / witness).  Returns (expected, extract calls, distribution calls, command)."""
    import contextlib
    import inspect
    import io
    import os

    data = os.path.join(E.repo_root(), "mchap", "tests", "test_io", "data")
    mod = load(CLI_PROGS[progname])
    bc = load("mchap.application.baseclass")
    keep = {k: int(choice("keep_" + k, 0, 1)) for k in ("duplicate", "qcfail", "supplementary")}
    mq = CLI_MQ[int(choice("mq", 0, len(CLI_MQ) - 1))]
    extras = int(choice("extras", 0, 1))  # read-group field ID, explicit base error rate, phred scores used
    bams = [os.path.join(data, "simple.sample%d.bam" % i) for i in (1, 2, 3)]
    cmd = ["mchap", progname, "--bam"] + bams + ["--ploidy", "4"]
    if progname == "assemble":
        cmd += ["--targets", os.path.join(data, "simple.bed.gz"), "--variants", os.path.join(data, "simple.vcf.gz"), "--reference", os.path.join(data, "simple.fasta")]
    else:
        cmd += ["--haplotypes", os.path.join(data, "simple.output.assemble.vcf")]
    if progname == "call-pedigree":
        cmd += ["--sample-parents", os.path.join(data, "simple.pedigree.132.txt")]
    if mq is not None:
        cmd += ["--mapping-quality", str(mq)]
    for k in keep:
        if keep[k]:
            cmd.append("--keep-%s-reads" % k)
    if extras:
        cmd += ["--base-error-rate", "0.125", "--use-base-phred-scores"]
        if progname != "call-pedigree":  # the pedigree file names samples by their SM tag
            cmd += ["--read-group-field", "ID"]
    want = dict(min_quality=20 if mq is None else mq, skip_duplicates=not keep["duplicate"], skip_qcfail=not keep["qcfail"], skip_supplementary=not keep["supplementary"],
                id="ID" if (extras and progname != "call-pedigree") else "SM", error_rate=0.125 if extras else 0.0024, quals_used=bool(extras))
    store = bc.__dict__.setdefault("__c06_orig__", {})
    for n in ("extract_read_variants", "encode_read_distributions"):
        store.setdefault(n, getattr(bc, n))
    sig_x, sig_d = inspect.signature(store["extract_read_variants"]), inspect.signature(store["encode_read_distributions"])
    xcalls, dcalls = [], []

    def rec_x(*a, **k):
        b = sig_x.bind(*a, **k)
        b.apply_defaults()
        args = dict(b.arguments)
        xcalls.append(dict(args, file=getattr(args["alignment_file"], "filename", b"").decode() if hasattr(getattr(args["alignment_file"], "filename", None), "decode") else str(getattr(args["alignment_file"], "filename", ""))))
        nv = len(args["locus"].variants)
        return {args["samples"]: (rnp.empty((0, nv), dtype="U1"), rnp.empty((0, nv), dtype=rnp.int16))}

    def rec_d(*a, **k):
        b = sig_d.bind(*a, **k)
        b.apply_defaults()
        dcalls.append(dict(b.arguments))
        return store["encode_read_distributions"](*a, **k)

    bc.extract_read_variants, bc.encode_read_distributions = rec_x, rec_d
    try:
        with contextlib.redirect_stdout(io.StringIO()):
            prog = mod.program.cli(cmd)
            locus = next(iter(prog.loci()))
            d = prog._locus_data(locus, prog.sample_bams)
            prog.encode_sample_reads(d)
        pairs = [(name, path) for s_ in prog.samples for name, path in prog.sample_bams[s_]]
    finally:
        bc.extract_read_variants, bc.encode_read_distributions = store["extract_read_variants"], store["encode_read_distributions"]
    return want, xcalls, dcalls, pairs, cmd


def _cli_problems(want, xcalls, dcalls, pairs):
    bad = []
    if len(xcalls) != len(pairs):
        bad.append("%d pileups extracted for %d (sample, file) pairs" % (len(xcalls), len(pairs)))
    for call, (name, path) in zip(xcalls, pairs):
        if call["samples"] != name:
            bad.append("pileup of %r extracted for sample %r" % (name, call["samples"]))
        if os.path.basename(call["file"]) != os.path.basename(path):
            bad.append("sample %r read from %s instead of %s" % (name, os.path.basename(call["file"]), os.path.basename(path)))
        for k in ("min_quality", "skip_duplicates", "skip_qcfail", "skip_supplementary", "id"):
            g, w = call[k], want[k]
            same = (g == w) if isinstance(w, str) else ((isinstance(g, (bool, rnp.bool_)) and bool(g) == w) if isinstance(w, bool) else (not isinstance(g, bool) and g == w))
            if not same:
                bad.append("extract_read_variants gets %s=%r, the command line says %r" % (k, g, w))
    for call in dcalls:
        if abs(float(call["error_rate"]) - want["error_rate"]) > 1e-15:
            bad.append("encode_read_distributions gets error_rate=%r, the command line says %r" % (call["error_rate"], want["error_rate"]))
        if (call["quals"] is not None) != want["quals_used"]:
            bad.append("base qualities %s although the command line says %s" % ("used" if call["quals"] is not None else "ignored", "use them" if want["quals_used"] else "ignore them"))
    if not dcalls:
        bad.append("encode_read_distributions never called")
    return sorted(set(bad))


def _run_cli_options(c, col):
    site = "mchap.application.baseclass.program.encode_sample_reads"

    def body(ctx):
        return _cli_drive(E.load, c["prog"], lambda name, lo, hi: int(E.SymInt(E.fresh_int(ctx, name, lo, hi))))

    first = True
    for pr in E.explore(body, stats=col.stats):
        if pr.exc is not None:
            col.fail(site, "exception", shape=dict(prog=c["prog"]), witness=dict(exc=repr(pr.exc.__cause__ or pr.exc)), desc="%s raised %r" % (c["prog"], pr.exc.__cause__ or pr.exc))
            continue
        col.path()
        if first:
            col.reachable(pr.ctx)
            first = False
        want, xcalls, dcalls, pairs, cmd = pr.value
        bad = _cli_problems(want, xcalls, dcalls, pairs)
        if bad:
            col.fail(site, "cli-option-wiring", shape=dict(prog=c["prog"]), witness=dict(options=[x for x in cmd if x.startswith("--") or x.replace(".", "").isdigit() or x == "ID"], problems=bad), desc="; ".join(bad)[:300])
        else:
            col.ok("every read-filter option of the command line reaches extract_read_variants / encode_read_distributions unchanged (%s; settings solver-enumerated)" % c["prog"])


def weight(c):
    return 10 if c.get("mismatch") else 5


class _Locus:
    contig = "chr1"
    start = 100
    stop = 110
    name = "loc"

    def __init__(self, ns=2):
        self.positions = [102, 105][:ns]
        self.alleles = [("A", "C"), ("A", "C")][:ns]
        self.variants = list(range(ns))

    def count_alleles(self):
        return [2] * len(self.positions)


SMALL = {"on": False}  # quick tier: read groups {rg0, rg2}, bases {A, C}


class SymRead:
    def __init__(self, ctx, i, mismatch, ns=2):
        self.ctx, self.i, self.mm, self.ns = ctx, i, mismatch, ns
        self.v = {}

    def _b(self, name):
        k = "r%d_%s" % (self.i, name)
        self.v[name] = z3.Bool(k)
        return E.SymBool(self.v[name])

    def _i(self, name, lo, hi):
        k = "r%d_%s" % (self.i, name)
        self.v[name] = E.fresh_int(self.ctx, k, lo, hi)
        return E.SymInt(self.v[name])

    is_unmapped = property(lambda s: s._b("unmapped"))
    is_duplicate = property(lambda s: s._b("dup"))
    is_qcfail = property(lambda s: s._b("qcfail"))
    is_supplementary = property(lambda s: s._b("supp"))
    mapping_quality = property(lambda s: s._i("mapq", 0, 2))

    def get_tag(self, tag):
        assert tag == "RG"
        r = int(self._i("rg", 0, 2))
        return "rg%d" % r

    @property
    def qname(self):
        return "q%d" % int(self._i("qn", 0, 1))

    def get_aligned_pairs(self, matches_only=False, with_seq=False):
        assert matches_only and with_seq
        out = [(0, 99, "T"), (1, 101, "G")]  # aligned non-variant positions are ignored
        for j, pos in enumerate([102, 105][: self.ns]):
            if bool(self._b("al%d" % j)):
                ref = "A"
                if self.mm and bool(self._b("mm%d" % j)):
                    ref = "g"
                out.append((2 + j, pos, ref.lower() if j else ref))
        return out

    @property
    def seq(self):
        return "TG" + "".join(BASES[int(self._i("b%d" % j, 0, 2))] for j in range(self.ns))

    @property
    def qual(self):
        # base quality 0 ('!') or 20 ('5') at each variant site: the merge must not depend on it
        return "55" + "".join("!5"[int(self._i("q%d" % j, 0, 1))] for j in range(self.ns))


def _vars(i, mismatch):
    """all z3 variables of read i (whether or not the code looked at them)"""
    n = "r%d_" % i
    d = dict(unmapped=z3.Bool(n + "unmapped"), dup=z3.Bool(n + "dup"), qcfail=z3.Bool(n + "qcfail"), supp=z3.Bool(n + "supp"),
             mapq=z3.Int(n + "mapq"), rg=z3.Int(n + "rg"), qn=z3.Int(n + "qn"))
    for j in range(2):
        d["al%d" % j] = z3.Bool(n + "al%d" % j)
        d["b%d" % j] = z3.Int(n + "b%d" % j)
        d["q%d" % j] = z3.Int(n + "q%d" % j)
        d["mm%d" % j] = z3.Bool(n + "mm%d" % j) if mismatch else z3.BoolVal(False)
    return d


def _domain(k, mismatch):
    cs = []
    for i in range(k):
        v = _vars(i, mismatch)
        cs += [v["mapq"] >= 0, v["mapq"] <= 2, v["rg"] >= 0, v["rg"] <= 2, v["qn"] >= 0, v["qn"] <= 1]
        if SMALL["on"]:
            cs += [v["rg"] != 1]
        for j in range(2):
            cs += [v["b%d" % j] >= 0, v["b%d" % j] <= (1 if SMALL["on"] else 2), v["q%d" % j] >= 0, v["q%d" % j] <= 1]
    return cs


class SymFile:
    filename = b"x.bam"

    def __init__(self, ctx, k, mismatch, ns=2):
        self.header = {"RG": [dict(d) for d in RGS]}
        self.reads = [SymRead(ctx, i, mismatch, ns) for i in range(k)]

    def fetch(self, contig, start, stop):
        assert (contig, start, stop) == ("chr1", 100, 110)
        return iter(self.reads)

    def __enter__(self):
        return self

    def __exit__(self, *a):
        return False


def _expected(k, idf, want, opts, mismatch, ns=2):
    """z3 terms: passing predicate per read, presence per qname, cell state per (qname, site), mismatch-raise predicate"""
    minq, sd, sq, ss = opts
    key_of_rg = [d[idf] for d in RGS]
    passing, sel = [], []
    for i in range(k):
        v = _vars(i, mismatch)
        p = z3.And(z3.Not(v["unmapped"]), v["mapq"] >= minq, z3.Not(z3.And(v["dup"], sd)), z3.Not(z3.And(v["qcfail"], sq)), z3.Not(z3.And(v["supp"], ss)))
        insample = z3.Or([v["rg"] == r for r in range(3) if key_of_rg[r] == want] + [z3.BoolVal(False)])
        passing.append(p)
        sel.append(z3.And(p, insample))
    present, cell = {}, {}
    raises = []
    for q in range(2):
        present[q] = z3.Or([z3.And(sel[i], _vars(i, mismatch)["qn"] == q) for i in range(k)])
        for j in range(ns):
            st = z3.IntVal(GAP)
            for i in range(k):
                v = _vars(i, mismatch)
                b = v["b%d" % j]
                merged = z3.If(st == GAP, b, z3.If(st == b, st, z3.IntVal(NCODE)))
                st = z3.If(z3.And(sel[i], v["qn"] == q, v["al%d" % j]), merged, st)
            cell[(q, j)] = st
    for i in range(k):
        v = _vars(i, mismatch)
        for j in range(ns):
            raises.append(z3.And(sel[i], v["al%d" % j], v["mm%d" % j]))
    return sel, present, cell, z3.Or(raises + [z3.BoolVal(False)])


def run_config(c, col):
    E.use_summaries(True)
    E.reset_modules()
    E.cfg.concrete_ints = True
    E.cfg.concrete_floats = True
    import warnings

    warnings.simplefilter("ignore")
    prof = E.Profile()
    with prof:
        if c["group"] == "dists":
            E.cfg.concrete_floats = False
        {"extract": _run_extract, "encode": _run_encode, "locus-ref": _run_locus_ref, "dists": _run_dists, "cli-options": _run_cli_options}[c["group"]](c, col)
    col.functions |= set(prof.names())
    E.cfg.concrete_floats = False


def _run_extract(c, col):
    bam = E.load("mchap.io.bam")
    site = "mchap.io.bam.extract_read_variants"
    k, idf, want, mm, ns = c["k"], c["idf"], c["want"], c["mismatch"], c["ns"]
    skd, skq, sks = c["skips"]
    SMALL["on"] = bool(c.get("small"))

    def body(ctx):
        minq = E.fresh_int(ctx, "minq", 0, 2)
        f = SymFile(ctx, k, mm, ns)
        for cst in _domain(k, mm):
            ctx.assume(cst)
        data = bam.extract_read_variants(_Locus(ns), f, samples=want, id=idf, min_quality=E.SymInt(minq), skip_duplicates=skd,
                                         skip_qcfail=skq, skip_supplementary=sks, read_dicts=True)
        return minq, data

    first = True
    for pr in E.explore(body, stats=col.stats, catch=(ValueError,)):
        ctx = pr.ctx
        col.path()
        if first:
            col.reachable(ctx)
            first = False
        # rebuild the option variables (same names on every path)
        opts = (z3.Int("minq"), z3.BoolVal(skd), z3.BoolVal(skq), z3.BoolVal(sks))
        sel, present, cell, must_raise = _expected(k, idf, want, opts, mm, ns)
        shape = dict(idf=idf, mismatch=mm)
        if pr.exc is not None:
            if "does not match alignment reference allele" in str(pr.exc):
                col.check(ctx, must_raise, site, "spurious-reference-error", shape=shape, witness=dict(exc=str(pr.exc)[:120]), desc="a reference-mismatch error is raised only when a used alignment disagrees with the variant's REF base")
            else:
                col.fail(site, "exception", shape=shape, witness=dict(exc=repr(pr.exc)), desc="raised %r" % (pr.exc,), model=E.model_dict(E.prove(ctx, False).model))
            continue
        _, data = pr.value
        if set(data) != {want}:
            col.fail(site, "sample-keys", shape=shape, witness=dict(keys=list(data)), desc="returned samples %s, expected only %s" % (list(data), want))
            continue
        rows = data[want]
        claims = [z3.Not(must_raise)]
        for q in range(2):
            name = "q%d" % q
            claims.append(present[q] if name in rows else z3.Not(present[q]))
            if name in rows:
                chars = rows[name][0]
                for j in range(ns):
                    ch = str(chars[j])
                    code = GAP if ch == "-" else BASES.index(ch)
                    claims.append(cell[(q, j)] == code)
        w = dict(rows={q: "".join(str(x) for x in v[0]) for q, v in rows.items()}, want=want, idf=idf, skips=c["skips"])
        col.check(ctx, z3.And(claims), site, "filtered-pileup", shape=shape, witness=w,
                  desc="rows == read names of passing alignments of the requested sample; cells == first/agreeing base, N on disagreement, '-' when unaligned; no reference mismatch went unreported [k=%d id=%s]" % (k, idf))


def _run_encode(c, col):
    """encode_sample_reads over a pool of two samples in one file: counts and encodings recomputed from the extracted matrix"""
    bc = E.load("mchap.application.baseclass")
    bam = E.load("mchap.io.bam")
    FORMAT = E.load("mchap.io.vcf.formatfields")
    INFO = E.load("mchap.io.vcf.infofields")
    site = "mchap.application.baseclass.program.encode_sample_reads"
    k = c["k"]

    def body(ctx):
        ns = c.get("ns", 1)
        SMALL["on"] = bool(c.get("small"))
        f = SymFile(ctx, k, False, ns)
        for cst in _domain(k, False):
            ctx.assume(cst)

        class FakePysam:
            @staticmethod
            def AlignmentFile(path, reference_filename=None):
                return f

        bc.pysam = FakePysam
        prog = bc.program.__new__(bc.program)
        for kk, vv in dict(ref="ref.fa", read_group_field="SM", mapping_quality=1, skip_duplicates=True, skip_qcfail=True, skip_supplementary=True,
                           ignore_base_phred_scores=True, base_error_rate=0.0, samples=["pool"], sample_ploidy={"pool": 2}, sample_inbreeding={"pool": 0},
                           info_fields=[], format_fields=[], precision=3).items():
            setattr(prog, kk, vv)
        layout = c.get("layout", "pool")
        prog.samples, sample_bams = _layout(layout)
        prog.sample_ploidy = {s_: 2 for s_ in prog.samples}
        prog.sample_inbreeding = {s_: 0 for s_ in prog.samples}
        data = prog._locus_data(_Locus(ns), sample_bams)
        prog.encode_sample_reads(data)
        # the matrices each column is made of (same path condition): the members' own filtered pileups
        ea = bam.extract_read_variants(_Locus(ns), f, samples="A", id="SM", min_quality=1)["A"][0]
        eb = bam.extract_read_variants(_Locus(ns), f, samples="B", id="SM", min_quality=1)["B"][0]
        return data, {"A": ea, "B": eb}, FORMAT, ns

    first = True
    for pr in E.explore(body, stats=col.stats):
        if pr.exc is not None:
            col.fail(site, "exception", witness=dict(exc=repr(pr.exc.__cause__ or pr.exc)), desc="raised %r" % (pr.exc.__cause__ or pr.exc,), model=E.model_dict(E.prove(pr.ctx, False).model))
            continue
        col.path()
        if first:
            col.reachable(pr.ctx)
            first = False
        data, members, FORMAT, ns = pr.value
        problems = _encode_problems(data, members, FORMAT, ns, c.get("layout", "pool"))
        if problems:
            col.fail(site, "pool-counts", shape=dict(layout=c.get("layout", "pool")), witness=dict(members={k_: v_.tolist() for k_, v_ in members.items()}, problems=problems, model=E.model_dict(E.prove(pr.ctx, False).model)), desc="; ".join(problems))
        else:
            col.ok("every column's matrix == concatenation of its members' own filtered pileups (members share one alignment file; layout %s); RCOUNT/DP/SNVDP/RCALLS/read_calls/read_counts recomputed from it" % c.get("layout", "pool"))


# ------------------------------------------------------------------ SNV file vs FASTA: every record's REF base is checked


def _run_locus_ref(c, col):
    """Locus.set_sequence(fasta).set_variants(vcf) and the reverse order: records of the SNV file (several may share one position,
    as split multi-allelic sites do) against the FASTA -- any REF base that disagrees with the FASTA must raise, and when
    nothing disagrees the alleles are REF followed by the ALT bases in order of first appearance"""
    lo = E.load("mchap.io.loci")
    site = "mchap.io.loci.Locus.set_variants"
    n_rec = c["n_rec"]
    B = "ACGT"

    class Rec:
        def __init__(self, pos, ref, alts, rid):
            self.contig, self.start, self.stop, self.ref, self.alts, self.id = "chr1", pos, pos + 1, ref, tuple(alts), rid

    def body(ctx):
        same_pos = bool(c.get("same_pos"))  # every record at one position (a multi-allelic site split into one record per ALT)
        fasta = [B[int(E.SymInt(E.fresh_int(ctx, "fa%d" % j, 0, 1)))] if (j == 0 or not same_pos) else "A" for j in range(2)]  # two positions: 101 and 102
        recs = []
        for i in range(n_rec):
            pos = (101 + int(E.SymInt(E.fresh_int(ctx, "pos%d" % i, 0, 1))) if i else 101) if not same_pos else 101
            ref = B[int(E.SymInt(E.fresh_int(ctx, "ref%d" % i, 0, 1)))]
            alt = B[int(E.SymInt(E.fresh_int(ctx, "alt%d" % i, 1, 3)))]
            if alt == ref:
                raise E.PathAbort()
            recs.append(Rec(pos, ref, [alt], "."))
        order = int(E.SymInt(E.fresh_int(ctx, "order", 0, 1)))  # sequence first or variants first

        class FakeFasta:
            def __init__(self, path):
                pass

            def __enter__(self):
                return self

            def __exit__(self, *a):
                return False

            def fetch(self, contig, start, stop):
                return "T" + "".join(fasta).lower() + "T"

        class FakeVcf(FakeFasta):
            def fetch(self, contig, start, stop):
                return iter(sorted(recs, key=lambda r: r.start))

        class FakePysam:
            FastaFile = FakeFasta
            VariantFile = FakeVcf

        lo.pysam = FakePysam
        locus = lo.Locus("chr1", 100, 104, "loc", None, None)
        raised = None
        out = None
        try:
            out = locus.set_sequence("ref.fa").set_variants("snv.vcf") if order == 0 else locus.set_variants("snv.vcf").set_sequence("ref.fa")
        except ValueError as e:
            raised = e
        return fasta, [(r.start, r.ref, r.alts) for r in sorted(recs, key=lambda r: r.start)], order, raised, None if out is None else [(v.start, v.alleles) for v in out.variants]

    first = True
    for pr in E.explore(body, stats=col.stats):
        if pr.exc is not None:
            col.fail(site, "exception", shape=dict(group="locus-ref"), witness=dict(exc=repr(pr.exc), model=E.model_dict(E.prove(pr.ctx, False).model)), desc="raised %r" % (pr.exc,))
            continue
        col.path()
        if first:
            col.reachable(pr.ctx)
            first = False
        fasta, recs, order, raised, variants = pr.value
        bad = [(p_, r_) for p_, r_, _ in recs if fasta[p_ - 101] != r_]
        w = dict(fasta="".join(fasta), records=recs, order=order, model=E.model_dict(E.prove(pr.ctx, False).model))
        if bad and raised is None:
            col.fail(site, "reference-mismatch-accepted", shape=dict(group="locus-ref"), witness=w,
                     desc="SNV-file record with REF %r at %d disagrees with the FASTA base %r but no error was raised (alleles used: %s)" % (bad[0][1], bad[0][0] + 1, fasta[bad[0][0] - 101], variants))
        elif not bad and raised is not None:
            col.fail(site, "spurious-reference-error", shape=dict(group="locus-ref"), witness=dict(w, exc=repr(raised)), desc="consistent records rejected: %r" % (raised,))
        elif not bad:
            want = {}
            for p_, r_, alts in recs:
                lst = want.setdefault(p_, [r_])
                lst.extend(a for a in alts if a not in lst)
            got = {p_: list(al) for p_, al in variants}
            if got != want:
                col.fail(site, "merged-alleles", shape=dict(group="locus-ref"), witness=dict(w, got=str(got), want=str(want)), desc="alleles %s expected %s (REF first, ALT bases by first appearance)" % (got, want))
            else:
                col.ok("records consistent with the FASTA: alleles are REF then the ALT bases by first appearance (records sharing a position merged)")
        else:
            col.ok("a record whose REF base disagrees with the FASTA is reported as an error (whichever of sequence / variants is set first, also for the second record at a position)")


def _run_dists(c, col):
    """allele calls -> probabilities fed to the likelihood (encode_read_distributions / as_probabilistic) with a SYMBOLIC error
    rate: the called allele gets 1 - e, every other nucleotide e / 3, a missing call is NaN in every listed allele and a
    non-allele column is 0 -- for every call pattern of 2 reads x 2 SNVs with 2 and 3 alleles"""
    bam = E.load("mchap.io.bam")
    site = "mchap.io.bam.encode_read_distributions"
    nal = [2, 3]

    class L:
        def count_alleles(self):
            return list(nal)

    def body(ctx):
        e = E.fresh_real(ctx, "e", 0, 1, lo_strict=False)
        calls = rnp.array([[int(E.SymInt(E.fresh_int(ctx, "c%d_%d" % (r, j), -1, nal[j] - 1))) for j in range(2)] for r in range(2)])
        out = bam.encode_read_distributions(L(), calls, quals=None, error_rate=E.SymReal(e))
        return e, calls, out

    first = True
    for pr in E.explore(body, stats=col.stats):
        if pr.exc is not None:
            col.fail(site, "exception", shape=dict(group="dists"), witness=dict(exc=repr(pr.exc)), desc="raised %r" % (pr.exc,))
            continue
        col.path()
        if first:
            col.reachable(pr.ctx)
            first = False
        e, calls, out = pr.value
        claims, shape_ok = [], out.shape == (2, 2, 3)
        for r in range(2):
            for j in range(2):
                for a in range(3):
                    v = out[r, j, a] if shape_ok else None
                    isnan = bool(v != v) if not isinstance(v, E.Sym) else False
                    if a >= nal[j]:
                        # a non-allele column carries no probability (for a missing call it may be 0 or NaN: never read)
                        if isnan:
                            claims.append(z3.BoolVal(bool(calls[r, j] < 0)))
                        else:
                            claims.append(E.real_term(v) == 0)
                    elif calls[r, j] < 0:
                        claims.append(z3.BoolVal(isnan))
                    elif isnan:
                        claims.append(z3.BoolVal(False))
                    else:
                        claims.append(E.real_term(v) == ((1 - e) if a == calls[r, j] else e / 3))
        col.check(pr.ctx, z3.And(claims) if shape_ok else z3.BoolVal(False), site, "read-probabilities", shape=dict(group="dists"), witness=dict(calls=calls.tolist()),
                  desc="P(observed base | allele): 1 - e for the called allele, e/3 for the other nucleotides, NaN for a missing call, 0 for non-allele columns (symbolic error rate e)")


def _replay_dists(v):
    from mchap.io.bam import encode_read_distributions

    w = v.get("witness") or {}
    m = v.get("model") or {}
    e = float(m.get("e", 0.1)) or 0.1
    calls = rnp.array(w.get("calls", [[0, 2], [-1, 1]]))

    class L:
        def count_alleles(self):
            return [2, 3]

    out = encode_read_distributions(L(), calls, quals=None, error_rate=e)
    bad = []
    for r in range(2):
        for j in range(2):
            for a in range(3):
                v_ = out[r, j, a]
                want = 0.0 if a >= [2, 3][j] else float("nan") if calls[r, j] < 0 else (1 - e if a == calls[r, j] else e / 3)
                if a >= [2, 3][j] and calls[r, j] < 0 and (v_ != v_ or v_ == 0):
                    continue
                if (want != want) != (v_ != v_) or (want == want and abs(v_ - want) > 1e-12):
                    bad.append((r, j, a, float(v_), want))
    return bool(bad), "error rate %r, calls %s: (read, site, allele, got, expected) %s" % (e, calls.tolist(), bad[:3])


def _replay_locus_ref(v):
    from checks import wiring

    return wiring.replay_real(v, _run_locus_ref)


def _layout(layout):
    """sample -> [(member, path)]: one pool of A and B, or A and B as two samples -- in both cases read from the SAME alignment file"""
    if layout == "pool":
        return ["pool"], {"pool": [("A", "x.bam"), ("B", "x.bam")]}
    return ["A", "B"], {"A": [("A", "x.bam")], "B": [("B", "x.bam")]}


def _encode_problems(data, members, FORMAT, ns, layout):
    """DP / RCOUNT / RCALLS / SNVDP / read_calls / read_counts of every column recomputed from its members' character matrices"""
    sd = data.sampledata
    problems = []
    samples, sample_bams = _layout(layout)
    for name in samples:
        chars = rnp.concatenate([rnp.asarray(members[m_]).reshape(-1, ns) for m_, _ in sample_bams[name]])
        n = len(chars)
        depth = [int((chars[:, j] != "-").sum()) for j in range(ns)] if n else [0] * ns
        calls = [[{"A": 0, "C": 1}.get(str(x), -1) for x in row] for row in chars]
        if int(sd[FORMAT.RCOUNT][name]) != n:
            problems.append("%s: RCOUNT %s != %d rows" % (name, sd[FORMAT.RCOUNT][name], n))
        if [int(x) for x in rnp.atleast_1d(sd[FORMAT.SNVDP][name])] != depth:
            problems.append("%s: SNVDP %s != %s (reads with a base aligned to the SNV)" % (name, rnp.atleast_1d(sd[FORMAT.SNVDP][name]).tolist(), depth))
        if float(sd[FORMAT.DP][name]) != float(rnp.round(rnp.mean(depth))):
            problems.append("%s: DP %s != round(mean %s)" % (name, sd[FORMAT.DP][name], depth))
        if int(sd[FORMAT.RCALLS][name]) != sum(1 for r in calls for x in r if x >= 0):
            problems.append("%s: RCALLS %s != %d" % (name, sd[FORMAT.RCALLS][name], sum(1 for r in calls for x in r if x >= 0)))
        if rnp.asarray(data.read_calls[name]).tolist() != calls:
            problems.append("%s: read_calls %s != %s (its own members' reads)" % (name, rnp.asarray(data.read_calls[name]).tolist(), calls))
        if int(rnp.sum(data.read_counts[name])) != n:
            problems.append("%s: sum of de-duplicated read counts %s != %d" % (name, data.read_counts[name], n))
    return problems


# ------------------------------------------------------------------ replay on real pysam with a synthetic SAM file


def _write_sam(path, k, m, mismatch, ns=2):
    """build a SAM whose alignments realise the model: site j is covered by an M block, or skipped by an N gap"""
    hdr = "@HD\tVN:1.6\tSO:coordinate\n@SQ\tSN:chr1\tLN:1000\n" + "".join("@RG\tID:%s\tSM:%s\n" % (d["ID"], d["SM"]) for d in RGS)
    lines = []
    for i in range(k):
        g = lambda n, d=0: m.get("r%d_%s" % (i, n), d)
        flag = 0
        if g("unmapped", False):
            flag |= 4
        if g("dup", False):
            flag |= 1024
        if g("qcfail", False):
            flag |= 512
        if g("supp", False):
            flag |= 2048
        al = [bool(g("al0", False)), bool(g("al1", False)) and ns > 1]
        # reference positions 100..106 (0-based); variant sites 102 and 105; read covers 100-101 always
        seq = "TG"
        qs = "55"
        cigar = "2M"
        pos = 102
        for j, site in enumerate((102, 105)):
            gap = site - pos
            if al[j]:
                if gap:
                    cigar += "%dN" % gap
                cigar += "1M"
                seq += BASES[int(g("b%d" % j, 0))]
                qs += "!5"[int(g("q%d" % j, 1))]
            else:
                cigar += "%dN" % (gap + 1)
            pos = site + 1
        import re as _re
        cigar = _re.sub(r"(\d+)N(\d+)N", lambda mo: "%dN" % (int(mo.group(1)) + int(mo.group(2))), cigar)
        if cigar.endswith("N"):
            cigar = cigar[: cigar.rfind("M") + 1]
        mapq = int(g("mapq", 0)) * 10
        lines.append("\t".join(["q%d" % int(g("qn", 0)), str(flag), "chr1", "101", str(mapq), cigar, "*", "0", "0", seq, qs, "RG:Z:rg%d" % int(g("rg", 0))]))
    open(path, "w").write(hdr + "\n".join(lines) + "\n")


def replay(v):
    """real pysam: the model's alignments are written to a SAM/BAM file with a matching reference"""
    import os
    import shutil
    import tempfile
    import pysam
    from mchap.io.bam import extract_read_variants

    c = v["config"]
    m = v.get("model") or (v.get("witness") or {}).get("model") or {}
    if c["group"] == "locus-ref":
        return _replay_locus_ref(v)
    if c["group"] == "dists":
        return _replay_dists(v)
    if c["group"] == "cli-options":
        import importlib

        want, xcalls, dcalls, pairs, cmd = _cli_drive(importlib.import_module, c["prog"], lambda name, lo, hi: int(m.get(name, lo)))
        bad = _cli_problems(want, xcalls, dcalls, pairs)
        return bool(bad), "real modules, mchap %s %s: %s" % (c["prog"], " ".join(x for x in cmd[2:] if x.startswith("--") and "bam" not in x), "; ".join(bad) or "all options arrive")
    if c["group"] != "extract":
        return _replay_encode(v)
    k, idf, want, mm, ns = c["k"], c["idf"], c["want"], c["mismatch"], c.get("ns", 2)
    skd, skq, sks = c.get("skips", [True, True, True])
    m = dict(m, skipdup=skd, skipqc=skq, skipsupp=sks)
    tmp = tempfile.mkdtemp(prefix="mchap-c06-")
    try:
        sam = os.path.join(tmp, "x.sam")
        _write_sam(sam, k, m, mm, ns)
        bamp = os.path.join(tmp, "x.bam")
        pysam.sort("-o", bamp, sam)
        pysam.index(bamp)
        # reference: REF bases at the variant sites are 'A' unless the model asks for a mismatch there
        ref = ["T"] * 1000
        ref[100], ref[101] = "T", "G"
        ref[102] = ref[105] = "A"
        mism = any(m.get("r%d_mm%d" % (i, j), False) for i in range(k) for j in range(ns))
        if mism:
            ref[102] = "G"
        fa = os.path.join(tmp, "ref.fa")
        open(fa, "w").write(">chr1\n" + "".join(ref) + "\n")
        pysam.faidx(fa)
        minq = int(m.get("minq", 0)) * 10
        with pysam.AlignmentFile(bamp) as f:
            try:
                # MD tags are absent: get_aligned_pairs(with_seq=True) needs them -> compute with calmd
                pass
            except Exception:
                pass
        md = os.path.join(tmp, "md.bam")
        with open(md, "wb") as out:
            out.write(pysam.calmd("-b", bamp, fa))
        pysam.index(md)
        with pysam.AlignmentFile(md) as f:
            try:
                data = extract_read_variants(_Locus(ns), f, samples=want, id=idf, min_quality=minq, skip_duplicates=bool(m.get("skipdup", True)),
                                             skip_qcfail=bool(m.get("skipqc", True)), skip_supplementary=bool(m.get("skipsupp", True)), read_dicts=True)
                raised = None
            except ValueError as e:
                data, raised = None, e
        # oracle on the concrete model (file order = sorted by position then as written; all reads start at 101)
        key_of_rg = [d[idf] for d in RGS]
        rows = {}
        must_raise = False
        for i in range(k):
            g = lambda n, d=0: m.get("r%d_%s" % (i, n), d)
            p = (not g("unmapped", False)) and int(g("mapq", 0)) * 10 >= minq and not (g("dup", False) and m.get("skipdup", True)) and \
                not (g("qcfail", False) and m.get("skipqc", True)) and not (g("supp", False) and m.get("skipsupp", True))
            if not p or key_of_rg[int(g("rg", 0))] != want:
                continue
            row = rows.setdefault("q%d" % int(g("qn", 0)), ["-"] * ns)
            for j in range(ns):
                if g("al%d" % j, False):
                    if mism and j == 0:
                        must_raise = True
                    b = BASES[int(g("b%d" % j, 0))]
                    row[j] = b if row[j] == "-" else (row[j] if row[j] == b else "N")
        if must_raise or raised is not None:
            return (raised is None) != (not must_raise), "reference mismatch expected=%s raised=%r" % (must_raise, raised)
        got = {q: ["".join(x) for x in [list(vv[0])]][0] for q, vv in data[want].items()}
        want_rows = {q: "".join(r) for q, r in rows.items()}
        return got != want_rows, "real pysam rows %s, expected %s (sample %s by %s, minq %d)" % (got, want_rows, want, idf, minq)
    finally:
        shutil.rmtree(tmp, ignore_errors=True)


def _replay_encode(v):
    """the real program.encode_sample_reads on a real BAM written from the model; expectation from the real per-member extraction"""
    import os
    import shutil
    import tempfile
    import pysam
    from mchap.application import baseclass as rbc
    from mchap.io.bam import extract_read_variants
    import mchap.io.vcf.formatfields as FORMAT

    c = v["config"]
    m = v.get("model") or (v.get("witness") or {}).get("model") or {}
    k, ns, layout = c["k"], c.get("ns", 1), c.get("layout", "pool")
    tmp = tempfile.mkdtemp(prefix="mchap-c06-")
    try:
        sam = os.path.join(tmp, "x.sam")
        _write_sam(sam, k, m, False, ns)
        bamp = os.path.join(tmp, "s.bam")
        pysam.sort("-o", bamp, sam)
        ref = ["T"] * 1000
        ref[100], ref[101] = "T", "G"
        ref[102] = ref[105] = "A"
        fa = os.path.join(tmp, "ref.fa")
        open(fa, "w").write(">chr1\n" + "".join(ref) + "\n")
        pysam.faidx(fa)
        md = os.path.join(tmp, "x.bam")
        with open(md, "wb") as out:
            out.write(pysam.calmd("-b", bamp, fa))
        pysam.index(md)
        samples, sample_bams = _layout(layout)
        sample_bams = {s_: [(mem, md) for mem, _ in pairs] for s_, pairs in sample_bams.items()}
        prog = rbc.program.__new__(rbc.program)
        for kk, vv in dict(ref=fa, read_group_field="SM", mapping_quality=10, skip_duplicates=True, skip_qcfail=True, skip_supplementary=True,
                           ignore_base_phred_scores=True, base_error_rate=0.01, samples=samples, sample_ploidy={s_: 2 for s_ in samples},
                           sample_inbreeding={s_: 0 for s_ in samples}, info_fields=[], format_fields=[], precision=3).items():
            setattr(prog, kk, vv)
        data = prog._locus_data(_Locus(ns), sample_bams)
        try:
            prog.encode_sample_reads(data)
        except Exception as e:
            return v.get("kind") == "exception", "real encode_sample_reads raised %r" % (e,)
        members = {}
        with pysam.AlignmentFile(md) as f:
            for mem in ("A", "B"):
                members[mem] = extract_read_variants(_Locus(ns), f, samples=mem, id="SM", min_quality=10)[mem][0]
        problems = _encode_problems(data, members, FORMAT, ns, layout)
        return bool(problems), "real BAM with %d alignments (layout %s): %s" % (k, layout, "; ".join(problems) if problems else "columns equal their members' pileups")
    finally:
        shutil.rmtree(tmp, ignore_errors=True)


def validate(seed):
    """the stub contract against real pysam: random alignment sets through the real function on a real BAM and through the engine on the stub"""
    import random

    rnd = random.Random(seed)
    n = 0
    E.use_summaries(True)
    E.reset_modules()
    E.cfg.concrete_ints = True
    E.cfg.concrete_floats = True
    bam = E.load("mchap.io.bam")
    for _ in range(4):
        k = 3
        m = {"minq": rnd.randint(0, 2), "skipdup": rnd.random() < 0.5, "skipqc": rnd.random() < 0.5, "skipsupp": rnd.random() < 0.5}
        for i in range(k):
            m.update({"r%d_unmapped" % i: False, "r%d_dup" % i: rnd.random() < 0.3, "r%d_qcfail" % i: rnd.random() < 0.3, "r%d_supp" % i: rnd.random() < 0.2,
                      "r%d_mapq" % i: rnd.randint(0, 2), "r%d_rg" % i: rnd.randint(0, 2), "r%d_qn" % i: rnd.randint(0, 1),
                      "r%d_al0" % i: rnd.random() < 0.7, "r%d_al1" % i: rnd.random() < 0.7, "r%d_b0" % i: rnd.randint(0, 2), "r%d_b1" % i: rnd.randint(0, 2)})
        v = dict(config=dict(group="extract", k=k, ns=2, idf="SM", want=rnd.choice(["A", "B"]), mismatch=False,
                             skips=[m["skipdup"], m["skipqc"], m["skipsupp"]]), model=m, witness={})
        bad, info = replay(v)
        assert not bad, info  # real pysam agrees with the oracle the stub is built from
        n += 1
    E.cfg.concrete_floats = False
    return n
