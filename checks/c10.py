"""C10 -- samples are called independently; a pool equals the union of its reads (partly applicable)."""
import itertools

import numpy as rnp
import z3

from nbsym import engine as E
from oracle import models as M

ID = "C10"
TITLE = "call / call-exact: a sample's column is the same whether it is analysed alone, with other samples, or in another order (self-composition); assemble: other samples only turn '.' into named alleles; a pool is processed as the concatenation of its members' reads"
TECHNIQUE = "self-composition by symbolic execution: two runs under one path condition differing only in the other samples' data; equality of the target sample's outputs discharged by z3"
ENCODED = ["mchap.application.call_exact.program.call_sample_genotypes", "mchap.application.call.program.call_sample_genotypes",
           "mchap.application.assemble.program.call_sample_genotypes", "mchap.assemble.haplotype_calling.call_posterior_haplotypes",
           "mchap.application.assemble._genotype_as_alleles", "mchap.application.arguments.parse_sample_pools", "mchap.application.baseclass.program.encode_sample_reads"]
STUBS = ["call-exact: read likelihood of the target sample -> ln L_A(genotype) (one positive real per genotype); the other sample carries two different fixed likelihood tables (B and B')",
         "call: CallingMCMC -> recorder (the sampler is a function of its constructor/fit arguments and the seed; the check is that these do not depend on other samples)",
         "assemble: DenovoMCMC -> posterior with symbolic probabilities (as in C13)"]
ASSUMES = ["self-composition: the same path condition, two runs differing only in the other samples' data; the target sample's outputs must be equal terms",
           "pools / samples sharing one alignment file: the C06 driver (symbolic alignments behind the pysam contract stub) -- every column's read matrix is the concatenation of its own members' filtered pileups"]
BOUNDS = {"quick": "wiring: assemble / call / call-exact (both paths) / call-pedigree with 3 samples of ploidy 2,3,4, distinct symbolic inbreeding, temperatures, reads and counts, 3 of the 6 sample orders (thorough: all 6); shared alignment file: pool and two-sample layouts, 2 alignments (thorough 3); call-exact: ploidy 2, 2-3 alleles, 2 samples + alone + swapped order; call: 2 samples, masks as in C16; assemble: C13 scenarios with 2 samples, each with and without the second sample; pools: all assignments of 3 samples to <= 2 pools",
          "thorough": "adds ploidy 3 and 3-sample scenarios, all six sample orders in the program wiring, shared-file layouts on the wide domain (3 read groups, bases {REF, ALT, N})"}
OUTSIDE = "physically merged BAM files and --sample-pool file parsing from disk; equality of MCMC output itself across runs is C08's seeding clause"
TASKS_PER_CHILD = 2


def configs(tier):
    out = []
    for inbred in (False, True):
        out.append(dict(group="exact", P=2, A=2, inbred=inbred, symf=True))
    for P, A in (((2, 3),) if tier == "quick" else ((2, 3), (3, 2), (3, 3))):
        out.append(dict(group="exact", P=P, A=A, inbred=False, symf=False))  # flat prior: the other samples' comparisons are concrete
    out.append(dict(group="call"))
    for scen in (("dip2", "mixed") if tier == "quick" else ("dip2", "mixed", "tet2", "three")):
        out.append(dict(group="assemble", scenario=scen))
    out.append(dict(group="pools"))
    # two samples (or the two members of a pool) that live in ONE alignment file: every column must be built from its own
    # members' reads (shared driver with C06: symbolic alignments behind the pysam contract stub)
    for layout in ("two", "pool"):
        out.append(dict(group="encode", k=2, ns=1, small=True, layout=layout))
    # per-sample wiring of the four programs: three samples with distinct ploidy / symbolic inbreeding / temperatures / reads
    from checks import wiring

    for prog in wiring.PROGS:
        for order in ((0, 3, 5) if tier == "quick" else range(6)):
            out.append(dict(group="wiring", prog=prog, order=order))
        if prog == "call-pedigree":  # mixed ploidies AND a masked reference: the padded pedigree trace is relabelled per individual
            out.append(dict(group="wiring", prog=prog, order=3, masked=True))
        if prog != "call-pedigree":  # two samples of one ploidy that differ in inbreeding / reads / temperatures (anything keyed by ploidy would mix them up)
            out.append(dict(group="wiring", prog=prog, order=3, same_ploidy=True))
    if tier != "quick":
        # (three alignments cost > 25 CPU-minutes per configuration: sized out; the thorough tier widens the domain instead:
        # 3 read groups, bases {REF, ALT, N})
        for layout in ("two", "pool"):
            out.append(dict(group="encode", k=2, ns=1, small=False, layout=layout))
    return out


def weight(c):
    return 10 if c["group"] == "encode" else 3 if c["group"] == "assemble" else 1


def run_config(c, col):
    E.use_summaries(True)
    E.reset_modules()
    E.cfg.concrete_ints = True
    import warnings

    warnings.simplefilter("ignore")
    prof = E.Profile()
    with prof:
        globals()["_run_" + c["group"]](c, col)
    col.functions |= set(prof.names())


def _run_wiring(c, col):
    from checks import wiring

    wiring.run(c, col)


def _run_encode(c, col):
    from checks import c06

    E.cfg.concrete_floats = True
    try:
        c06._run_encode(c, col)
    finally:
        E.cfg.concrete_floats = False


def _mods():
    bc = E.load("mchap.application.baseclass")
    return bc, E.load("mchap.io.vcf.formatfields"), E.load("mchap.io.vcf.infofields"), E.load("mchap.io.vcf.columns")


class _Locus:
    def __init__(self, haps, freqs):
        self._h, self.frequencies, self.mask_reference_allele = haps, freqs, False
        self.sequence = "A"
        self.alts = tuple("CGT"[: len(haps) - 1])

    def encode_haplotypes(self):
        return self._h


def _same(a, b):
    """z3 claim that two outputs (scalars / arrays of engine values) are equal"""
    if a is None or b is None:
        return z3.BoolVal(a is None and b is None)
    a = rnp.atleast_1d(rnp.asarray(a, dtype=object))
    b = rnp.atleast_1d(rnp.asarray(b, dtype=object))
    if a.shape != b.shape:
        return z3.BoolVal(False)
    cl = []
    for x, y in zip(a.ravel(), b.ravel()):
        if isinstance(x, (float, rnp.floating)) and x != x and isinstance(y, (float, rnp.floating)) and y != y:
            continue
        cl.append(E.real_term(x) == E.real_term(y))
    return z3.And(cl) if cl else z3.BoolVal(True)


# ------------------------------------------------------------------ call-exact


def _run_exact(c, col):
    ex = E.load("mchap.calling.exact")
    ce = E.load("mchap.application.call_exact")
    bc, FORMAT, INFO, COLUMN = _mods()
    ce.qual_of_prob = lambda p: 0
    ce.natural_log_to_log10 = lambda x: x
    ce.minimum_error_correction = lambda calls, haps: rnp.zeros(1)
    P, A = c["P"], c["A"]
    haps = rnp.arange(A).reshape(A, 1).astype(rnp.int8)
    site = "mchap.application.call_exact.program.call_sample_genotypes"

    def stub_llk(reads, genotype, read_counts=None):
        key = "_".join(str(int(r[0])) for r in genotype)
        if reads != "A":
            # the other samples carry fixed, mutually different likelihood tables (no extra path forks)
            h = sum((i + 2) * (int(r[0]) + 1) for i, r in enumerate(genotype)) + (7 if reads == "B" else 11)
            return E.np.log(E.SymReal(z3.RealVal(E.Fraction(1 + h % 9, 8))))
        v = z3.Real("L_%s_%s" % (reads, key))
        E.Ctx.cur.assume(v > 0)
        return E.np.log(E.SymReal(v))

    ex.log_likelihood = stub_llk
    fields = [FORMAT.GT, FORMAT.GQ, FORMAT.GPM, FORMAT.SPM, FORMAT.SQ, FORMAT.MCI, FORMAT.ACP, FORMAT.AFP, FORMAT.AOP, FORMAT.GP, FORMAT.GL, FORMAT.MEC, FORMAT.MECP]

    def run(samples, Fv, farr, report):
        prog = ce.program.__new__(ce.program)
        prog.info_fields = []
        prog.format_fields = [FORMAT.GT, FORMAT.GPM, FORMAT.SPM] + [getattr(FORMAT, r) for r in report]
        data = bc.LocusAssemblyData(
            locus=_Locus(haps, farr), samples=list(samples), sample_bams={s: "x" for s in samples}, sample_ploidy={s: P for s in samples},
            sample_inbreeding={s: Fv for s in samples}, read_calls={s: rnp.zeros((1, 1), dtype=int) for s in samples},
            read_dists={s: s for s in samples}, read_counts={s: None for s in samples}, infofields=[], formatfields=prog.format_fields,
            columndata={COLUMN.REF: None, COLUMN.ALT: None, COLUMN.FILTER: []}, infodata={}, sampledata={f: {} for f in fields})
        out = prog.call_sample_genotypes(data)
        sd = out.sampledata
        return {k: sd[getattr(FORMAT, k)].get("A") for k in ("GT", "GPM", "SPM", "AFP", "ACP", "AOP", "GP")}

    def body(ctx):
        F = E.fresh_real(ctx, "F", 0, 1) if c["inbred"] else None
        Fv = E.SymReal(F) if F is not None else 0
        farr = E.real_array(E.simplex(ctx, "f", A)) if c.get("symf", True) else E.real_array([E.SymReal(z3.RealVal(E.Fraction(1, A)))] * A)
        rep = ("GP", "AFP")
        return [run(["A"], Fv, farr, rep), run(["A", "B"], Fv, farr, rep), run(["Bprime", "A"], Fv, farr, rep)]

    first = True
    for pr in E.explore(body, stats=col.stats):
        if pr.exc is not None:
            col.fail(site, "exception", witness=dict(exc=repr(pr.exc.__cause__ or pr.exc)), desc="raised %r" % (pr.exc,))
            continue
        col.path()
        if first:
            col.reachable(pr.ctx)
            first = False
        alone, withb, swapped = pr.value
        for other, name in ((withb, "with sample B"), (swapped, "after a different sample B', in swapped order")):
            if list(alone["GT"]) != list(other["GT"]):
                col.fail(site, "column-depends-on-others", shape=dict(prog="call-exact"), witness=dict(GT_alone=[int(x) for x in alone["GT"]], GT_other=[int(x) for x in other["GT"]]),
                         desc="GT of sample A differs %s" % name, model=E.model_dict(E.prove(pr.ctx, False).model))
                continue
            cl = z3.And([_same(alone[k], other[k]) for k in ("GPM", "SPM", "AFP", "ACP", "AOP", "GP")])
            col.check(pr.ctx, cl, site, "column-depends-on-others", shape=dict(prog="call-exact"), witness=dict(vs=name),
                      desc="call-exact: GT/GPM/SPM/AFP/ACP/AOP/GP of sample A identical alone and %s (symbolic likelihoods, the other sample's are unrelated variables)" % name)


# ------------------------------------------------------------------ call (sampler arguments)


def _run_call(c, col):
    call = E.load("mchap.application.call")
    bc, FORMAT, INFO, COLUMN = _mods()
    cc = E.load("mchap.calling.classes")
    call.qual_of_prob = lambda p: 0
    call.minimum_error_correction = lambda calls, haps: rnp.zeros(1)
    site = "mchap.application.call.program.call_sample_genotypes"
    nA, P = 3, 2
    haps = rnp.arange(nA).reshape(nA, 1).astype(rnp.int8)
    fields = [FORMAT.GT, FORMAT.GQ, FORMAT.GPM, FORMAT.SPM, FORMAT.SQ, FORMAT.MCI, FORMAT.ACP, FORMAT.AFP, FORMAT.AOP, FORMAT.GP, FORMAT.GL, FORMAT.MEC, FORMAT.MECP]

    def run(samples, fs, seed_of):
        calls = {}

        class FakeMCMC:
            def __init__(self, **kw):
                self.kw = kw

            def fit(self, reads, read_counts):
                calls[reads] = dict(self.kw, reads=reads, read_counts=read_counts)
                n = len(self.kw["haplotypes"])
                g = rnp.zeros((1, 2, P), dtype=rnp.int8)
                g[0, :, 1] = min(n - 1, seed_of[reads])
                return cc.GenotypeAllelesMultiTrace(g, rnp.zeros((1, 2)), n)

        call.CallingMCMC = FakeMCMC
        prog = call.program.__new__(call.program)
        prog.info_fields = []
        prog.format_fields = [FORMAT.GT, FORMAT.GPM, FORMAT.SPM, FORMAT.AFP, FORMAT.GP]
        for k, v in dict(mcmc_steps=2, mcmc_chains=1, random_seed=11, mcmc_burn=0, mcmc_incongruence_threshold=0.6).items():
            setattr(prog, k, v)
        data = bc.LocusAssemblyData(
            locus=_Locus(haps, fs), samples=list(samples), sample_bams={s: "x" for s in samples}, sample_ploidy={s: P for s in samples},
            sample_inbreeding={s: 0.0 for s in samples}, read_calls={s: rnp.zeros((1, 1), dtype=int) for s in samples},
            read_dists={s: s for s in samples}, read_counts={s: "counts-" + s for s in samples}, infofields=[], formatfields=prog.format_fields,
            columndata={COLUMN.REF: None, COLUMN.ALT: None, COLUMN.FILTER: []}, infodata={}, sampledata={f: {} for f in fields})
        out = prog.call_sample_genotypes(data)
        sd = out.sampledata
        return calls["A"], {k: sd[getattr(FORMAT, k)].get("A") for k in ("GT", "GPM", "SPM", "AFP", "GP")}

    def body(ctx):
        zero = bool(int(E.SymInt(E.fresh_int(ctx, "zero2", 0, 1))))
        fs = E.real_array([E.SymReal(E.fresh_real(ctx, "f0", 0, 1)), E.SymReal(E.fresh_real(ctx, "f1", 0, 1)), 0.0 if zero else E.SymReal(E.fresh_real(ctx, "f2", 0, 1))])
        tb = int(E.SymInt(E.fresh_int(ctx, "traceB", 0, 2)))
        return [run(["A"], fs, {"A": 1}), run(["A", "B"], fs, {"A": 1, "B": tb}), run(["B", "A"], fs, {"A": 1, "B": tb})]

    first = True
    for pr in E.explore(body, stats=col.stats):
        if pr.exc is not None:
            col.fail(site, "exception", witness=dict(exc=repr(pr.exc.__cause__ or pr.exc)), desc="raised %r" % (pr.exc,))
            continue
        col.path()
        if first:
            col.reachable(pr.ctx)
            first = False
        (k0, o0), (k1, o1), (k2, o2) = pr.value
        for kk, oo, name in ((k1, o1, "with B"), (k2, o2, "B first")):
            keys = sorted(set(k0) | set(kk))
            diff = [k for k in keys if not _kw_equal(k0.get(k), kk.get(k))]
            if diff or list(o0["GT"]) != list(oo["GT"]):
                col.fail(site, "column-depends-on-others", shape=dict(prog="call"), witness=dict(differing_sampler_arguments=diff, vs=name), desc="sampler arguments / GT of sample A depend on the other sample: %s" % diff)
            else:
                col.check(pr.ctx, z3.And([_same(o0[k], oo[k]) for k in ("GPM", "SPM", "AFP", "GP")]), site, "column-depends-on-others", shape=dict(prog="call"), witness=dict(vs=name),
                          desc="call: sample A's sampler receives identical arguments (incl. seed) and its column is identical alone and %s" % name)


def _kw_equal(a, b):
    if isinstance(a, rnp.ndarray) or isinstance(b, rnp.ndarray):
        a, b = rnp.asarray(a, dtype=object), rnp.asarray(b, dtype=object)
        if a.shape != b.shape:
            return False
        return all((x is y) or (not isinstance(x, E.Sym) and not isinstance(y, E.Sym) and x == y) or (isinstance(x, E.Sym) and isinstance(y, E.Sym) and E.real_term(x).eq(E.real_term(y)))
                   for x, y in zip(a.ravel(), b.ravel()))
    return a == b


# ------------------------------------------------------------------ assemble


def _run_assemble(c, col):
    from checks import c13

    asm = E.load("mchap.application.assemble")
    bc, FORMAT, INFO, COLUMN = _mods()
    cl = E.load("mchap.assemble.classes")
    asm.qual_of_prob = lambda p: 0
    asm.natural_log_to_log10 = lambda x: x
    asm.minimum_error_correction = lambda calls, haps: rnp.zeros(1)
    scen = c13.SCENARIOS[c["scenario"]]
    allsamples = ["s%d" % i for i in range(len(scen))]
    site = "mchap.application.assemble.program.call_sample_genotypes"
    fields = [FORMAT.GT, FORMAT.GQ, FORMAT.GPM, FORMAT.SPM, FORMAT.SQ, FORMAT.MCI, FORMAT.ACP, FORMAT.AFP, FORMAT.AOP, FORMAT.GP, FORMAT.GL, FORMAT.MEC, FORMAT.MECP]

    def run(samples, posts, thr):
        class FakeTrace:
            def __init__(self, s):
                self.s = s

            def burn(self, n):
                return self

            def posterior(self):
                return posts[self.s]

            def replicate_incongruence(self, threshold=0.6):
                return 0

        class FakeMCMC:
            def __init__(self, **kw):
                pass

            def fit(self, reads, read_counts):
                return FakeTrace(reads)

        asm.DenovoMCMC = FakeMCMC
        prog = asm.program.__new__(asm.program)
        prog.info_fields = []
        prog.format_fields = [FORMAT.GT, FORMAT.GPM, FORMAT.SPM, FORMAT.AFP, FORMAT.AOP, FORMAT.ACP]
        for k, v in dict(mcmc_steps=1, mcmc_chains=1, mcmc_fix_homozygous=0.999, mcmc_recombination_step_probability=0.5, mcmc_partial_dosage_step_probability=0.5,
                         mcmc_dosage_step_probability=1.0, sample_mcmc_temperatures={s: (1.0,) for s in samples}, random_seed=1, mcmc_llk_cache_threshold=100,
                         mcmc_burn=0, mcmc_incongruence_threshold=0.6).items():
            setattr(prog, k, v)
        prog.haplotype_posterior_threshold = thr
        data = bc.LocusAssemblyData(
            locus=c13._Locus(), samples=list(samples), sample_bams={s: "x" for s in samples}, sample_ploidy={s: len(scen[allsamples.index(s)][0]) for s in samples},
            sample_inbreeding={s: 0 for s in samples}, read_calls={s: rnp.zeros((1, 2), dtype=int) for s in samples},
            read_dists={s: s for s in samples}, read_counts={s: None for s in samples}, infofields=[], formatfields=prog.format_fields,
            columndata={COLUMN.REF: None, COLUMN.ALT: None, COLUMN.FILTER: []}, infodata={}, sampledata={f: {} for f in fields})
        out = prog.call_sample_genotypes(data)
        alts = list(out.columndata[COLUMN.ALT])
        names = ["AA"] + alts
        sd = out.sampledata
        gt = [int(a) for a in sd[FORMAT.GT]["s0"]]
        afp = sd[FORMAT.AFP]["s0"]
        return dict(GT=[names[a] if a >= 0 else "." for a in gt], GPM=sd[FORMAT.GPM]["s0"], SPM=sd[FORMAT.SPM]["s0"],
                    AFP={names[i]: afp[i] for i in range(len(names))}, masked=bool(out.infodata[INFO.REFMASKED]))

    def body(ctx):
        posts = {}
        if _REPLAY is not None:
            # replay on the real modules: the solver's point as plain floats
            thr = float(_REPLAY.get("thr", 0.5))
            for s, gs in zip(allsamples, scen):
                ps = [float(_REPLAY.get("p_%s_%d" % (s, i), 1.0 / len(gs))) for i in range(len(gs) - 1)]
                ps.append(1.0 - sum(ps))
                posts[s] = cl.PosteriorGenotypeDistribution(rnp.array(gs, dtype=rnp.int8), rnp.array(ps))
            return run(["s0"], posts, thr), run(allsamples, posts, thr), run(list(reversed(allsamples)), posts, thr)
        thr = E.SymReal(E.fresh_real(ctx, "thr", 0, 1, lo_strict=False, hi_strict=False))
        for s, gs in zip(allsamples, scen):
            ps = [z3.Real("p_%s_%d" % (s, i)) for i in range(len(gs) - 1)]
            ps.append(1 - (z3.Sum(ps) if len(ps) > 1 else ps[0]) if ps else z3.RealVal(1))
            for p in ps:
                ctx.assume(p >= 0)
            posts[s] = cl.PosteriorGenotypeDistribution(rnp.array(gs, dtype=rnp.int8), E.real_array(ps))
        return run(["s0"], posts, thr), run(allsamples, posts, thr), run(list(reversed(allsamples)), posts, thr)

    first = True
    for pr in E.explore(body, stats=col.stats):
        if pr.exc is not None:
            col.fail(site, "exception", witness=dict(exc=repr(pr.exc.__cause__ or pr.exc)), desc="raised %r" % (pr.exc,))
            continue
        col.path()
        if first:
            col.reachable(pr.ctx)
            first = False
        alone, withb, rev = pr.value
        for other, name in ((withb, "with the other samples"), (rev, "with the BAM order reversed")):
            # called haplotype sequences: identical, except that '.' may become a named allele
            a_named = sorted(x for x in alone["GT"] if x != ".")
            o_named = sorted(other["GT"])
            ok = len(alone["GT"]) == len(other["GT"]) and all(x in o_named for x in a_named) and _multiset_sub(a_named, [x for x in other["GT"] if x != "."])
            if not ok:
                col.fail(site, "assemble-call-changed", witness=dict(alone=alone["GT"], other=other["GT"], vs=name), desc="sample s0's called haplotypes changed %s: %s -> %s" % (name, alone["GT"], other["GT"]),
                         model=E.model_dict(E.prove(pr.ctx, False).model))
                continue
            cl_ = [_same(alone["GPM"], other["GPM"]), _same(alone["SPM"], other["SPM"])]
            for hname, v in alone["AFP"].items():
                if hname in other["AFP"] and not (hname == "AA" and (alone["masked"] or other["masked"])):
                    cl_.append(_same(v, other["AFP"][hname]))
            col.check(pr.ctx, z3.And(cl_), site, "assemble-stats-changed", witness=dict(vs=name), desc="assemble: GPM/SPM and AFP of the haplotypes listed in both runs are unchanged for sample s0 %s; GT only gains names for '.'" % name)


def _multiset_sub(a, b):
    b = list(b)
    for x in a:
        if x not in b:
            return False
        b.remove(x)
    return True


# ------------------------------------------------------------------ pools


def _run_pools(c, col):
    import os
    import tempfile

    args = E.load("mchap.application.arguments")
    site = "mchap.application.arguments.parse_sample_pools"
    samples = ["a", "b", "c"]
    bams = {s: s + ".bam" for s in samples}

    def body(ctx):
        assign = [int(E.SymInt(E.fresh_int(ctx, "pool_%s" % s, 0, 2))) for s in samples]  # 0: pool X, 1: pool Y, 2: both
        lines = []
        for s, a in zip(samples, assign):
            if a in (0, 2):
                lines.append("%s\tX" % s)
            if a in (1, 2):
                lines.append("%s\tY" % s)
        fd, path = tempfile.mkstemp(prefix="mchap-pools-")
        os.write(fd, ("\n".join(lines) + "\n").encode())
        os.close(fd)
        try:
            pools, pool_bams = args.parse_sample_pools(samples, bams, path)
        finally:
            os.unlink(path)
        return assign, pools, pool_bams

    for pr in E.explore(body, stats=col.stats):
        if pr.exc is not None:
            col.fail(site, "exception", witness=dict(exc=repr(pr.exc)), desc="raised %r" % (pr.exc,))
            continue
        col.path()
        col.reachable(pr.ctx)
        assign, pools, pool_bams = pr.value
        want = {}
        for s, a in zip(samples, assign):
            for p, on in (("X", a in (0, 2)), ("Y", a in (1, 2))):
                if on:
                    want.setdefault(p, []).append((s, bams[s]))
        if dict(pool_bams) != want or sorted(pools) != sorted(want):
            col.fail(site, "pool-membership", witness=dict(assign=assign, got={k: v for k, v in pool_bams.items()}, want=want), desc="pool -> (sample, bam) pairs wrong")
        else:
            col.ok("every pool is the list of its members' (sample, bam) pairs, a sample may sit in several pools (assignment solver-enumerated); the read matrices are concatenated in C06")


# ------------------------------------------------------------------ replay


def replay(v):
    """the same self-composition on the REAL modules with concrete numbers from the model"""
    c = v["config"]
    m = v.get("model") or {}
    if c["group"] == "exact":
        return _replay_exact(c, m)
    if c["group"] == "encode":
        from checks import c06

        return c06._replay_encode(v)
    if c["group"] == "wiring":
        from checks import wiring

        return wiring.replay_real(v, wiring.run)
    if c["group"] in ("call", "assemble", "pools"):
        return _replay_driver(c, m, v)
    return False, "kind?"


def _replay_exact(c, m):
    import math
    import warnings
    from mchap.application import call_exact as rce, baseclass as rbc
    from mchap.calling import exact as rex
    import mchap.io.vcf.formatfields as FORMAT
    import mchap.io.vcf.columns as COLUMN

    P, A = c["P"], c["A"]
    haps = rnp.arange(A).reshape(A, 1).astype(rnp.int8)
    F = float(m.get("F", 0.3)) if c["inbred"] else 0.0
    if c.get("symf", True):
        f = [float(m.get("f%d" % i, 1.0 / A)) for i in range(A - 1)]
        f.append(1 - sum(f))
    else:
        f = [1.0 / A] * A

    def table(reads, genotype):
        if reads != "A":
            h = sum((i + 2) * (int(r[0]) + 1) for i, r in enumerate(genotype)) + (7 if reads == "B" else 11)
            return (1 + h % 9) / 8.0
        return float(m.get("L_A_" + "_".join(str(int(r[0])) for r in genotype), 1.0))

    names = ("_call_posterior_mode", "_posterior_allele_frequencies", "_genotype_likelihoods")
    saved = {n: getattr(rex, n) for n in names}
    saved_llk, saved_mec = rex.log_likelihood, rce.minimum_error_correction
    fields = [FORMAT.GT, FORMAT.GQ, FORMAT.GPM, FORMAT.SPM, FORMAT.SQ, FORMAT.MCI, FORMAT.ACP, FORMAT.AFP, FORMAT.AOP, FORMAT.GP, FORMAT.GL, FORMAT.MEC, FORMAT.MECP]
    outs = []
    try:
        for n in names:
            setattr(rex, n, getattr(saved[n], "py_func", saved[n]))
        rex.log_likelihood = lambda reads, genotype, read_counts=None: math.log(table(reads, genotype))
        rce.minimum_error_correction = lambda calls, hh: rnp.zeros(1)
        for samples in (["A"], ["A", "B"], ["Bprime", "A"]):
            prog = rce.program.__new__(rce.program)
            prog.info_fields = []
            prog.format_fields = [FORMAT.GT, FORMAT.GPM, FORMAT.SPM, FORMAT.GP, FORMAT.AFP]
            data = rbc.LocusAssemblyData(
                locus=_Locus(haps, rnp.array(f)), samples=list(samples), sample_bams={s: "x" for s in samples}, sample_ploidy={s: P for s in samples},
                sample_inbreeding={s: F for s in samples}, read_calls={s: rnp.zeros((1, 1), dtype=int) for s in samples},
                read_dists={s: s for s in samples}, read_counts={s: None for s in samples}, infofields=[], formatfields=prog.format_fields,
                columndata={COLUMN.REF: None, COLUMN.ALT: None, COLUMN.FILTER: []}, infodata={}, sampledata={f_: {} for f_ in fields})
            with warnings.catch_warnings():
                warnings.simplefilter("ignore")
                out = prog.call_sample_genotypes(data)
            sd = out.sampledata
            outs.append(dict(GT=[int(a) for a in sd[FORMAT.GT]["A"]], GPM=float(sd[FORMAT.GPM]["A"]), SPM=float(sd[FORMAT.SPM]["A"]), GP=rnp.asarray(sd[FORMAT.GP]["A"], dtype=float)))
    finally:
        for n in names:
            setattr(rex, n, saved[n])
        rex.log_likelihood, rce.minimum_error_correction = saved_llk, saved_mec
    a0 = outs[0]
    for o, name in zip(outs[1:], ("together with sample B", "after sample B' (order swapped)")):
        if o["GT"] != a0["GT"] or abs(o["GPM"] - a0["GPM"]) > 1e-9 or abs(o["SPM"] - a0["SPM"]) > 1e-9 or rnp.abs(o["GP"] - a0["GP"]).max() > 1e-6:
            return True, "sample A alone: GT=%s GPM=%.5f GP=%s ; %s: GT=%s GPM=%.5f GP=%s" % (a0["GT"], a0["GPM"], rnp.round(a0["GP"], 4).tolist(), name, o["GT"], o["GPM"], rnp.round(o["GP"], 4).tolist())
    return False, "sample A's column is identical in the three real runs"


_REPLAY = None  # the solver's model while a driver is re-run on the real modules


def _replay_driver(c, m, v):
    """call / assemble / pools: run the same driver with the real modules in place of the shadow ones and the model's values"""
    import importlib

    real = {n: importlib.import_module(n) for n in ("mchap.application.call", "mchap.application.assemble", "mchap.application.baseclass", "mchap.io.vcf.formatfields",
                                                    "mchap.io.vcf.infofields", "mchap.io.vcf.columns", "mchap.calling.classes", "mchap.assemble.classes", "mchap.application.arguments",
                                                    "mchap.application.call_exact", "mchap.application.call_pedigree", "mchap.calling.exact", "mchap.pedigree.classes", "mchap.assemble.mcmc")}
    saved_attrs = [(real[mn], a_, getattr(real[mn], a_)) for mn, a_ in (("mchap.application.call", "CallingMCMC"), ("mchap.application.call", "minimum_error_correction"), ("mchap.application.call", "qual_of_prob"),
                                                                   ("mchap.application.assemble", "DenovoMCMC"), ("mchap.application.assemble", "minimum_error_correction"),
                                                                   ("mchap.application.assemble", "qual_of_prob"), ("mchap.application.assemble", "natural_log_to_log10"),
                                                                   ("mchap.application.call_exact", "minimum_error_correction"), ("mchap.application.call_exact", "genotype_likelihoods"),
                                                                   ("mchap.application.call_exact", "genotype_posteriors"), ("mchap.application.call_exact", "posterior_mode"),
                                                                   ("mchap.application.call_pedigree", "minimum_error_correction"), ("mchap.application.call_pedigree", "PedigreeCallingMCMC"),
                                                                   ("mchap.application.call_exact", "qual_of_prob"), ("mchap.application.call_exact", "natural_log_to_log10"),
                                                                   ("mchap.application.call_pedigree", "qual_of_prob"), ("mchap.application.call_pedigree", "natural_log_to_log10"))]
    saved = (E.load, E.fresh_int, E.fresh_real)
    E.load = lambda name, keep_init=False: real[name]
    E.fresh_int = lambda ctx, name, lo, hi: z3.IntVal(max(lo, min(hi, int(m.get(name, lo)))))

    def fr(ctx, name, lo=None, hi=None, lo_strict=True, hi_strict=True):
        return z3.RealVal(repr(float(m.get(name, 0.5))))

    E.fresh_real = fr
    from checks.c07 import _OneShot

    col = _OneShot()
    col.check = lambda ctx, claim, site, kind, **k: (col.fails.append((kind, k.get("desc"), k.get("witness"))) if not z3.is_true(z3.simplify(claim)) else None)
    global _REPLAY
    _REPLAY = dict(m)
    try:
        globals()["_run_" + c["group"]](c, col)
    except Exception as e:
        return False, "replay driver failed: %r" % (e,)
    finally:
        _REPLAY = None
        E.load, E.fresh_int, E.fresh_real = saved
        for mod, a_, val in saved_attrs:
            setattr(mod, a_, val)
    if col.fails:
        return True, "real modules: %s" % (col.fails[0][1],)
    return False, "real modules: sample column unchanged"


def validate(seed):
    """translator validation is shared with C03/C13/C16 (same shadow modules); here: parse_sample_pools shadow vs real"""
    import os
    import tempfile
    from mchap.application import arguments as rargs

    E.use_summaries(True)
    E.reset_modules()
    E.cfg.concrete_ints = True
    sargs = E.load("mchap.application.arguments")
    n = 0
    for text in ("a\tX\nb\tX\nc\tY\n", "a\tX\nb\tY\nc\tY\na\tY\n"):
        fd, path = tempfile.mkstemp(prefix="mchap-pools-")
        os.write(fd, text.encode())
        os.close(fd)
        try:
            a = rargs.parse_sample_pools(["a", "b", "c"], {"a": "a.bam", "b": "b.bam", "c": "c.bam"}, path)
            b = sargs.parse_sample_pools(["a", "b", "c"], {"a": "a.bam", "b": "b.bam", "c": "c.bam"}, path)
        finally:
            os.unlink(path)
        assert a[0] == b[0] and dict(a[1]) == dict(b[1])
        n += 1
    return n
