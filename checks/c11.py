"""C11 -- genotype <-> G-field index mapping is the VCF order and a bijection; exact coefficients."""
import math

import numpy as rnp
import z3

from nbsym import engine as E
from oracle import models as M

ID = "C11"
TITLE = "genotype_alleles_as_index / index_as_genotype_alleles / increment_genotype realise the VCF genotype order bijectively; _comb exact (and int64-safe) inside and beyond the lookup table"
TECHNIQUE = 'symbolic execution of the combinatorial number system code with z3 (symbolic n for k<=2; table lookups concretised by solver enumeration), int64 side conditions as solver queries'
ENCODED = ["mchap.jitutils.genotype_alleles_as_index", "mchap.jitutils.index_as_genotype_alleles", "mchap.jitutils.increment_genotype",
           "mchap.jitutils.comb", "mchap.jitutils._comb", "mchap.jitutils.comb_with_replacement", "mchap.jitutils._comb_with_replacement",
           "mchap.jitutils._greatest_common_denominatior", "mchap.calling.utils.posterior_as_array"]
STUBS = []
ASSUMES = ["allele tuples are sorted ascending (the documented precondition)",
           "symbolic alleles/indices are concretised path by path by the solver (table lookups are a C boundary); _comb is symbolic in n for k <= 2",
           "int64 side condition: every intermediate of _comb is checked against 2^63 by a solver query on the path"]
BOUNDS = {"quick": "comb / comb_with_replacement on the grid n <= 110, k <= 22 (table, its borders and beyond); ploidy 12-13 x <= 3 alleles; ploidy 1..4 x alleles <= 8 (all genotypes/indices); beyond the table: ploidy 2 x alleles 99..130; _comb symbolic n in [0, 2^31] for k <= 2; k in 3..5 with n in [97,140] solver-enumerated",
          "thorough": "ploidy 1..4 x alleles <= 12, ploidy 5 x alleles <= 10, ploidy 6 x alleles <= 8; ploidy 12-13 x 3 alleles, ploidy 16 and 20 x 2 alleles; beyond the table ploidy 2..3 x alleles 99..140; k in 3..8 with n in [92,160], k in 12..16 with n in [k,70]"}
OUTSIDE = "mchap.combinatorics.count_unique_genotypes (scipy.special.comb float code: not encodable); ploidy/alleles beyond the bound"
TASKS_PER_CHILD = 8


def configs(tier):
    out = []
    quick = tier == "quick"
    for P in ((1, 2, 3, 4) if quick else (1, 2, 3, 4, 5, 6)):
        Amax = 8 if quick else (12 if P <= 4 else (10 if P == 5 else 8))  # (P=6 x 12 alleles = 12376 genotypes per group: sized out)
        for top in range(Amax):
            out.append(dict(group="index", P=P, top=top))
        out.append(dict(group="unindex", P=P, A=Amax))
    for P in ((2,) if quick else (2, 3)):
        for top in range(99, 131 if quick else 141, 4 if P == 2 else 8):
            out.append(dict(group="index", P=P, top=top, lowmax=3 if P == 3 else None))
    for k in (0, 1, 2):
        out.append(dict(group="comb-sym", k=k))
    for k in ((3, 4, 5) if quick else (3, 4, 5, 6, 7, 8)):
        lo, hi = (97, 140) if quick else (92, 160)
        for n0 in range(lo, hi + 1, 11):
            out.append(dict(group="comb-enum", k=k, lo=n0, hi=min(hi, n0 + 10)))
    if not quick:
        for k in (12, 13, 14, 16):
            out.append(dict(group="comb-enum", k=k, lo=k, hi=70))
    out.append(dict(group="posterior-array"))
    # the whole table region and its borders, both argument orders (ploidy >= 12 lives here)
    for k0 in range(0, 21 if quick else 41, 3):
        out.append(dict(group="grid", klo=k0, khi=k0 + 2, nmax=110 if quick else 130))
    # (ploidy 20 with three alleles -- 231 genotypes at ~5 s of solver time each -- and ploidy 16 with three alleles were the long
    # tail of the thorough tier, > 20 min on their own: sized out; ploidy 16 and 20 keep the two-allele configurations)
    for P in ((12, 13) if quick else (12, 13, 16, 20)):
        if P <= 13:
            out.append(dict(group="index", P=P, top=2))
        out.append(dict(group="index", P=P, top=1))
    return out


def _order_index(g):
    """closed form of the VCF genotype rank: sum_i C(a_i + i, i + 1)"""
    return sum(math.comb(a + i, i + 1) for i, a in enumerate(g))


def run_config(c, col):
    E.use_summaries(True)
    E.reset_modules()
    E.cfg.concrete_ints = True
    ju = E.load("mchap.jitutils")
    prof = E.Profile()
    E.cfg.note_int_truediv = True
    try:
        with prof:
            getattr(_G, c["group"].replace("-", "_"))(c, col, ju)
    finally:
        E.cfg.note_int_truediv = False
    col.functions |= set(prof.names())


def _float_events(pr, col, site, c):
    """the kernels are integer code: a true division of two integers makes the value a float64 under numba, exact only
    below 2^53 -- reported as a candidate and decided by the replay at the 2^53 boundary of the property"""
    evs = [e for e in pr.ctx.events if e["kind"] == "int-truediv"]
    if evs:
        col.fail(site, "float-arithmetic", shape=dict(group=c["group"]), witness=dict(first=evs[0], n=len(evs), P=c.get("P", c.get("k"))),
                 desc="integer kernel applies '/' to integers (%s / %s): float64 arithmetic, inexact for intermediates >= 2^53 although N < 2^53" % (evs[0]["a"], evs[0]["b"]))
    else:
        col.ok("no floating-point operation on the path (integer-only arithmetic: exact)")


class _G:
    @staticmethod
    def index(c, col, ju):
        """symbolic sorted tuple with the given top allele: index == closed-form rank; strictly monotone
        in VCF order is implied by equality with the rank; range 0 <= index < N"""
        P, top = c["P"], c["top"]
        site = "mchap.jitutils.genotype_alleles_as_index"

        def body(ctx):
            vs = [E.fresh_int(ctx, "a%d" % i, 0, top) for i in range(P)]
            for i in range(P - 1):
                ctx.assume(vs[i] <= vs[i + 1])
            ctx.assume(vs[-1] == top)
            if c.get("lowmax") is not None:
                for v in vs[:-1]:
                    ctx.assume(z3.Or(v <= c["lowmax"], v >= top - 1))
            g = E.SArray(P, rnp.int64)
            for i, v in enumerate(vs):
                rnp.ndarray.__setitem__(g, i, E.SymInt(v))
            idx = ju.genotype_alleles_as_index(g)
            gc = [int(x) for x in g]
            back = ju.index_as_genotype_alleles(int(idx), P)
            nxt = rnp.array(gc, dtype=rnp.int64)
            ju.increment_genotype(nxt)
            return gc, int(idx), [int(x) for x in back], [int(x) for x in nxt], int(ju.genotype_alleles_as_index(nxt))

        first = True
        for pr in E.explore(body, stats=col.stats):
            if pr.exc is not None:
                col.fail(site, "exception", witness=dict(exc=repr(pr.exc), model=E.model_dict(_m(pr.ctx))), desc="raised %r" % (pr.exc,), shape=dict(beyond_table=top >= 99))
                continue
            col.path()
            if first:
                col.reachable(pr.ctx)
                first = False
            g, idx, back, nxt, idx_n = pr.value
            _float_events(pr, col, site, c)
            sh = dict(beyond_table=top >= 99)
            if idx != _order_index(g) or not (0 <= idx < math.comb(top + 1 + P - 1, P)):
                col.fail(site, "index-vs-vcf-order", shape=sh, witness=dict(g=g, got=idx, want=_order_index(g)), desc="index != VCF rank")
            else:
                col.ok("index(g) == VCF rank sum_i C(a_i+i, i+1) and 0 <= index < N (alleles solver-enumerated)")
            if back != g:
                col.fail("mchap.jitutils.index_as_genotype_alleles", "round-trip", shape=sh, witness=dict(g=g, index=idx, back=back), desc="index_as_genotype_alleles(index(g)) != g")
            else:
                col.ok("index_as_genotype_alleles(index(g)) == g")
            if idx_n != idx + 1 or nxt != sorted(nxt):
                col.fail("mchap.jitutils.increment_genotype", "successor", shape=sh, witness=dict(g=g, next=nxt, index=idx, next_index=idx_n), desc="increment_genotype is not the successor in VCF order")
            else:
                col.ok("increment_genotype maps rank i to rank i+1")

    @staticmethod
    def unindex(c, col, ju):
        """symbolic index in [0, N): result sorted, within range, and maps back to the index"""
        P, A = c["P"], c["A"]
        N = math.comb(A + P - 1, P)
        site = "mchap.jitutils.index_as_genotype_alleles"
        order = M.vcf_order(A, P) if N <= 20000 else None

        def body(ctx):
            i = E.fresh_int(ctx, "i", 0, N - 1)
            out = ju.index_as_genotype_alleles(E.SymInt(i), P)
            g = [int(x) for x in out]
            return int(E.SymInt(i)), g

        first = True
        seen = set()
        for pr in E.explore(body, stats=col.stats):
            if pr.exc is not None:
                col.fail(site, "exception", witness=dict(exc=repr(pr.exc), model=E.model_dict(_m(pr.ctx))), desc="raised %r" % (pr.exc,))
                continue
            col.path()
            if first:
                col.reachable(pr.ctx)
                first = False
            i, g = pr.value
            seen.add(i)
            _float_events(pr, col, site, c)
            if g != list(order[i]):
                col.fail(site, "index-to-genotype", witness=dict(index=i, got=g, want=list(order[i])), desc="index_as_genotype_alleles(i) != i-th genotype in VCF order")
            else:
                col.ok("index_as_genotype_alleles(i) == i-th genotype of the explicit VCF enumeration")
        if len(seen) != N:
            col.fail(site, "coverage", witness=dict(N=N, seen=len(seen)), desc="not every index reached")

    @staticmethod
    def comb_sym(c, col, ju):
        k = c["k"]
        site = "mchap.jitutils._comb"
        E.cfg.check_int64 = True

        def body(ctx):
            n = E.fresh_int(ctx, "n", 0, 2 ** 31)
            return n, ju._comb(E.SymInt(n), k)

        try:
            for pr in E.explore(body, stats=col.stats):
                if pr.exc is not None:
                    col.fail(site, "exception", witness=dict(exc=repr(pr.exc)), desc="raised %r" % (pr.exc,))
                    continue
                col.path()
                n, r = pr.value
                col.reachable(pr.ctx)
                fall = z3.IntVal(1)
                for i in range(k):
                    fall = fall * (n - i)
                want = z3.If(n >= k, fall, 0)
                col.check(pr.ctx, E._z(r).e * math.factorial(k) == want, site, "comb-exact", witness=dict(k=k), shape=dict(k=k),
                          desc="_comb(n,%d) * %d! == n(n-1)...(n-%d+1) for all n in [0, 2^31]" % (k, k, k))
                for ev in pr.ctx.events:
                    col.fail(site, ev["kind"], witness=dict(ev, k=k), desc="int64 overflow in _comb")
        finally:
            E.cfg.check_int64 = False

    @staticmethod
    def comb_enum(c, col, ju):
        k = c["k"]
        site = "mchap.jitutils._comb"
        E.cfg.check_int64 = True

        def body(ctx):
            n = E.fresh_int(ctx, "n", c["lo"], c["hi"])
            sn = E.SymInt(n)
            nv = int(sn)  # solver-enumerated
            return nv, ju._comb(sn, k), ju.comb(nv, k), ju.comb_with_replacement(nv - k + 1, k) if nv - k + 1 >= 1 else None

        try:
            for pr in E.explore(body, stats=col.stats):
                if pr.exc is not None:
                    col.fail(site, "exception", witness=dict(exc=repr(pr.exc)), desc="raised %r" % (pr.exc,))
                    continue
                col.path()
                nv, r, r2, r3 = pr.value
                _float_events(pr, col, site, c)
                want = math.comb(nv, k)
                if want >= 2 ** 53:
                    continue
                col.check(pr.ctx, E._z(r).e == want, site, "comb-exact", witness=dict(n=nv, k=k), shape=dict(k=k), desc="_comb(n,k) == C(n,k) (n solver-enumerated beyond the table)")
                if int(r2) != want or (r3 is not None and int(r3) != want):
                    col.fail("mchap.jitutils.comb", "comb-exact", witness=dict(n=nv, k=k, got=[int(r2), None if r3 is None else int(r3)], want=want), desc="comb / comb_with_replacement wrong")
                else:
                    col.ok("comb(n,k) and comb_with_replacement(n-k+1,k) == C(n,k)")
                for ev in pr.ctx.events:
                    col.fail(site, ev["kind"], witness=dict(ev, n=nv, k=k), desc="int64 overflow in _comb although C(n,k) < 2^53")
        finally:
            E.cfg.check_int64 = False

    @staticmethod
    def grid(c, col, ju):
        """comb / comb_with_replacement on a solver-enumerated grid around and beyond the 100 x 12 tables"""
        site = "mchap.jitutils.comb_with_replacement"

        def body(ctx):
            n = int(E.SymInt(E.fresh_int(ctx, "n", 0, c["nmax"])))
            k = int(E.SymInt(E.fresh_int(ctx, "k", c["klo"], c["khi"])))
            return n, k, int(ju.comb(n, k)), int(ju.comb_with_replacement(n, k))

        first = True
        for pr in E.explore(body, stats=col.stats):
            if pr.exc is not None:
                col.fail(site, "exception", witness=dict(exc=repr(pr.exc), model=E.model_dict(_m(pr.ctx))), desc="raised %r" % (pr.exc,))
                continue
            col.path()
            if first:
                col.reachable(pr.ctx)
                first = False
            n, k, a, b = pr.value
            _float_events(pr, col, site, c)
            wa = math.comb(n, k)
            wb = math.comb(n + k - 1, k) if (n + k) > 0 else None  # (0,0): the code's own convention, not claimed
            bad = []
            if wa < 2 ** 53 and a != wa:
                bad.append("comb(%d,%d)=%d expected %d" % (n, k, a, wa))
            if wb is not None and wb < 2 ** 53 and b != wb:
                bad.append("comb_with_replacement(%d,%d)=%d expected %d" % (n, k, b, wb))
            if bad:
                col.fail(site, "coefficient-grid", witness=dict(n=n, k=k, problems=bad), shape=dict(in_table=bool(n < 100 and k < 12)), desc="; ".join(bad))
            else:
                col.ok("comb(n,k) and comb_with_replacement(n,k) exact on the grid n<=%d, k in %d..%d" % (c["nmax"], c["klo"], c["khi"]))

    @staticmethod
    def posterior_array(c, col, ju):
        cu = E.load("mchap.calling.utils")
        site = "mchap.calling.utils.posterior_as_array"
        for P, A in ((2, 3), (3, 3)):
            order = M.vcf_order(A, P)

            def body(ctx):
                n = 3
                gs = []
                for r in range(n):
                    vs = [E.fresh_int(ctx, "g%d_%d" % (r, i), 0, A - 1) for i in range(P)]
                    for i in range(P - 1):
                        ctx.assume(vs[i] <= vs[i + 1])
                    gs.append(vs)
                for r in range(n):
                    for q in range(r):
                        ctx.assume(z3.Or([gs[r][i] != gs[q][i] for i in range(P)]))
                obs = rnp.array([[int(E.SymInt(v)) for v in vs] for vs in gs])
                ps = [E.fresh_real(ctx, "p%d" % r, 0, 1) for r in range(n)]
                out = cu.posterior_as_array(obs, E.real_array(ps), len(order))
                return obs, ps, out

            for pr in E.explore(body, stats=col.stats):
                if pr.exc is not None:
                    raise pr.exc
                col.path()
                obs, ps, out = pr.value
                want = {tuple(int(a) for a in g): p for g, p in zip(obs, ps)}
                cl = [E.real_term(out[i]) == (want[g] if g in want else 0) for i, g in enumerate(order)]
                col.check(pr.ctx, z3.And(cl), site, "g-array", witness=dict(obs=obs.tolist()), desc="posterior_as_array puts each probability at its genotype's VCF index, zero elsewhere")


def _m(ctx):
    return E.prove(ctx, False, timeout=5000).model


# ------------------------------------------------------------------ replay


def _boundary_probes():
    """(ploidy, n_alleles) with N just below 2^53 (ploidy 2: 2^22 alleles) and genotypes/indices at block boundaries of the number system"""
    out = []
    for P in (2, 3, 4, 5, 6, 8, 10):
        lo, hi = 1, 2 ** 22  # (the inverse map scans the alleles linearly: keep ploidy 2 affordable)
        while lo < hi:  # largest n_alleles with C(n+P-1, P) < 2^53
            mid = (lo + hi + 1) // 2
            if math.comb(mid + P - 1, P) < 2 ** 53:
                lo = mid
            else:
                hi = mid - 1
        out.append((P, lo))
    return out


def _replay_float(v):
    """integer-exactness at the edge of the claim (N < 2^53): index <-> genotype round trips and coefficients on the real code"""
    from mchap import jitutils as rj

    for P, A in _boundary_probes():
        N = math.comb(A + P - 1, P)
        gs = [[A - 1] * P, [0] * (P - 1) + [A - 1], list(range(A - P, A)), [A - 2] * (P - 1) + [A - 1], [A // 2] * P, [A // 3] * (P - 1) + [A - 1]]
        for frac in (2, 3, 5, 7):
            a = A * (frac - 1) // frac
            gs.append([max(0, a - 1)] * (P - 1) + [a])
            gs.append([a] * P)
        for g in gs:
            g = sorted(g)
            rank = _order_index(g)
            got = int(rj.genotype_alleles_as_index(rnp.array(g, dtype=rnp.int64)))
            if got != rank:
                return True, "ploidy %d, %d alleles (N=%d < 2^53): genotype_alleles_as_index(%s)=%d but the VCF rank is %d" % (P, A, N, g, got, rank)
            for i in (rank, rank - 1, rank + 1):
                if not 0 <= i < N:
                    continue
                back = [int(x) for x in rj.index_as_genotype_alleles(i, P)]
                if _order_index(sorted(back)) != i or back != sorted(back) or max(back) >= A:
                    return True, "ploidy %d, %d alleles (N=%d < 2^53): index_as_genotype_alleles(%d)=%s is not the genotype of that VCF index" % (P, A, N, i, back)
            nxt = rnp.array(g, dtype=rnp.int64)
            if rank + 1 < N:
                rj.increment_genotype(nxt)
                if _order_index([int(x) for x in nxt]) != rank + 1:
                    return True, "ploidy %d, %d alleles: increment_genotype(%s)=%s is not the successor" % (P, A, g, nxt.tolist())
        for (n, k) in ((A + P - 1, P), (A + P - 2, P), (A + P - 2, P - 1)):
            if int(rj.comb(n, k)) != math.comb(n, k):
                return True, "comb(%d,%d)=%d exact %d" % (n, k, int(rj.comb(n, k)), math.comb(n, k))
        if int(rj.comb_with_replacement(A, P)) != N:
            return True, "comb_with_replacement(%d,%d)=%d exact %d" % (A, P, int(rj.comb_with_replacement(A, P)), N)
    return False, "float arithmetic present but exact on every boundary probe"


def replay(v):
    from mchap import jitutils as rj

    w = v.get("witness") or {}
    k = v["kind"]
    g = v["config"]["group"]
    if k == "float-arithmetic":
        return _replay_float(v)
    if k == "index-vs-vcf-order":
        got = int(rj.genotype_alleles_as_index(rnp.array(w["g"])))
        return got != _order_index(w["g"]), "index(%s)=%d rank=%d" % (w["g"], got, _order_index(w["g"]))
    if k == "round-trip":
        idx = int(rj.genotype_alleles_as_index(rnp.array(w["g"])))
        back = [int(x) for x in rj.index_as_genotype_alleles(idx, len(w["g"]))]
        return back != list(w["g"]), "g=%s index=%d back=%s" % (w["g"], idx, back)
    if k == "successor":
        nxt = rnp.array(w["g"])
        rj.increment_genotype(nxt)
        return int(rj.genotype_alleles_as_index(nxt)) != _order_index(w["g"]) + 1 or list(nxt) != sorted(nxt), "g=%s next=%s" % (w["g"], nxt.tolist())
    if k == "index-to-genotype":
        got = [int(x) for x in rj.index_as_genotype_alleles(w["index"], v["config"]["P"])]
        return got != list(w["want"]), "index %d -> %s want %s" % (w["index"], got, w["want"])
    if k == "coefficient-grid":
        n, kk = w["n"], w["k"]
        a, b = int(rj.comb(n, kk)), int(rj.comb_with_replacement(n, kk))
        wa = math.comb(n, kk)
        wb = math.comb(n + kk - 1, kk)
        return a != wa or b != wb, "comb(%d,%d)=%d (exact %d); comb_with_replacement=%d (exact %d)" % (n, kk, a, wa, b, wb)
    if k == "comb-exact":
        if "n" in w:
            n = w["n"]
        else:
            n = int((v.get("model") or {}).get("n", 0))
        kk = w["k"]
        got = (int(rj._comb(n, kk)), int(rj.comb(n, kk)))
        return got[0] != math.comb(n, kk) or got[1] != math.comb(n, kk), "_comb(%d,%d)=%s want %d" % (n, kk, got, math.comb(n, kk))
    if k == "int-overflow":
        n = w.get("n", int((v.get("model") or {}).get("n", 0)))
        got = int(rj._comb(n, w["k"]))
        return got != math.comb(n, w["k"]), "_comb(%d,%d)=%d want %d" % (n, w["k"], got, math.comb(n, w["k"]))
    if k == "exception":
        # the engine's table reads are bounds-checked, numba's are not: an out-of-range read shows up here as an
        # exception and on the jitted code as a wrong value -- replay the value-level property for the model's input
        m = w.get("model") or v.get("model") or {}
        c = v["config"]
        try:
            if g == "grid":
                n, kk = int(m.get("n", 0)), int(m.get("k", c["klo"]))
                a, b = int(rj.comb(n, kk)), int(rj.comb_with_replacement(n, kk))
                wa, wb = math.comb(n, kk), (math.comb(n + kk - 1, kk) if n + kk > 0 else None)
                return a != wa or (wb is not None and b != wb), "comb(%d,%d)=%d (exact %d); comb_with_replacement=%d (exact %s)" % (n, kk, a, wa, b, wb)
            P = c["P"]
            if g == "index":
                gg = [int(m.get("a%d" % i, 0)) for i in range(P - 1)] + [c["top"]]
                gg = sorted(gg)
                idx = int(rj.genotype_alleles_as_index(rnp.array(gg)))
                back = [int(x) for x in rj.index_as_genotype_alleles(_order_index(gg), P)]
                return idx != _order_index(gg) or back != gg, "index(%s)=%d (VCF rank %d); index_as_genotype_alleles(rank)=%s" % (gg, idx, _order_index(gg), back)
            i = int(m.get("i", 0))
            got = [int(x) for x in rj.index_as_genotype_alleles(i, P)]
            want = list(M.vcf_order(c["A"], P)[i])
            return got != want, "index %d -> %s expected %s" % (i, got, want)
        except Exception as e:
            return True, "real code raised %r" % (e,)
    if k == "g-array":
        from mchap.calling import utils as ru
        obs = rnp.array(w["obs"])
        P = obs.shape[1]
        A = 3
        order = M.vcf_order(A, P)
        ps = rnp.array([0.1, 0.2, 0.3])
        out = ru.posterior_as_array(obs, ps, len(order))
        want = rnp.zeros(len(order))
        for gg, p in zip(obs, ps):
            want[order.index(tuple(int(a) for a in gg))] = p
        return bool(rnp.abs(out - want).max() > 0), "got %s want %s" % (out, want)
    return False, "kind?"


def validate(seed):
    """the repo's own test vectors through the engine"""
    E.use_summaries(True)
    E.reset_modules()
    E.cfg.concrete_ints = True
    ju = E.load("mchap.jitutils")
    from mchap import jitutils as rj
    import random

    rnd = random.Random(seed)
    n = 0
    for _ in range(40):
        P = rnd.randint(1, 6)
        g = sorted(rnd.randint(0, 11) for _ in range(P))
        assert int(ju.genotype_alleles_as_index(rnp.array(g))) == int(rj.genotype_alleles_as_index(rnp.array(g)))
        i = rnd.randint(0, 300)
        assert list(ju.index_as_genotype_alleles(i, P)) == list(rj.index_as_genotype_alleles(i, P))
        nn, kk = rnd.randint(0, 150), rnd.randint(0, 6)
        assert int(ju.comb(nn, kk)) == int(rj.comb(nn, kk)) == math.comb(nn, kk)
        n += 3
    # the boundary probes hold on the real code (they are what decides a float-arithmetic candidate)
    bad, info = _replay_float({})
    assert not bad, info
    return n + 1
