"""C18 -- pedigree sampler moves are stationary at the joint pedigree posterior."""
import itertools

import numpy as rnp
import z3

from nbsym import engine as E
from oracle import models as M

ID = "C18"
TITLE = "pedigree Gibbs vector == exact full conditional of prod_i L_i * trio pmf; MH allele move and parental allele swap satisfy detailed balance for the same joint; Markov blankets"
ENCODED = [
    "mchap.pedigree.mcmc.gibbs_probabilities", "mchap.pedigree.mcmc.metropolis_hastings_probabilities", "mchap.pedigree.mcmc.pair_allele_swap_step",
    "mchap.pedigree.mcmc.sample_children_matrix", "mchap.pedigree.mcmc.parental_pair_markov_blankets",
    "mchap.pedigree.prior.markov_blanket_log_allele_probability", "mchap.pedigree.prior.markov_blanket_log_probability",
    "mchap.pedigree.prior.generic_markov_blanket_log_probability", "mchap.pedigree.prior.trio_allele_log_pmf", "mchap.pedigree.prior.trio_log_pmf",
    "mchap.pedigree.prior.gamete_log_pmf", "mchap.pedigree.prior.gamete_const_log_pmf", "mchap.pedigree.prior.gamete_allele_log_pmf",
    "mchap.pedigree.prior.log_unknown_const_prior", "mchap.pedigree.prior.log_unknown_dosage_prior",
]
STUBS = ["log_likelihood_alleles_cached -> ln L_i(sorted alleles), one positive real per (sample, unordered genotype); the stub also checks that the reads/counts it is handed are the sample's own count>0 rows",
         "np.random.randint / np.random.rand in pair_allele_swap_step -> forced indices; add_log_prob / normalise_log_probs summaries (lemmas in C17)"]
ASSUMES = ["allele frequencies symbolic > 0 summing to one; per-(sample,parent) error rates symbolic in (0,1); lambda symbolic in (0,1) for tetraploid parents with tau = 2 in the lambda configurations",
           "target joint: prod_i L_i(g_i) * oracle trio pmf(g_i | parents) (the gamete-pair oracle C17 proves equal to trio_log_pmf)"]
BOUNDS = {"quick": "pedigrees: diploid founder, diploid duo, diploid trio (parents first, progeny first, sample 0 as second parent), diploid duo with sample 0 as the only (second) parent, tetraploid trio (2 alleles), 2x*4x->3x trio (unbalanced), selfed diploid; all joint states over 2 alleles, every target individual, allele copy and candidate allele; swap move on the trios",
          "thorough": "adds diploid trio with 3 alleles, tetraploid trio with lambda, half-sibs (5 individuals), clone tau=(0,2), 4x*2x->3x, unknown-parent duo with unbalanced tau"}
OUTSIDE = "larger pedigrees / ploidies; the read model (C04); float rounding; ergodicity (class-wiring group: PedigreeCallingMCMC.fit -> greedy_caller / mcmc_sampler receive the object's arrays, log frequencies, annealing, step type)"
TASKS_PER_CHILD = 4

PEDS = {
    "founder2": dict(ploidy=[2], parents=[[-1, -1]], tau=[[1, 1]], nA=2),
    "founder4": dict(ploidy=[4], parents=[[-1, -1]], tau=[[2, 2]], nA=2),
    "duo2": dict(ploidy=[2, 2], parents=[[-1, -1], [0, -1]], tau=[[1, 1], [1, 1]], nA=2),
    "trio2": dict(ploidy=[2, 2, 2], parents=[[-1, -1], [-1, -1], [0, 1]], tau=[[1, 1], [1, 1], [1, 1]], nA=2),
    "trio4": dict(ploidy=[4, 4, 4], parents=[[-1, -1], [-1, -1], [0, 1]], tau=[[2, 2], [2, 2], [2, 2]], nA=2),
    "trio243": dict(ploidy=[2, 4, 3], parents=[[-1, -1], [-1, -1], [0, 1]], tau=[[1, 1], [2, 2], [1, 2]], nA=2),
    "self2": dict(ploidy=[2, 2], parents=[[-1, -1], [0, 0]], tau=[[1, 1], [1, 1]], nA=2),
    # sample order is free: the progeny may be listed before its parents (index 0 is a child)
    "trio2cf": dict(ploidy=[2, 2, 2], parents=[[1, 2], [-1, -1], [-1, -1]], tau=[[1, 1], [1, 1], [1, 1]], nA=2),
    # thorough
    "sibs4cf": dict(ploidy=[2, 2, 2, 2], parents=[[2, 3], [2, 3], [-1, -1], [-1, -1]], tau=[[1, 1]] * 4, nA=2),
    "trio2a3": dict(ploidy=[2, 2, 2], parents=[[-1, -1], [-1, -1], [0, 1]], tau=[[1, 1], [1, 1], [1, 1]], nA=3),
    "trio4lam": dict(ploidy=[4, 4, 4], parents=[[-1, -1], [-1, -1], [0, 1]], tau=[[2, 2], [2, 2], [2, 2]], nA=2, lam=True),
    "halfsibs": dict(ploidy=[2] * 5, parents=[[-1, -1], [-1, -1], [-1, -1], [0, 1], [0, 2]], tau=[[1, 1]] * 5, nA=2),
    "threegen": dict(ploidy=[2] * 5, parents=[[-1, -1], [-1, -1], [0, 1], [-1, -1], [2, 3]], tau=[[1, 1]] * 5, nA=2),
    "clone2": dict(ploidy=[2, 2], parents=[[-1, -1], [-1, 0]], tau=[[1, 1], [0, 2]], nA=2),
    "trio423": dict(ploidy=[4, 2, 3], parents=[[-1, -1], [-1, -1], [0, 1]], tau=[[2, 2], [1, 1], [2, 1]], nA=2),
    # the first listed sample (index 0) is the SECOND parent: index 0 is a valid parent index, only negative means unknown
    "trio2q0": dict(ploidy=[2, 2, 2], parents=[[-1, -1], [-1, -1], [1, 0]], tau=[[1, 1], [1, 1], [1, 1]], nA=2),
    "duo2q0": dict(ploidy=[2, 2], parents=[[-1, -1], [-1, 0]], tau=[[1, 1], [1, 1]], nA=2),
    "duo3unb": dict(ploidy=[4, 3], parents=[[-1, -1], [0, -1]], tau=[[2, 2], [2, 1]], nA=2),
}
QUICK = ["founder2", "founder4", "duo2", "trio2", "trio4", "trio243", "self2", "trio2cf", "trio2q0", "duo2q0"]
# (the five-member three-generation pedigree was a quarter of the tier's cost and adds no new blanket shape over half-sibs + trios: sized out)
THOROUGH = QUICK + ["sibs4cf", "trio2a3", "trio4lam", "halfsibs", "clone2", "trio423", "duo3unb"]
CHUNK = 9


def _states(ped):
    return list(itertools.product(*[M.genotypes(ped["nA"], p) for p in ped["ploidy"]]))


def configs(tier):
    out = []
    for name in (QUICK if tier == "quick" else THOROUGH):
        ped = PEDS[name]
        n = len(_states(ped))
        for step in ("gibbs", "mh"):
            for t in range(len(ped["ploidy"])):
                for lo in range(0, n, CHUNK):
                    out.append(dict(ped=name, step=step, t=t, lo=lo, hi=min(n, lo + CHUNK)))
        pairs = _pairs(ped)
        for pi in range(len(pairs)):
            for lo in range(0, n, CHUNK):
                out.append(dict(ped=name, step="swap", pair=pi, lo=lo, hi=min(n, lo + CHUNK)))
        out.append(dict(ped=name, step="blankets"))
    out.append(dict(ped="founder2", step="lemma"))
    for cls in ("pedigree-gibbs", "pedigree-mh", "pedigree-gibbs-flat"):  # PedigreeCallingMCMC.fit -> greedy_caller / mcmc_sampler (-flat: default frequencies)
        out.append(dict(group="class-wiring", cls=cls, ped="founder2", step="wiring"))
    for lp in ("pedigree-loop", "pedigree-sweep"):  # mcmc_sampler -> compound_step / pair swap; compound_step -> every (sample, copy) once
        out.append(dict(group="loop-wiring", loop=lp, ped="founder2", step="wiring"))
    return out


def weight(c):
    ped = PEDS[c["ped"]]
    return sum(ped["ploidy"]) ** 2 * (3 if ped.get("lam") else 1) * (2 if c["step"] == "swap" else 1)


def _pairs(ped, selfing=False):
    seen = []
    for p, q in ped["parents"]:
        if p >= 0 and q >= 0 and (p != q or selfing) and tuple(sorted((p, q))) not in seen:
            seen.append(tuple(sorted((p, q))))
    return seen


def _run_lemma(c, col):
    """Metropolis-Hastings lemma used to decompose the DB obligations: with acceptance min(1, r) and
    r = y/x (x, y > 0 the two sides' target*proposal weights), x*min(1,y/x) == y*min(1,x/y)"""
    def body(ctx):
        x = E.fresh_real(ctx, "x", 0)
        y = E.fresh_real(ctx, "y", 0)
        return x, y

    for pr in E.explore(body, stats=col.stats):
        col.path()
        col.reachable(pr.ctx)
        x, y = pr.value
        mn = lambda r: z3.If(r < 1, r, z3.RealVal(1))
        col.check(pr.ctx, x * mn(y / x) == y * mn(x / y), "lemma", "mh-lemma", desc="x*min(1,y/x) == y*min(1,x/y) for all x,y > 0")
        col.check(pr.ctx, z3.And(mn(y / x) > 0, mn(y / x) <= 1), "lemma", "mh-lemma", desc="0 < min(1,r) <= 1 for r > 0")


def lname(i, g):
    return "L%d_" % i + "_".join(map(str, sorted(int(a) for a in g if a >= 0)))


def llvar(i, g):
    return z3.Real(lname(i, g))


class Harness:
    def __init__(self, ped):
        E.use_summaries(True)
        E.reset_modules()
        E.cfg.concrete_ints = True
        self.pm = E.load("mchap.pedigree.mcmc")
        self.pp = E.load("mchap.pedigree.prior")
        self.ped = ped
        self.n = len(ped["ploidy"])
        self.mp = max(ped["ploidy"])
        self.nA = ped["nA"]
        self.parents = rnp.array(ped["parents"])
        self.tau = rnp.array(ped["tau"])
        self.ploidy = rnp.array(ped["ploidy"])
        self.children = self.pm.sample_children_matrix(self.parents)
        # per-sample reads with asymmetric zero counts: sample i has i % 2 + 1 distinct reads out of 2 rows
        self.reads = rnp.zeros((self.n, 2, 1, self.nA))
        for i in range(self.n):
            self.reads[i] = 0.1 * (i + 1)
            self.reads[i, 1] += 0.05
        self.counts = rnp.array([[1, 0] if i % 2 == 0 else [2, 1] for i in range(self.n)], dtype=rnp.int64)
        self.bad_reads = []
        H = self

        def stub_llk(reads, read_counts, haplotypes, sample, genotype_alleles, cache=None):
            s = int(sample)
            own = H.counts[s] > 0
            ok = reads.shape == H.reads[s][own].shape and bool((rnp.asarray(reads, dtype=float) == H.reads[s][own]).all()) and list(read_counts) == list(H.counts[s][own])
            if not ok:
                H.bad_reads.append(s)
            v = llvar(s, genotype_alleles)
            E.Ctx.cur.assume(v > 0)
            return E.np.log(E.SymReal(v))

        self.pm.log_likelihood_alleles_cached = stub_llk
        self.haps = rnp.zeros((self.nA, 1), dtype=rnp.int8)

    def params(self, ctx):
        ped = self.ped
        fs = E.simplex(ctx, "f", self.nA)
        logf = E.real_array(fs, log=True)
        err = E.SArray((self.n, 2), float)
        lam = E.SArray((self.n, 2), float)
        ez, lz = {}, {}
        for i in range(self.n):
            for j in range(2):
                par = ped["parents"][i][j]
                if par >= 0 and ped["tau"][i][j] > 0:
                    e = E.fresh_real(ctx, "e%d%d" % (i, j), 0, 1)
                    rnp.ndarray.__setitem__(err, (i, j), E.SymReal(e))
                    ez[(i, j)] = e
                else:
                    rnp.ndarray.__setitem__(err, (i, j), 1.0)
                    ez[(i, j)] = 1
                if ped.get("lam") and par >= 0 and ped["tau"][i][j] == 2 and ped["ploidy"][par] >= 4:
                    l = E.fresh_real(ctx, "l%d%d" % (i, j), 0, 1)
                    rnp.ndarray.__setitem__(lam, (i, j), E.SymReal(l))
                    lz[(i, j)] = l
                else:
                    rnp.ndarray.__setitem__(lam, (i, j), 0.0)
                    lz[(i, j)] = 0
        return fs, logf, err, lam, ez, lz

    def G(self, state):
        G = rnp.full((self.n, self.mp), -1, dtype=rnp.int64)
        for i, g in enumerate(state):
            G[i, : len(g)] = g
        return G

    def scratch(self):
        return [rnp.zeros(self.mp, dtype=rnp.int64) for _ in range(7)] + [E.np.zeros(self.mp, dtype=float)]

    def trio_oracle(self, state, i, fs, ez, lz):
        ped = self.ped
        p, q = ped["parents"][i]
        tp, tq = ped["tau"][i]
        f = {a: fs[a] for a in range(self.nA)}
        P = tuple(state[p]) if (p >= 0 and tp > 0) else None
        Q = tuple(state[q]) if (q >= 0 and tq > 0) else None
        return M.trio_pmf(state[i], P, Q, tp, tq, lz[(i, 0)], lz[(i, 1)], ez[(i, 0)], ez[(i, 1)], f)

    def joint(self, state, fs, ez, lz, only=None):
        """prod_i L_i(g_i) * trio(g_i | parents) over the individuals in `only` (default all)"""
        r = z3.RealVal(1)
        for i in (range(self.n) if only is None else only):
            r = r * llvar(i, state[i]) * self.trio_oracle(state, i, fs, ez, lz)
        return r

    def blanket(self, t):
        ch = [i for i in range(self.n) if t in self.ped["parents"][i]]
        return [t] + ch


def _with(state, t, k, a):
    s = [list(g) for g in state]
    s[t][k] = a
    return tuple(tuple(sorted(g)) for g in s)


def run_config(c, col):
    if c.get("group") in ("class-wiring", "loop-wiring"):
        from checks import wiring

        E.use_summaries(True)
        return (wiring.run_class if c["group"] == "class-wiring" else wiring.run_loop)(c, col)
    ped = PEDS[c["ped"]]
    H = Harness(ped)
    prof = E.Profile()
    with prof:
        if c["step"] == "lemma":
            _run_lemma(c, col)
        elif c["step"] == "blankets":
            _run_blankets(c, col, H)
        elif c["step"] == "swap":
            _run_swap(c, col, H)
        else:
            _run_allele(c, col, H)
    col.functions |= set(prof.names())


def _run_allele(c, col, H):
    ped = H.ped
    t = c["t"]
    states = _states(ped)[c["lo"]:c["hi"]]
    fn = H.pm.gibbs_probabilities if c["step"] == "gibbs" else H.pm.metropolis_hastings_probabilities
    site = "mchap.pedigree.mcmc." + ("gibbs_probabilities" if c["step"] == "gibbs" else "metropolis_hastings_probabilities")
    tp, tq = ped["tau"][t]
    shape = dict(step=c["step"], target_balanced=bool(tp == tq), target_parents_known=int(ped["parents"][t][0] >= 0) + int(ped["parents"][t][1] >= 0))
    first = True
    nA = H.nA

    def kernel(state, k, params):
        fs, logf, err, lam, ez, lz = params
        G = H.G(state)
        before = G.copy()
        pr = fn(t, k, G, H.ploidy, H.parents, H.children, H.tau, lam, err, H.reads, H.counts, H.haps, logf, None, *H.scratch())
        return pr, bool((G == before).all())

    for state in states:
        for k in range(ped["ploidy"][t]):
            if k > 0 and state[t][k] == state[t][k - 1]:
                continue

            def body(ctx, state=state, k=k):
                H.bad_reads.clear()
                params = H.params(ctx)
                pr, restored = kernel(state, k, params)
                back = {}
                return params, pr, restored, back, list(H.bad_reads)

            for pres in E.explore(body, stats=col.stats):
                w = dict(state=state, t=t, k=k)
                if pres.exc is not None:
                    col.fail(site, "exception", shape=shape, witness=dict(w, exc=repr(pres.exc)), desc="raised %r" % (pres.exc,), model=E.model_dict(E.prove(pres.ctx, False).model))
                    continue
                col.path()
                ctx = pres.ctx
                if first:
                    col.reachable(ctx)
                    first = False
                (fs, logf, err, lam, ez, lz), pr, restored, back, bad = pres.value
                if not restored:
                    col.fail(site, "array-not-restored", shape=shape, witness=w, desc="sample_genotypes not restored")
                if bad:
                    col.fail(site, "wrong-reads", shape=shape, witness=dict(w, samples=bad), desc="likelihood evaluated on reads that are not the sample's own count>0 rows")
                ps = [E.real_term(p) for p in pr]
                bl = H.blanket(t)
                Js = []
                for a in range(nA):
                    s2 = _with(state, t, k, a)
                    Js.append(H.joint(s2, fs, ez, lz, only=bl) / M.perms(s2[t]))
                if c["step"] == "gibbs":
                    tot = z3.Sum(Js)
                    for a in range(nA):
                        col.check(ctx, ps[a] * tot == Js[a], site, "gibbs-conditional", shape=shape, witness=dict(w, a=a),
                                  desc="pedigree gibbs p[a] == exact full conditional of prod L_i * trio pmf  [%s target=%d tau=(%d,%d)]" % (c["ped"], t, tp, tq))
                else:
                    cur = state[t][k]
                    mus = {}
                    for a in range(nA):
                        if a == cur:
                            continue
                        pa, mins = E.abstract_mins(ps[a], "mu%d" % a)
                        if len(mins) == 1 and z3.is_rational_value(mins[0][2]) and mins[0][2].as_fraction() == 1:
                            mu, up, _ = mins[0]
                            mus[a] = mu
                            col.check(ctx, pa * (nA - 1) == mu, site, "mh-proposal", shape=shape, witness=dict(w, a=a), desc="mh p[a] == min(1, r_a) / (n_alleles - 1)")
                            col.check(ctx, up * Js[cur] == Js[a], site, "mh-ratio", shape=shape, witness=dict(w, a=a),
                                      desc="mh acceptance ratio r_a == J(y)/J(x), J = prod L_i * trio pmf / perms (with the MH lemma this is detailed balance)  [%s target=%d]" % (c["ped"], t))
                        else:
                            R = Js[a] / Js[cur]
                            col.check(ctx, ps[a] * (nA - 1) == z3.If(R < 1, R, z3.RealVal(1)), site, "mh-ratio", shape=shape, witness=dict(w, a=a), desc="mh p[a] == min(1, J(y)/J(x)) / (n_alleles-1) (no min atom)")
                    pc_, _ = E.abstract_mins(ps[cur], "mux")
                    subs = []
                    for a, mu in mus.items():
                        _, mins = E.abstract_mins(ps[a], "mu%d" % a)
                    # the stay probability: 1 - sum of the others (structurally)
                    col.check(ctx, ps[cur] == 1 - z3.Sum([ps[a] for a in range(nA) if a != cur]), site, "mh-stay", shape=shape, witness=w, desc="mh stay probability == 1 - sum of move probabilities")


def _run_swap(c, col, H):
    ped = H.ped
    p, q = _pairs(ped)[c["pair"]]
    pairs, blankets = H.pm.parental_pair_markov_blankets(H.parents, H.children)
    row = [i for i in range(len(pairs)) if tuple(pairs[i]) == (p, q)][0]
    blanket = blankets[row]
    site = "mchap.pedigree.mcmc.pair_allele_swap_step"
    states = _states(ped)[c["lo"]:c["hi"]]
    shape = dict(step="swap")
    first = True

    def swap(state, ip, iq, params):
        fs, logf, err, lam, ez, lz = params
        G = H.G(state)

        class R:
            calls = [ip, iq]

            @staticmethod
            def randint(n):
                return R.calls.pop(0)

            @staticmethod
            def rand():
                return 2.0  # never accept: the state must be restored

        class NPs:
            random = R

            def __getattr__(self, n):
                return getattr(E.NP, n)

        H.pm.np = NPs()
        before = G.copy()
        try:
            A, acc = H.pm.pair_allele_swap_step(p, q, blanket, G, H.ploidy, H.parents, H.tau, lam, err, H.reads, H.counts, H.haps, logf, None, *H.scratch())
        finally:
            H.pm.np = E.NP
        return A, bool((G == before).all())

    for state in states:
        for a in sorted(set(state[p])):
            for b in sorted(set(state[q])):
                if a == b:
                    continue

                def body(ctx, state=state, a=a, b=b):
                    H.bad_reads.clear()
                    params = H.params(ctx)
                    ip, iq = list(state[p]).index(a), list(state[q]).index(b)
                    A, restored = swap(state, ip, iq, params)
                    y = [list(g) for g in state]
                    y[p][ip] = b
                    y[q][iq] = a
                    ys = tuple(tuple(sorted(g)) for g in y)
                    return params, A, None, ys, restored, list(H.bad_reads)

                for pres in E.explore(body, stats=col.stats):
                    w = dict(state=state, p=p, q=q, a=a, b=b)
                    if pres.exc is not None:
                        col.fail(site, "exception", shape=shape, witness=dict(w, exc=repr(pres.exc)), desc="raised %r" % (pres.exc,))
                        continue
                    col.path()
                    ctx = pres.ctx
                    if first:
                        col.reachable(ctx)
                        first = False
                    (fs, logf, err, lam, ez, lz), A, B, ys, restored, bad = pres.value
                    if not restored:
                        col.fail(site, "array-not-restored", shape=shape, witness=w, desc="rejected swap did not restore the genotypes")
                    if bad:
                        col.fail(site, "wrong-reads", shape=dict(step="swap", samples="q-with-p-mask" if bad == [q] * len(bad) else "other"), witness=dict(w, samples=bad),
                                 desc="likelihood of a parent evaluated on reads that are not its own count>0 rows")
                    bl = [int(i) for i in blanket if i >= 0]
                    Jx = H.joint(state, fs, ez, lz, only=bl)
                    Jy = H.joint(ys, fs, ez, lz, only=bl)
                    cx = state[p].count(a) * state[q].count(b)
                    cy = ys[p].count(b) * ys[q].count(a)
                    At, mins = E.abstract_mins(E.real_term(A), "mu")
                    if len(mins) == 1 and z3.is_rational_value(mins[0][2]) and mins[0][2].as_fraction() == 1:
                        mu, up, _ = mins[0]
                        col.check(ctx, At == mu, site, "swap-acceptance-form", shape=shape, witness=w, desc="prob_accept == min(1, r)")
                        col.check(ctx, up * Jx * cx == Jy * cy, site, "swap-ratio", shape=shape, witness=w,
                                  desc="swap acceptance ratio r == pi(Y) c_p'(b) c_q'(a) / (pi(X) c_p(a) c_q(b)) (with the MH lemma: multiset detailed balance)  [%s]" % c["ped"])
                    else:
                        R = (Jy * cy) / (Jx * cx)
                        col.check(ctx, E.real_term(A) == z3.If(R < 1, R, z3.RealVal(1)), site, "swap-ratio", shape=shape, witness=w, desc="prob_accept == min(1, ratio) (no min atom)")


def _run_blankets(c, col, H):
    ped = H.ped
    site = "mchap.pedigree.mcmc.parental_pair_markov_blankets"
    col.path()
    want_children = [[i for i in range(H.n) if t in ped["parents"][i]] for t in range(H.n)]
    got_children = [[int(x) for x in row if x >= 0] for row in H.children] if H.children.size else [[] for _ in range(H.n)]
    if got_children != want_children:
        col.fail("mchap.pedigree.mcmc.sample_children_matrix", "children", witness=dict(got=got_children, want=want_children), desc="children matrix wrong")
    else:
        col.ok("sample_children_matrix lists exactly each individual's children once [%s]" % c["ped"])
    pairs, blankets = H.pm.parental_pair_markov_blankets(H.parents, H.children)
    got = {tuple(int(x) for x in pr): sorted(int(x) for x in bl if x >= 0) for pr, bl in zip(pairs, blankets)}
    want = {}
    for (p, q) in _pairs(ped, selfing=True):
        want[(p, q)] = sorted(set([p, q] + want_children[p] + want_children[q]))
    if got != want:
        col.fail(site, "blankets", witness=dict(got={str(k): v for k, v in got.items()}, want={str(k): v for k, v in want.items()}), desc="parental pair blankets wrong")
    else:
        col.ok("parental pair blankets == parents + all their children [%s]" % c["ped"])
    # the check is concrete; keep the solver honest with a trivial reachability query
    for pr in E.explore(lambda ctx: ctx.assume(z3.Real("one") == 1), stats=col.stats):
        col.reachable(pr.ctx)


# ------------------------------------------------------------------ replay on the real code (py_func + patched stub)


def _concrete(v):
    ped = PEDS[v["config"]["ped"]]
    m = v.get("model") or {}
    n, nA = len(ped["ploidy"]), ped["nA"]
    f = [float(m.get("f%d" % i, 1.0 / nA)) for i in range(nA - 1)]
    f.append(1 - sum(f))
    err = rnp.ones((n, 2))
    lam = rnp.zeros((n, 2))
    for i in range(n):
        for j in range(2):
            par = ped["parents"][i][j]
            if par >= 0 and ped["tau"][i][j] > 0:
                err[i, j] = float(m.get("e%d%d" % (i, j), 0.1 + 0.05 * i + 0.02 * j))
            if ped.get("lam") and par >= 0 and ped["tau"][i][j] == 2 and ped["ploidy"][par] >= 4:
                lam[i, j] = float(m.get("l%d%d" % (i, j), 0.2))
    return ped, m, f, err, lam


def _real_H(ped):
    """numeric pieces shared with the symbolic harness"""
    n, nA, mp = len(ped["ploidy"]), ped["nA"], max(ped["ploidy"])
    reads = rnp.zeros((n, 2, 1, nA))
    for i in range(n):
        reads[i] = 0.1 * (i + 1)
        reads[i, 1] += 0.05
    counts = rnp.array([[1, 0] if i % 2 == 0 else [2, 1] for i in range(n)], dtype=rnp.int64)
    return n, nA, mp, reads, counts


def _num_trio(ped, state, i, f, err, lam):
    p, q = ped["parents"][i]
    tp, tq = ped["tau"][i]
    fz = {a: z3.RealVal(repr(f[a])) for a in range(len(f))}
    P = tuple(state[p]) if (p >= 0 and tp > 0) else None
    Q = tuple(state[q]) if (q >= 0 and tq > 0) else None
    t = M.trio_pmf(state[i], P, Q, tp, tq, z3.RealVal(repr(float(lam[i, 0]))) if lam[i, 0] else 0, z3.RealVal(repr(float(lam[i, 1]))) if lam[i, 1] else 0,
                   z3.RealVal(repr(float(err[i, 0]))), z3.RealVal(repr(float(err[i, 1]))), fz)
    return float(E.eval_term(t))


def _num_joint(ped, state, only, f, err, lam, m):
    r = 1.0
    for i in only:
        r *= float(m.get(lname(i, state[i]), 1.0)) * _num_trio(ped, state, i, f, err, lam)
    return r


def _real_call(ped, m, f, err, lam, fn_name, args_fn, bad=None, rng=None):
    import math
    from mchap.pedigree import mcmc as rm

    n, nA, mp, reads, counts = _real_H(ped)
    saved = (rm.log_likelihood_alleles_cached, rm.np)

    all_reads = reads

    def stub(reads, read_counts, haplotypes, sample, genotype_alleles, cache=None):
        s = int(sample)
        own = counts[s] > 0
        if bad is not None and not (reads.shape == all_reads[s][own].shape and (reads == all_reads[s][own]).all() and list(read_counts) == list(counts[s][own])):
            bad.append(s)
        return math.log(float(m.get(lname(s, genotype_alleles), 1.0)))

    parents = rnp.array(ped["parents"])
    children = rm.sample_children_matrix(parents)  # jitted helpers are compiled before np is shimmed
    rm.parental_pair_markov_blankets(parents, children)
    rm.log_likelihood_alleles_cached = stub
    real_np = rm.np
    if rng is not None:
        class S:
            def __getattr__(self, k):
                return getattr(real_np, k)
        s_ = S()
        s_.random = rng
        rm.np = s_
    try:
        scr = [rnp.zeros(mp, dtype=rnp.int64) for _ in range(7)] + [rnp.zeros(mp)]
        fn = getattr(rm, fn_name)
        return args_fn(fn.py_func, rnp.array(ped["ploidy"]), parents, children, rnp.array(ped["tau"]), lam, err, reads, counts,
                       rnp.zeros((nA, 1), dtype=rnp.int8), rnp.log(rnp.array(f)), scr, rm)
    finally:
        rm.log_likelihood_alleles_cached, rm.np = saved


def _Gnum(ped, state):
    mp = max(ped["ploidy"])
    G = rnp.full((len(state), mp), -1, dtype=rnp.int64)
    for i, g in enumerate(state):
        G[i, : len(g)] = g
    return G


def replay(v):
    if v["config"].get("group") in ("class-wiring", "loop-wiring"):
        from checks import wiring

        return wiring.replay_real(v, wiring.run_class if v["config"]["group"] == "class-wiring" else wiring.run_loop)
    ped, m, f, err, lam = _concrete(v)
    c = v["config"]
    w = v["witness"]
    kind = v["kind"]
    nA = ped["nA"]
    if c["step"] in ("gibbs", "mh"):
        t, k = w["t"], w["k"]
        state = tuple(tuple(g) for g in w["state"])
        bad = []

        def run(state_):
            def call(fn, ploidy, parents, children, tau, lam_, err_, reads, counts, haps, logf, scr, rm):
                G = _Gnum(ped, state_)
                pr = fn(t, k, G, ploidy, parents, children, tau, lam_, err_, reads, counts, haps, logf, None, *scr)
                return pr, G
            return _real_call(ped, m, f, err, lam, "gibbs_probabilities" if c["step"] == "gibbs" else "metropolis_hastings_probabilities", call, bad=bad)

        pr, G = run(state)
        if kind == "wrong-reads":
            return bool(bad), "samples whose likelihood saw foreign reads: %s" % bad
        if kind == "array-not-restored":
            return not (G == _Gnum(ped, state)).all(), "G after call %s" % G.tolist()
        bl = [t] + [i for i in range(len(ped["ploidy"])) if t in ped["parents"][i]]
        Js = []
        for a in range(nA):
            s2 = _with(state, t, k, a)
            Js.append(_num_joint(ped, s2, bl, f, err, lam, m) / M.perms(s2[t]))
        if kind == "gibbs-conditional":
            a = w["a"]
            want = Js[a] / sum(Js)
            return abs(pr[a] - want) > 1e-6 * max(want, 1e-9), "gibbs p[%d]=%.9g exact conditional=%.9g (state=%s target=%d copy=%d f=%s err=%s)" % (a, pr[a], want, state, t, k, f, err.tolist())
        if kind == "probabilities-sum":
            return abs(pr.sum() - 1) > 1e-6, "sum=%r" % pr.sum()
        if kind == "probabilities-nonneg":
            return bool((pr < -1e-9).any()), "p=%s" % pr
        if kind in ("mh-proposal", "mh-stay"):
            return abs(pr.sum() - 1) > 1e-6 or bool((pr < -1e-9).any()) or bool((pr > 1 + 1e-9).any()), "mh probabilities %s" % pr
        if kind in ("detailed-balance", "mh-ratio"):
            a = w["a"]
            y = [list(g) for g in state]
            y[t][k] = a
            pb, _ = run(tuple(tuple(g) for g in y))
            cur = state[t][k]
            lhs, rhs = Js[cur] * pr[a], Js[a] * pb[cur]
            return abs(lhs - rhs) > 1e-6 * max(lhs, rhs, 1e-300), "mh DB lhs=%r rhs=%r" % (lhs, rhs)
        if kind == "exception":
            return False, "no exception on real code"
    if c["step"] == "swap":
        p, q, a, b = w["p"], w["q"], w["a"], w["b"]
        state = tuple(tuple(g) for g in w["state"])
        bad = []

        def run(state_, ip, iq):
            calls = [ip, iq]

            class R:
                @staticmethod
                def randint(n):
                    return calls.pop(0)

                @staticmethod
                def rand():
                    return 2.0

            def call(fn, ploidy, parents, children, tau, lam_, err_, reads, counts, haps, logf, scr, rm):
                real_np_, rm.np = rm.np, rnp
                try:
                    pairs, blankets = rm.parental_pair_markov_blankets(parents, children)
                finally:
                    rm.np = real_np_
                row = [i for i in range(len(pairs)) if tuple(pairs[i]) == (p, q)][0]
                G = _Gnum(ped, state_)
                A, acc = fn(p, q, blankets[row], G, ploidy, parents, tau, lam_, err_, reads, counts, haps, logf, None, *scr)
                return A, G, [int(i) for i in blankets[row] if i >= 0]
            return _real_call(ped, m, f, err, lam, "pair_allele_swap_step", call, bad=bad, rng=R)

        ip, iq = list(state[p]).index(a), list(state[q]).index(b)
        A, G, bl = run(state, ip, iq)
        if kind == "wrong-reads":
            return bool(bad), "pair_allele_swap_step evaluated the likelihood of sample(s) %s on reads that are not their own count>0 rows (p=%d q=%d)" % (sorted(set(bad)), p, q)
        if kind == "array-not-restored":
            return not (G == _Gnum(ped, state)).all(), "G after rejected swap %s" % G.tolist()
        y = [list(g) for g in state]
        y[p][ip] = b
        y[q][iq] = a
        B, _, _ = run(tuple(tuple(g) for g in y), ip, iq)
        ys = tuple(tuple(sorted(g)) for g in y)
        if kind in ("acceptance-range", "swap-acceptance-form"):
            return not (0 <= A <= 1), "A=%r" % A
        lhs = _num_joint(ped, state, bl, f, err, lam, m) * state[p].count(a) * state[q].count(b) * A
        rhs = _num_joint(ped, ys, bl, f, err, lam, m) * ys[p].count(b) * ys[q].count(a) * B
        return abs(lhs - rhs) > 1e-6 * max(lhs, rhs, 1e-300), "swap DB lhs=%r rhs=%r (state=%s p=%d q=%d a=%d b=%d)" % (lhs, rhs, state, p, q, a, b)
    if c["step"] == "blankets":
        from mchap.pedigree import mcmc as rm
        parents = rnp.array(ped["parents"])
        ch = rm.sample_children_matrix(parents)
        got_children = [[int(x) for x in row if x >= 0] for row in ch]
        want_children = [[i for i in range(len(ped["ploidy"])) if t in ped["parents"][i]] for t in range(len(ped["ploidy"]))]
        if kind == "children":
            return got_children != want_children, "children %s want %s" % (got_children, want_children)
        pairs, blankets = rm.parental_pair_markov_blankets(parents, ch)
        got = {tuple(int(x) for x in pr): sorted(int(x) for x in bl if x >= 0) for pr, bl in zip(pairs, blankets)}
        want = {pq: sorted(set(list(pq) + want_children[pq[0]] + want_children[pq[1]])) for pq in _pairs(ped, selfing=True)}
        return got != want, "blankets %s want %s" % (got, want)
    return False, "kind?"


def alt_models(v, rnd):
    m = v.get("model") or {}
    for _ in range(4):
        m2 = {}
        for k, val in m.items():
            if k[0] == "L":
                m2[k] = rnd.choice([0.25, 0.5, 1.0, 2.0, 3.0])
            elif k[0] in "el":
                m2[k] = rnd.choice([0.05, 0.125, 0.25, 0.5])
            else:
                m2[k] = val
        yield m2


def validate(seed):
    import random

    rnd = random.Random(seed)
    n = 0
    for name in ("trio2", "trio243", "self2"):
        ped = PEDS[name]
        H = Harness(ped)
        for _ in range(3):
            state = rnd.choice(_states(ped))
            t = rnd.randrange(len(ped["ploidy"]))
            k = rnd.randrange(ped["ploidy"][t])
            step = rnd.choice(["gibbs", "mh"])
            v = dict(config=dict(ped=name, step=step), model={})
            pedc, m, f, err, lam = _concrete(v)
            for i in range(len(ped["ploidy"])):
                for g in M.genotypes(ped["nA"], ped["ploidy"][i]):
                    m[lname(i, g)] = rnd.randint(1, 8) / 4.0

            def call(fn, ploidy, parents, children, tau, lam_, err_, reads, counts, haps, logf, scr, rm):
                return fn(t, k, _Gnum(ped, state), ploidy, parents, children, tau, lam_, err_, reads, counts, haps, logf, None, *scr)

            real = _real_call(ped, m, f, err, lam, "gibbs_probabilities" if step == "gibbs" else "metropolis_hastings_probabilities", call)
            fn = H.pm.gibbs_probabilities if step == "gibbs" else H.pm.metropolis_hastings_probabilities

            def body(ctx):
                for kk, val in m.items():
                    ctx.assume(z3.Real(kk) == z3.RealVal(repr(val)))
                logf = E.real_array([E.SymReal(z3.RealVal(E.Fraction(x).limit_denominator(10 ** 9))) for x in f], log=True)
                er = E.SArray(err.shape, float)
                la = E.SArray(lam.shape, float)
                for idx in rnp.ndindex(err.shape):
                    rnp.ndarray.__setitem__(er, idx, E.symfloat(repr(float(err[idx]))) if err[idx] != 1.0 else 1.0)
                    rnp.ndarray.__setitem__(la, idx, E.symfloat(repr(float(lam[idx]))) if lam[idx] else 0.0)
                return fn(t, k, H.G(state), H.ploidy, H.parents, H.children, H.tau, la, er, H.reads, H.counts, H.haps, logf, None, *H.scratch())

            vals = [p for p in E.explore(body)]
            assert len(vals) == 1 and vals[0].exc is None, vals
            got = E.to_float_array(vals[0].value, m)
            assert rnp.abs(got - real).max() < 1e-6, (name, state, t, k, step, got, real)
            n += 1
    return n
