"""Replay driver of the C08 hash-order group: one operation on the REAL modules in this interpreter (whose PYTHONHASHSEED the
caller chose); prints the JSON result on the last line of stdout.

    python -m checks.c08_hash_real <target> <json payload>
"""
import importlib
import json
import sys

from checks import c08

if __name__ == "__main__":
    print(json.dumps(c08._hash_drive(importlib.import_module, sys.argv[1], json.loads(sys.argv[2])), sort_keys=True))
