"""C15 -- each iteration sweeps every (haplotype, SNV) pair once; intervals partition; fixed sites restored."""
import itertools

import numpy as rnp
import z3

from nbsym import engine as E
from oracle import models as M

ID = "C15"
TITLE = "mutation.compound_step visits every (haplotype copy, SNV) exactly once for any n_base (incl. > 127); random_breaks partitions the SNV range; SNVs are fixed iff their single-SNV homozygous posterior reaches the threshold and are restored in the right column"
TECHNIQUE = 'symbolic execution with recording stubs: solver-chosen shuffles/choices, fixed-width store tracking, symbolic homozygosity probabilities and threshold (z3); homozygosity screen against a symbolic single-SNV posterior oracle'
ENCODED = ["mchap.assemble.mutation.compound_step", "mchap.assemble.structural.random_breaks", "mchap.assemble.mcmc.DenovoMCMC._mcmc",
           "mchap.assemble.mcmc._homozygosity_probabilities", "mchap.assemble.snpcalling.snp_posterior", "mchap.assemble.structural.compound_step"]
STUBS = ["base_step / interval_step -> recorders", "np.random.shuffle -> identity, reversal, or a solver-chosen transposition (coverage is permutation invariant)",
         "np.random.choice(options) -> solver-chosen element", "np.random.permutation -> solver-chosen rotation",
         "_mcmc harness: _homozygosity_probabilities -> symbolic matrix; _denovo_assembler -> marker trace; initial genotype sampling stubbed"]
ASSUMES = ["fixed-width integer stores follow numba semantics (two's-complement wrap); each store of an out-of-range value is reported by the engine"]
BOUNDS = {"quick": "compound_step: n_base in {1,2,3,127,128,129}, ploidy 1..2; random_breaks: n <= 5, every breaks < n, and n in {127,128,129,256} with 0-1 breaks; _mcmc: 3 SNVs x 2 alleles, ploidy 2, symbolic probabilities and threshold; homozygosity screen: ploidy 2-3, 2-3 alleles, 2 symbolic reads",
          "thorough": "compound_step: n_base in {1..6, 126..131, 255..258}, ploidy 1..4; random_breaks n <= 8 and n in {127..129,255..257,300} with 0-1 breaks; _mcmc: 4 SNVs x 3 alleles"}
OUTSIDE = "n_base beyond 258; statistical uniformity of the shuffles (numba RNG)"
TASKS_PER_CHILD = 2


def configs(tier):
    out = []
    quick = tier == "quick"
    nbs = [1, 2, 3, 127, 128, 129] if quick else [1, 2, 3, 4, 5, 6, 126, 127, 128, 129, 130, 131, 255, 256, 257, 258]
    for nb in nbs:
        for P in ((1, 2) if quick else (1, 2, 3, 4)):
            out.append(dict(group="sweep", n_base=nb, P=P))
    for n in range(1, 6 if quick else 9):
        for br in range(0, n):
            out.append(dict(group="breaks", n=n, breaks=br))
    # interval bounds beyond one byte / two bytes (a locus may have any number of SNVs)
    for n in ((127, 128, 129, 256) if quick else (127, 128, 129, 255, 256, 257, 300)):
        for br in (0, 1):
            out.append(dict(group="breaks", n=n, breaks=br))
    out.append(dict(group="scompound", n_iv=3))
    out.append(dict(group="fix", n_pos=3, A=2))
    if not quick:
        out.append(dict(group="fix", n_pos=4, A=3))
    for P, A in ((2, 2), (2, 3), (3, 2)):
        for inbred in (False, True):
            out.append(dict(group="hom", P=P, A=A, inbred=inbred))
    # a bi-allelic SNV inside a locus whose read tensor is padded for a tri-allelic neighbour
    for inbred in (False, True):
        out.append(dict(group="hom", P=2, A=2, inbred=inbred, pad=1))
    return out


def weight(c):
    return c.get("n_base", 3) * c.get("P", 1)


def run_config(c, col):
    E.use_summaries(True)
    E.reset_modules()
    E.cfg.concrete_ints = False
    prof = E.Profile()
    with prof:
        globals()["_run_" + c["group"]](c, col)
    col.functions |= set(prof.names())


def _shim(**rand):
    class Rn:
        pass

    for k, f in rand.items():
        setattr(Rn, k, staticmethod(f))

    class NPs:
        random = Rn

        def __getattr__(self, k):
            return getattr(E.NP, k)

    return NPs()


def _run_sweep(c, col):
    mut = E.load("mchap.assemble.mutation")
    site = "mchap.assemble.mutation.compound_step"
    nb, P = c["n_base"], c["P"]
    shape = dict(beyond_int8=nb > 128)

    def body(ctx):
        mode = E.fresh_int(ctx, "mode", 0, 2)
        ti = E.fresh_int(ctx, "ti", 0, P * nb - 1)
        visited = []

        def shuffle(arr):
            m = int(E.SymInt(mode))
            if m == 1:
                arr[:] = arr[::-1].copy()
            elif m == 2:
                i = int(E.SymInt(ti))
                j = len(arr) - 1 - i
                tmp = arr[i].copy()
                arr[i] = arr[j]
                arr[j] = tmp

        def rec_base_step(genotype, reads, llk, h, j, n_alleles, log_unique_haplotypes, inbreeding=0, temp=1, read_counts=None, cache=None):
            visited.append((int(h), int(j), int(n_alleles)))
            return llk, cache

        mut.np = _shim(shuffle=shuffle)
        mut.base_step = rec_base_step
        g = rnp.zeros((P, nb), dtype=rnp.int8)
        nal = rnp.array([2 + (j % 3) for j in range(nb)], dtype=rnp.int8)
        try:
            mut.compound_step(g, None, 0.0, nal, 0.0)
        finally:
            mut.np = E.NP
        return visited, nal

    first = True
    for pr in E.explore(body, stats=col.stats):
        if pr.exc is not None:
            col.fail(site, "exception", shape=shape, witness=dict(exc=repr(pr.exc), n_base=nb, P=P), desc="compound_step raised %r" % (pr.exc,))
            continue
        col.path()
        if first:
            col.reachable(pr.ctx)
            first = False
        visited, nal = pr.value
        want = sorted((h, j, int(nal[j])) for h in range(P) for j in range(nb))
        ovf = [e for e in pr.ctx.events if e["kind"] == "int-store-overflow"]
        if sorted(visited) != want:
            missing = sorted(set(want) - set(visited))[:4]
            col.fail(site, "sweep-coverage", shape=shape, witness=dict(n_base=nb, P=P, missing=missing, overflow_events=len(ovf), extra=sorted(set(visited) - set(want))[:4]),
                     desc="not every (haplotype, SNV) pair attempted exactly once with its own allele count (n_base=%d ploidy=%d)" % (nb, P))
        elif ovf:
            col.fail(site, "int-store-overflow", shape=shape, witness=dict(n_base=nb, P=P, events=ovf[:2]), desc="out-of-range store into a fixed-width table")
        else:
            col.ok("compound_step visits each (h, j) once with n_alleles[j] (n_base=%d ploidy=%d; shuffle solver-chosen)" % (nb, P))


def _run_breaks(c, col):
    st = E.load("mchap.assemble.structural")
    site = "mchap.assemble.structural.random_breaks"
    n, br = c["n"], c["breaks"]

    def body(ctx):
        k = [0]

        def choice(options):
            k[0] += 1
            opts = [int(o) for o in options]
            i = E.fresh_int(ctx, "pick%d" % k[0], 0, len(opts) - 1)
            return opts[int(E.SymInt(i))]

        st.np = _shim(choice=choice)
        E.cfg.concrete_ints = True
        try:
            return st.random_breaks(br, n)
        finally:
            st.np = E.NP
            E.cfg.concrete_ints = False

    first = True
    for pr in E.explore(body, stats=col.stats):
        if pr.exc is not None:
            col.fail(site, "exception", witness=dict(exc=repr(pr.exc), n=n, breaks=br), desc="random_breaks raised %r" % (pr.exc,))
            continue
        col.path()
        if first:
            col.reachable(pr.ctx)
            first = False
        iv = [[int(a), int(b)] for a, b in pr.value]
        ok = len(iv) == br + 1 and iv[0][0] == 0 and iv[-1][1] == n and all(a < b for a, b in iv) and all(iv[i][1] == iv[i + 1][0] for i in range(len(iv) - 1))
        if not ok:
            col.fail(site, "interval-partition", witness=dict(n=n, breaks=br, intervals=iv), desc="intervals are not a partition of [0,n) into breaks+1 contiguous non-empty pieces")
        else:
            col.ok("random_breaks(%d, %d) partitions [0,n) into breaks+1 contiguous non-empty intervals (choices solver-enumerated)" % (br, n))


def _run_scompound(c, col):
    """structural.compound_step applies interval_step to every interval exactly once (any permutation)"""
    st = E.load("mchap.assemble.structural")
    site = "mchap.assemble.structural.compound_step"
    ivs = rnp.array([[0, 1], [1, 3], [3, 4]])

    def body(ctx):
        rot = E.fresh_int(ctx, "rot", 0, len(ivs) - 1)
        seen = []

        def permutation(a):
            r = int(E.SymInt(rot))
            return rnp.roll(rnp.asarray(a), r)

        def rec(genotype, reads, llk, cache=None, interval=None, step_type=0, **k):
            seen.append((tuple(int(x) for x in interval), int(step_type)))
            return llk, cache

        st.np = _shim(permutation=permutation)
        st.interval_step = rec
        E.cfg.concrete_ints = True
        try:
            st.compound_step(rnp.zeros((2, 4), dtype=rnp.int8), None, 0.0, ivs, 0.0, step_type=1)
        finally:
            st.np = E.NP
            E.cfg.concrete_ints = False
        return seen

    for pr in E.explore(body, stats=col.stats):
        if pr.exc is not None:
            raise pr.exc
        col.path()
        seen = pr.value
        if sorted(seen) != sorted((tuple(r), 1) for r in ivs.tolist()):
            col.fail(site, "interval-coverage", witness=dict(seen=seen), desc="not every interval stepped once")
        else:
            col.ok("structural.compound_step steps every interval once with the requested step type")


def _run_fix(c, col):
    mc = E.load("mchap.assemble.mcmc")
    site = "mchap.assemble.mcmc.DenovoMCMC._mcmc"
    n_pos, A = c["n_pos"], c["A"]
    P, steps = 2, 2

    def body(ctx):
        E.cfg.concrete_ints = True
        thr = E.fresh_real(ctx, "thr", 0, 1, lo_strict=True, hi_strict=False)
        ctx.assume(thr > z3.RealVal(1) / 2)  # documented use: a threshold close to one (a unique fixed allele per site)
        hp = E.SArray((n_pos, A), float)
        hz = {}
        for i in range(n_pos):
            vs = [E.fresh_real(ctx, "h%d_%d" % (i, a), 0, 1, lo_strict=False, hi_strict=False) for a in range(A)]
            ctx.assume(z3.Sum(vs) <= 1)
            for a in range(A):
                rnp.ndarray.__setitem__(hp, (i, a), E.SymReal(vs[a]))
                hz[(i, a)] = vs[a]
        mc._homozygosity_probabilities = lambda reads, n_alleles, ploidy, inbreeding=0, read_counts=None: hp
        mc._read_mean_dist = lambda reads: None
        mc.sample_snv_alleles = lambda dist: rnp.zeros(0, dtype=rnp.int8)
        captured = {}

        def fake_assembler(*, genotype, reads, n_alleles, steps, **k):
            n_het = reads.shape[1]
            captured["n_alleles"] = [int(x) for x in n_alleles]
            captured["n_het"] = n_het
            g = rnp.zeros((1, steps, P, n_het), dtype=rnp.int8)
            for s in range(steps):
                for h in range(P):
                    for j in range(n_het):
                        g[0, s, h, j] = 10 * (j + 1) + h + s
            return g, rnp.zeros((1, steps))

        mc._denovo_assembler = fake_assembler
        mc.np = _shim()
        obj = mc.DenovoMCMC(ploidy=P, n_alleles=[2 + (i % 2) if A > 2 else 2 for i in range(n_pos)], steps=steps, fix_homozygous=E.SymReal(thr), n_intervals=1)
        reads = rnp.full((2, n_pos, A), 0.5)
        real_array = mc.np.array

        try:
            old = E.NP.array
            g, l = obj._mcmc(reads, None, initial=rnp.zeros((P, n_pos), dtype=rnp.int8)[:, :0] if False else None)
        finally:
            mc.np = E.NP
            E.cfg.concrete_ints = False
        return thr, hz, g, captured, obj.n_alleles

    first = True
    for pr in E.explore(body, stats=col.stats):
        if pr.exc is not None:
            col.fail(site, "exception", witness=dict(exc=repr(pr.exc), model=E.model_dict(E.prove(pr.ctx, False).model)), desc="_mcmc raised %r" % (pr.exc,))
            continue
        col.path()
        ctx = pr.ctx
        if first:
            col.reachable(ctx)
            first = False
        thr, hz, g, cap, nal = pr.value
        g = rnp.asarray(g)
        if g.shape != (steps, P, n_pos):
            col.fail(site, "trace-shape", witness=dict(shape=list(g.shape)), desc="trace shape wrong")
            continue
        # which columns look sampled (markers >= 10)?
        het_cols = [j for j in range(n_pos) if int(g[0, 0, j]) >= 10]
        claims = []
        okstruct = True
        for k, j in enumerate(het_cols):
            want = [[[10 * (k + 1) + h + s for h in range(P)][h] for h in range(P)] for s in range(steps)]
            if [[int(g[s, h, j]) for h in range(P)] for s in range(steps)] != want:
                okstruct = False
            claims.append(z3.And([hz[(j, a)] < thr for a in range(A)]))  # sampled => not fixed
        if cap and cap.get("n_alleles") != [nal[j] for j in het_cols]:
            okstruct = False
        for j in range(n_pos):
            if j in het_cols:
                continue
            a = int(g[0, 0, j])
            if not all(int(g[s, h, j]) == a for s in range(steps) for h in range(P)) or not (0 <= a < A):
                okstruct = False
                continue
            claims.append(hz[(j, a)] >= thr)  # fixed column carries an allele whose homozygous posterior reached the threshold
        w = dict(het_cols=het_cols, trace0=g[0].tolist())
        if not okstruct:
            col.fail(site, "fixed-site-restoration", witness=w, desc="sampled columns out of order / wrong n_alleles / fixed column not constant", model=E.model_dict(E.prove(ctx, False).model))
        else:
            col.check(ctx, z3.And(claims) if claims else z3.BoolVal(True), site, "fixed-iff-threshold", witness=w,
                      desc="column fixed (with that allele) iff its homozygous posterior >= --mcmc-fix-homozygous; sampled columns keep order and their own allele counts")


def _run_hom(c, col):
    """_homozygosity_probabilities == oracle single-SNV posterior of each homozygote"""
    mc = E.load("mchap.assemble.mcmc")
    site = "mchap.assemble.mcmc._homozygosity_probabilities"
    P, A = c["P"], c["A"]
    R = 2

    def body(ctx):
        E.cfg.concrete_ints = True
        F = E.fresh_real(ctx, "F", 0, 1) if c["inbred"] else None
        reads = E.SArray((R, 1, A + c.get("pad", 0)), float)
        raw = {}
        for r in range(R):
            for a in range(A + c.get("pad", 0)):
                if a >= A:
                    rnp.ndarray.__setitem__(reads, (r, 0, a), 0.0)  # zero-probability non-allele (padding)
                    continue
                v = E.fresh_real(ctx, "p%d_%d" % (r, a), 0)
                rnp.ndarray.__setitem__(reads, (r, 0, a), E.SymReal(v))
                raw[(r, a)] = v
        counts = rnp.array([2, 1])
        try:
            out = mc._homozygosity_probabilities(reads, rnp.array([A], dtype=rnp.int8), P, inbreeding=E.SymReal(F) if F is not None else 0, read_counts=counts)
        finally:
            E.cfg.concrete_ints = False
        return F, raw, out

    first = True
    for pr in E.explore(body, stats=col.stats):
        if pr.exc is not None:
            col.fail(site, "exception", witness=dict(exc=repr(pr.exc)), desc="raised %r" % (pr.exc,))
            continue
        col.path()
        if first:
            col.reachable(pr.ctx)
            first = False
        F, raw, out = pr.value
        fz = [z3.RealVal(1) / A] * A
        J = {}
        for g in M.genotypes(A, P):
            lik = z3.RealVal(1)
            for r, cnt in ((0, 2), (1, 1)):
                mean = z3.Sum([raw[(r, a)] for a in g]) / P
                for _ in range(cnt):
                    lik = lik * mean
            J[g] = lik * M.genotype_prior(g, fz, F)
        tot = z3.Sum(list(J.values()))
        for a in range(A):
            col.check(pr.ctx, E.real_term(out[0, a]) * tot == J[tuple([a] * P)], site, "homozygous-posterior", witness=dict(a=a), shape=dict(inbred=c["inbred"]),
                      desc="_homozygosity_probabilities[site, a] == single-SNV posterior of the homozygote a (flat prior over alleles, ploidy %d, %d alleles)" % (P, A))


# ------------------------------------------------------------------ replay


def replay(v):
    c = v["config"]
    w = v.get("witness") or {}
    m = v.get("model") or {}
    k = v["kind"]
    if c["group"] == "sweep":
        from mchap.assemble import mutation as rm

        nb, P = c["n_base"], c["P"]
        visited = []
        saved = rm.base_step

        def rec(genotype, reads, llk, h, j, n_alleles, log_unique_haplotypes, inbreeding=0, temp=1, read_counts=None, cache=None):
            visited.append((int(h), int(j)))
            return llk, cache

        rm.base_step = rec
        try:
            import warnings

            with warnings.catch_warnings():
                warnings.simplefilter("ignore")
                # py_func with numpy's int8 array wraps exactly like the jitted store
                try:
                    rm.compound_step.py_func(rnp.zeros((P, nb), dtype=rnp.int8), None, 0.0, rnp.array([2 + (j % 3) for j in range(nb)], dtype=rnp.int8), 0.0)
                except Exception as e:
                    return True, "compound_step.py_func raised %r (n_base=%d)" % (e, nb)
        finally:
            rm.base_step = saved
        want = sorted((h, j) for h in range(P) for j in range(nb))
        pyfunc_bad = sorted(visited) != want
        # the jitted function on a real run: count the distinct sites whose allele can change
        jit_bad = _jit_sweep_misses(nb, P)
        return pyfunc_bad or jit_bad, "py_func visited %d distinct pairs of %d; jitted sweep leaves sites untouched: %s (n_base=%d ploidy=%d)" % (len(set(visited) & set(want)), len(want), jit_bad, nb, P)
    if c["group"] == "breaks":
        from mchap.assemble import structural as rs

        n, br = c["n"], c["breaks"]
        for seed in range(20):
            rnp.random.seed(seed)
            iv = rs.random_breaks.py_func(br, n).tolist()
            ok = len(iv) == br + 1 and iv[0][0] == 0 and iv[-1][1] == n and all(a < b for a, b in iv) and all(iv[i][1] == iv[i + 1][0] for i in range(len(iv) - 1))
            if not ok:
                return True, "random_breaks(%d,%d) -> %s" % (br, n, iv)
        return False, "partition ok on real code"
    if c["group"] == "hom":
        from mchap.assemble import mcmc as rmc
        from checks.c05 import _num_prior

        P, A = c["P"], c["A"]
        F = float(m.get("F", 0.3)) if c["inbred"] else 0.0
        reads = rnp.array([[[float(m.get("p%d_%d" % (r, a), 0.5)) if a < A else 0.0 for a in range(A + c.get("pad", 0))]] for r in range(2)])
        out = rmc._homozygosity_probabilities(reads, rnp.array([A], dtype=rnp.int8), P, inbreeding=F, read_counts=rnp.array([2, 1]))
        J = {}
        for g in M.genotypes(A, P):
            lik = 1.0
            for r, cnt in ((0, 2), (1, 1)):
                lik *= (sum(reads[r, 0, a] for a in g) / P) ** cnt
            J[g] = lik * _num_prior(g, [1.0 / A] * A, F if c["inbred"] else None)
        a = w["a"]
        want = J[tuple([a] * P)] / sum(J.values())
        return abs(out[0, a] - want) > 1e-6, "hom prob %r oracle %r" % (out[0, a], want)
    if c["group"] == "fix":
        return _replay_fix(v)
    return False, "kind?"


def _jit_sweep_misses(nb, P):
    """run the real jitted compound_step on reads that strongly favour allele 1 everywhere, starting from all-0:
    a site that is never visited keeps allele 0"""
    from mchap.assemble import mutation as rm
    from mchap.jitutils import seed_numba
    import math

    reads = rnp.zeros((1, nb, 2))
    reads[:, :, 0] = 0.2  # every visited site flips to allele 1 with acceptance probability 1
    reads[:, :, 1] = 0.8
    g = rnp.zeros((P, nb), dtype=rnp.int8)
    from mchap.assemble.likelihood import log_likelihood
    seed_numba(1)
    rnp.random.seed(1)
    llk = log_likelihood(reads, g)
    nal = rnp.full(nb, 2, dtype=rnp.int8)
    llk, _ = rm.compound_step(g, reads, llk, nal, nb * math.log(2.0), 0.0, 1.0, None, None)  # one sweep
    untouched = [j for j in range(nb) if (g[:, j] == 0).all()]
    return untouched


def _replay_fix(v):
    from mchap.assemble import mcmc as rmc

    c = v["config"]
    m = v.get("model") or {}
    n_pos, A = c["n_pos"], c["A"]
    P, steps = 2, 2
    thr = float(m.get("thr", 0.9))
    hp = rnp.array([[float(m.get("h%d_%d" % (i, a), 0.0)) for a in range(A)] for i in range(n_pos)])
    saved = (rmc._homozygosity_probabilities, rmc._read_mean_dist, rmc.sample_snv_alleles, rmc._denovo_assembler)

    def fake(*, genotype, reads, n_alleles, steps, **k):
        n_het = reads.shape[1]
        g = rnp.zeros((1, steps, P, n_het), dtype=rnp.int8)
        for s in range(steps):
            for h in range(P):
                for j in range(n_het):
                    g[0, s, h, j] = 10 * (j + 1) + h + s
        return g, rnp.zeros((1, steps))

    try:
        rmc._homozygosity_probabilities = lambda *a, **k: hp
        rmc._read_mean_dist = lambda reads: None
        rmc.sample_snv_alleles = lambda dist: rnp.zeros(0, dtype=rnp.int8)
        rmc._denovo_assembler = fake
        obj = rmc.DenovoMCMC(ploidy=P, n_alleles=[2] * n_pos, steps=steps, fix_homozygous=thr, n_intervals=1)
        g, _ = obj._mcmc(rnp.full((2, n_pos, A), 0.5), None, initial=None)
    except Exception as e:
        return v["kind"] == "exception", "real _mcmc raised %r" % (e,)
    finally:
        rmc._homozygosity_probabilities, rmc._read_mean_dist, rmc.sample_snv_alleles, rmc._denovo_assembler = saved
    bad = []
    k = 0
    for j in range(n_pos):
        fixed_alleles = [a for a in range(A) if hp[j, a] >= thr]
        col = g[:, :, j]
        if fixed_alleles:
            if not any((col == a).all() for a in fixed_alleles):
                bad.append((j, "should be fixed to %s" % fixed_alleles, col.tolist()))
        else:
            k += 1
            if int(col[0, 0]) != 10 * k:
                bad.append((j, "should be sampled column %d" % k, col.tolist()))
    return bool(bad), "thr=%r hom_probs=%s -> %s" % (thr, hp.tolist(), bad[:2])


def validate(seed):
    """engine vs real: random_breaks with fixed picks; _homozygosity_probabilities on concrete reads"""
    import random
    from mchap.assemble import mcmc as rmc

    E.use_summaries(True)
    E.reset_modules()
    E.cfg.concrete_ints = True
    mc = E.load("mchap.assemble.mcmc")
    rnd = random.Random(seed)
    n = 0
    for _ in range(5):
        P, A = rnd.choice([(2, 2), (2, 3), (3, 2)])
        reads = rnp.array([[[rnd.randint(1, 9) / 10.0 for a in range(A)]] for r in range(2)])
        F = rnd.choice([0.0, 0.25])
        want = rmc._homozygosity_probabilities(reads, rnp.array([A], dtype=rnp.int8), P, inbreeding=F, read_counts=rnp.array([2, 1]))

        def body(ctx):
            sr = E.SArray(reads.shape, float)
            for idx in rnp.ndindex(reads.shape):
                rnp.ndarray.__setitem__(sr, idx, E.symfloat(repr(float(reads[idx]))))
            return mc._homozygosity_probabilities(sr, rnp.array([A], dtype=rnp.int8), P, inbreeding=E.symfloat(repr(F)) if F else 0, read_counts=rnp.array([2, 1]))

        vals = [p for p in E.explore(body)]
        assert len(vals) == 1 and vals[0].exc is None, vals
        got = E.to_float_array(vals[0].value)
        assert rnp.abs(got - want).max() < 1e-9, (got, want)
        n += 1
    E.cfg.concrete_ints = False
    return n
