"""C13 -- haplotype reporting threshold and unknown-allele semantics in assemble."""
import itertools
import math

import numpy as rnp
import z3

from nbsym import engine as E

ID = "C13"
TITLE = "assemble lists an ALT haplotype iff its occurrence posterior >= threshold in some sample; REF first, REFMASKED iff; ALT order by summed dosage; GT '.' exactly for excluded haplotypes; AFP/GP sum <= 1; G-length of GP"
ENCODED = ["mchap.assemble.haplotype_calling.call_posterior_haplotypes", "mchap.assemble.classes.PosteriorGenotypeDistribution.allele_frequencies",
           "mchap.assemble.classes.PosteriorGenotypeDistribution.mode_genotype_support", "mchap.assemble.classes.GenotypeSupportDistribution.mode_genotype",
           "mchap.application.assemble.program.call_sample_genotypes", "mchap.application.assemble._genotype_as_alleles",
           "mchap.application.assemble._genotype_posterior_as_array", "mchap.mset.categorize", "mchap.mset.unique"]
STUBS = ["DenovoMCMC(...).fit().burn() -> object whose posterior() is a PosteriorGenotypeDistribution with symbolic probabilities over a concrete genotype list",
         "stub locus (format_haplotypes renders the integer haplotype), qual_of_prob / minimum_error_correction / natural_log_to_log10 constants"]
ASSUMES = ["per-sample genotype probabilities symbolic >= 0 summing to one; threshold symbolic in [0,1]",
           "byte-keyed dictionaries (tobytes) operate on concrete haplotype arrays: the genotype lists are concrete per scenario, only the probabilities and the threshold are symbolic"]
BOUNDS = {"quick": "6 scenarios: 1-2 samples, ploidy 2 and 4 (two mixed-ploidy pairs), 2 SNVs (4 possible haplotypes), <= 3 genotypes per sample; --report GP/AFP on and off",
          "thorough": "8 scenarios incl. 3 samples, mixed ploidy, reference absent from every genotype, a single homozygous-reference sample"}
OUTSIDE = "the MCMC itself (C01/C14); more genotypes per sample than listed; decimal rendering"
TASKS_PER_CHILD = 2

H00, H01, H10, H11 = [0, 0], [0, 1], [1, 0], [1, 1]
SCENARIOS = {
    "dip2": [[[H00, H01], [H01, H11], [H00, H00]], [[H01, H01], [H10, H11]]],
    "tet2": [[[H00, H00, H01, H11], [H00, H01, H01, H11], [H01, H01, H11, H11]], [[H00, H00, H00, H00], [H00, H00, H00, H10]]],
    "noref": [[[H01, H11], [H10, H11], [H01, H10]]],
    "homref": [[[H00, H00], [H00, H01]]],
    "mixed": [[[H00, H01], [H01, H01]], [[H01, H01, H10, H11], [H00, H01, H10, H10]]],
    # a haplotype private to a diploid (high frequency, dosage <= 2) against one private to a tetraploid (dosage up to 3)
    "mixed2": [[[H01, H01], [H00, H01]], [[H00, H10, H10, H10], [H00, H00, H10, H10]]],
    "three": [[[H00, H01], [H11, H11]], [[H10, H11], [H00, H10]], [[H01, H01], [H00, H11]]],
    "tetnoref": [[[H01, H01, H10, H11], [H01, H10, H10, H11], [H11, H11, H11, H11]]],
    "dupes": [[[H00, H01], [H00, H01], [H01, H01]]],
}
QUICK = ["dip2", "tet2", "noref", "homref", "mixed", "mixed2"]


def configs(tier):
    out = []
    for name in (QUICK if tier == "quick" else list(SCENARIOS)):
        if name == "dupes":
            continue
        for report in ("none", "GP+AFP"):
            out.append(dict(scenario=name, report=report))
    # the threshold the program applies is the one on the command line (0 is a threshold, not "option absent")
    out.append(dict(scenario="dip2", report="none", group="cli-attrs", prog="assemble"))
    return out


def weight(c):
    return sum(len(s) for s in SCENARIOS[c["scenario"]]) ** 2


class _Locus:
    sequence = "AA"

    def count_alleles(self):
        return [2, 2]

    def format_haplotypes(self, arr):
        return ["".join("AC"[int(x)] for x in h) for h in arr]


def run_config(c, col):
    E.use_summaries(True)
    E.reset_modules()
    E.cfg.concrete_ints = True
    if c.get("group") == "cli-attrs":
        from checks import wiring

        return wiring.run_cli_attrs(c, col)
    import warnings

    asm = E.load("mchap.application.assemble")
    warnings.simplefilter("ignore")
    bc = E.load("mchap.application.baseclass")
    cl = E.load("mchap.assemble.classes")
    FORMAT = E.load("mchap.io.vcf.formatfields")
    INFO = E.load("mchap.io.vcf.infofields")
    COLUMN = E.load("mchap.io.vcf.columns")
    asm.qual_of_prob = lambda p: 0
    asm.natural_log_to_log10 = lambda x: x
    asm.minimum_error_correction = lambda calls, haps: rnp.zeros(1)
    scen = SCENARIOS[c["scenario"]]
    samples = ["s%d" % i for i in range(len(scen))]
    site = "mchap.application.assemble.program.call_sample_genotypes"
    shape = dict(report=c["report"])
    prof = E.Profile()

    def body(ctx):
        thr = E.fresh_real(ctx, "thr", 0, 1, lo_strict=False, hi_strict=False)
        posts = {}
        pz = {}
        for s, gs in zip(samples, scen):
            ps = [z3.Real("p_%s_%d" % (s, i)) for i in range(len(gs) - 1)]
            ps.append(1 - (z3.Sum(ps) if len(ps) > 1 else ps[0]) if ps else z3.RealVal(1))
            for p in ps:
                ctx.assume(p >= 0)
            posts[s] = cl.PosteriorGenotypeDistribution(rnp.array(gs, dtype=rnp.int8), E.real_array(ps))
            pz[s] = ps

        class FakeTrace:
            def __init__(self, s):
                self.s = s

            def burn(self, n):
                return self

            def posterior(self):
                return posts[self.s]

            def replicate_incongruence(self, threshold=0.6):
                return 0

        class FakeMCMC:
            def __init__(self, **kw):
                self.ploidy = kw["ploidy"]

            def fit(self, reads, read_counts):
                return FakeTrace(reads)

        asm.DenovoMCMC = FakeMCMC
        prog = asm.program.__new__(asm.program)
        prog.info_fields = []
        base = [FORMAT.GT, FORMAT.GQ, FORMAT.GPM, FORMAT.SPM, FORMAT.SQ]
        prog.format_fields = base + ([FORMAT.GP, FORMAT.AFP, FORMAT.AOP, FORMAT.ACP] if c["report"] != "none" else [])
        for k, v in dict(mcmc_steps=1, mcmc_chains=1, mcmc_fix_homozygous=0.999, mcmc_recombination_step_probability=0.5, mcmc_partial_dosage_step_probability=0.5,
                         mcmc_dosage_step_probability=1.0, sample_mcmc_temperatures={s: (1.0,) for s in samples}, random_seed=1, mcmc_llk_cache_threshold=100,
                         mcmc_burn=0, mcmc_incongruence_threshold=0.6).items():
            setattr(prog, k, v)
        prog.haplotype_posterior_threshold = E.SymReal(thr)
        fields = [FORMAT.GT, FORMAT.GQ, FORMAT.GPM, FORMAT.SPM, FORMAT.SQ, FORMAT.MCI, FORMAT.ACP, FORMAT.AFP, FORMAT.AOP, FORMAT.GP, FORMAT.GL, FORMAT.MEC, FORMAT.MECP]
        data = bc.LocusAssemblyData(
            locus=_Locus(), samples=list(samples), sample_bams={s: "x.bam" for s in samples}, sample_ploidy={s: len(gs[0]) for s, gs in zip(samples, scen)},
            sample_inbreeding={s: 0 for s in samples}, read_calls={s: rnp.zeros((1, 2), dtype=int) for s in samples},
            read_dists={s: s for s in samples}, read_counts={s: None for s in samples}, infofields=[], formatfields=prog.format_fields,
            columndata={COLUMN.REF: None, COLUMN.ALT: None, COLUMN.FILTER: []}, infodata={}, sampledata={f: {} for f in fields})
        out = prog.call_sample_genotypes(data)
        return thr, pz, out, FORMAT, INFO, COLUMN

    with prof:
        first = True
        for pr in E.explore(body, stats=col.stats):
            if pr.exc is not None:
                cause = pr.exc.__cause__ or pr.exc
                col.fail(site, "exception", shape=dict(report=c["report"], exc=type(cause).__name__), witness=dict(exc=repr(cause), scenario=c["scenario"]),
                         desc="call_sample_genotypes raised %r" % (cause,), model=E.model_dict(E.prove(pr.ctx, False).model))
                continue
            col.path()
            ctx = pr.ctx
            if first:
                col.reachable(ctx)
                first = False
            thr, pz, out, FORMAT, INFO, COLUMN = pr.value
            path_model = E.model_dict(E.prove(ctx, False).model)  # a point on this path: what the replay runs
            alts = list(out.columndata[COLUMN.ALT])
            masked = bool(out.infodata[INFO.REFMASKED])
            listed = [tuple("AC".index(ch) for ch in a) for a in alts]
            universe = [tuple(h) for h in (H00, H01, H10, H11)]
            occ = {}
            dose = {}
            for h in universe:
                for s, gs in zip(samples, scen):
                    occ[(h, s)] = z3.Sum([p for g, p in zip(gs, pz[s]) if list(h) in g] + [z3.RealVal(0)])
                    dose[(h, s)] = z3.Sum([p * g.count(list(h)) for g, p in zip(gs, pz[s])] + [z3.RealVal(0)])
            w0 = dict(scenario=c["scenario"], alts=alts, refmasked=masked)
            if len(set(listed)) != len(listed) or (0, 0) in listed:
                col.fail(site, "alt-duplicates-or-ref", shape=shape, witness=w0, desc="ALT lists a haplotype twice or lists the reference", model=path_model)
            for h in universe:
                # a haplotype absent from a sample's posterior support has no posterior there (threshold 0 included)
                meets = z3.Or([occ[(h, s)] >= thr for s, gs in zip(samples, scen) if any(list(h) in g for g in gs)] + [z3.BoolVal(False)])
                if h == (0, 0):
                    col.check(ctx, z3.Not(meets) if masked else meets, site, "refmasked-iff", shape=shape, witness=w0, desc="REFMASKED iff the reference haplotype met the threshold in no sample")
                else:
                    col.check(ctx, meets if h in listed else z3.Not(meets), site, "alt-iff-threshold", shape=shape, witness=dict(w0, h=h),
                              desc="haplotype listed as ALT iff its occurrence posterior >= threshold in at least one sample")
            W = {h: z3.Sum([z3.If(occ[(h, s)] >= thr, dose[(h, s)], 0) for s, gs in zip(samples, scen) if any(list(h) in g for g in gs)] + [z3.RealVal(0)]) for h in universe}
            for a, b in zip(listed, listed[1:]):
                col.check(ctx, W[a] >= W[b], site, "alt-order", shape=shape, witness=w0, desc="ALT alleles in non-increasing order of posterior dosage summed over the samples where they met the threshold")
            n_all = len(alts) + 1
            label = {h: i + 1 for i, h in enumerate(listed)}
            if not masked:
                label[(0, 0)] = 0
            for s, gs in zip(samples, scen):
                gt = [int(a) for a in out.sampledata[FORMAT.GT][s]]
                ploidy = len(gs[0])
                ws = dict(w0, sample=s, GT=gt)
                ok, called = gt_ok(gt, gs, label, masked, n_all)
                if not ok:
                    col.fail(site, "gt-form", shape=shape, witness=ws, desc="GT malformed: wrong length / uses masked allele 0 / not sorted with '.' last / not the projection of one of the sample's genotypes", model=path_model)
                else:
                    col.ok("GT has ploidy entries, sorted with '.' last, never the masked reference, and is the projection of a genotype of the sample")
                    # the called genotype is the mode genotype of the mode support: its GPM must be that genotype's probability
                    gpm = out.sampledata[FORMAT.GPM][s]
                    col.check(ctx, z3.Or([E.real_term(gpm) == p for g, p in zip(gs, pz[s]) if g in called]), site, "gt-gpm-consistent", shape=shape, witness=ws,
                              desc="GPM is the posterior probability of (one of) the genotype(s) that GT encodes")
                if c["report"] != "none":
                    afp = out.sampledata[FORMAT.AFP][s]
                    aop = out.sampledata[FORMAT.AOP][s]
                    if len(afp) != n_all or len(aop) != n_all:
                        col.fail(site, "r-length", shape=shape, witness=ws, desc="AFP/AOP length != number of alleles", model=path_model)
                    else:
                        cl_ = []
                        for i in range(n_all):
                            h = (0, 0) if i == 0 else listed[i - 1]
                            cl_.append(E.real_term(afp[i]) == dose[(h, s)] / ploidy)
                            cl_.append(E.real_term(aop[i]) == occ[(h, s)])
                        col.check(ctx, z3.And(cl_), site, "afp-aop-values", shape=shape, witness=ws, desc="AFP/AOP of each listed allele == its posterior frequency / occurrence in the sample")
                        col.check(ctx, z3.Sum([E.real_term(x) for x in afp]) <= 1, site, "afp-sum", shape=shape, witness=ws, desc="sum AFP <= 1")
                    gp = out.sampledata[FORMAT.GP][s]
                    want_len = math.comb(n_all + ploidy - 1, ploidy)
                    if len(gp) != want_len:
                        col.fail(site, "gp-length", shape=dict(report=c["report"], refmasked=masked), witness=dict(ws, got=len(gp), want=want_len),
                                 desc="GP does not have the G-length for len(ALT)+1 alleles", model=E.model_dict(E.prove(ctx, False).model))
                    else:
                        col.check(ctx, z3.Sum([E.real_term(x) for x in gp]) <= 1, site, "gp-sum", shape=shape, witness=ws, desc="sum GP <= 1")
    col.functions |= set(prof.names())


# ------------------------------------------------------------------ replay: the real application function with the MCMC replaced by the model's posterior


def gt_ok(gt, gs, label, masked, n_all):
    """GT well-formed AND the projection of one of the sample's genotypes through the label map ('.' exactly for haplotypes that
    are not listed); returns (ok, genotypes that project onto gt) -- shared by the symbolic run and the replay"""
    ploidy = len(gs[0])
    called = [g for g in gs if sorted([x for x in (label.get(tuple(h), -1) for h in g) if x >= 0]) + [-1] * sum(1 for h in g if tuple(h) not in label) == gt]
    ok = len(gt) == ploidy and (masked is False or 0 not in gt) and all(-1 <= a < n_all for a in gt)
    nn = [a for a in gt if a >= 0]
    ok = ok and nn == sorted(nn) and gt == nn + [-1] * (ploidy - len(nn)) and bool(called)
    return ok, called


def _real_run(c, m):
    import warnings
    from mchap.application import assemble as rasm, baseclass as rbc
    from mchap.assemble import classes as rcl
    import mchap.io.vcf.formatfields as FORMAT
    import mchap.io.vcf.infofields as INFO
    import mchap.io.vcf.columns as COLUMN

    scen = SCENARIOS[c["scenario"]]
    samples = ["s%d" % i for i in range(len(scen))]
    thr = float(m.get("thr", 0.2))
    posts, probs = {}, {}
    for s, gs in zip(samples, scen):
        ps = [float(m.get("p_%s_%d" % (s, i), 1.0 / len(gs))) for i in range(len(gs) - 1)]
        ps.append(1.0 - sum(ps))
        posts[s] = rcl.PosteriorGenotypeDistribution(rnp.array(gs, dtype=rnp.int8), rnp.array(ps))
        probs[s] = ps

    class FakeTrace:
        def __init__(self, s):
            self.s = s

        def burn(self, n):
            return self

        def posterior(self):
            return posts[self.s]

        def replicate_incongruence(self, threshold=0.6):
            return 0

    class FakeMCMC:
        def __init__(self, **kw):
            pass

        def fit(self, reads, read_counts):
            return FakeTrace(reads)

    saved = (rasm.DenovoMCMC, rasm.minimum_error_correction)
    rasm.DenovoMCMC = FakeMCMC
    rasm.minimum_error_correction = lambda calls, haps: rnp.zeros(1)
    try:
        prog = rasm.program.__new__(rasm.program)
        prog.info_fields = []
        base = [FORMAT.GT, FORMAT.GQ, FORMAT.GPM, FORMAT.SPM, FORMAT.SQ]
        prog.format_fields = base + ([FORMAT.GP, FORMAT.AFP, FORMAT.AOP, FORMAT.ACP] if c["report"] != "none" else [])
        for k, v in dict(mcmc_steps=1, mcmc_chains=1, mcmc_fix_homozygous=0.999, mcmc_recombination_step_probability=0.5, mcmc_partial_dosage_step_probability=0.5,
                         mcmc_dosage_step_probability=1.0, sample_mcmc_temperatures={s: (1.0,) for s in samples}, random_seed=1, mcmc_llk_cache_threshold=100,
                         mcmc_burn=0, mcmc_incongruence_threshold=0.6, haplotype_posterior_threshold=thr).items():
            setattr(prog, k, v)
        fields = [FORMAT.GT, FORMAT.GQ, FORMAT.GPM, FORMAT.SPM, FORMAT.SQ, FORMAT.MCI, FORMAT.ACP, FORMAT.AFP, FORMAT.AOP, FORMAT.GP, FORMAT.GL, FORMAT.MEC, FORMAT.MECP]
        data = rbc.LocusAssemblyData(
            locus=_Locus(), samples=list(samples), sample_bams={s: "x.bam" for s in samples}, sample_ploidy={s: len(gs[0]) for s, gs in zip(samples, scen)},
            sample_inbreeding={s: 0 for s in samples}, read_calls={s: rnp.zeros((1, 2), dtype=int) for s in samples},
            read_dists={s: s for s in samples}, read_counts={s: None for s in samples}, infofields=[], formatfields=prog.format_fields,
            columndata={COLUMN.REF: None, COLUMN.ALT: None, COLUMN.FILTER: []}, infodata={}, sampledata={f: {} for f in fields})
        with warnings.catch_warnings():
            warnings.simplefilter("ignore")
            out = prog.call_sample_genotypes(data)
    finally:
        rasm.DenovoMCMC, rasm.minimum_error_correction = saved
    return out, thr, probs, samples, scen, FORMAT, INFO, COLUMN


def replay(v):
    c = v["config"]
    if c.get("group") == "cli-attrs":
        from checks import wiring

        return wiring.replay_real(v, wiring.run_cli_attrs)
    m = v.get("model") or {}
    k = v["kind"]
    try:
        out, thr, probs, samples, scen, FORMAT, INFO, COLUMN = _real_run(c, m)
    except Exception as e:
        cause = e.__cause__ or e
        return k == "exception", "real call_sample_genotypes raised %r (scenario %s, thr=%r, probs=%s)" % (cause, c["scenario"], m.get("thr"), {kk: vv for kk, vv in m.items() if kk.startswith("p_")})
    if k == "exception":
        return False, "no exception on the real code"
    alts = list(out.columndata[COLUMN.ALT])
    masked = bool(out.infodata[INFO.REFMASKED])
    listed = [tuple("AC".index(ch) for ch in a) for a in alts]
    universe = [tuple(h) for h in (H00, H01, H10, H11)]
    occ = {(h, s): sum(p for g, p in zip(gs, probs[s]) if list(h) in g) for h in universe for s, gs in zip(samples, scen)}
    dose = {(h, s): sum(p * g.count(list(h)) for g, p in zip(gs, probs[s])) for h in universe for s, gs in zip(samples, scen)}
    eps = 1e-9
    if k in ("alt-iff-threshold", "refmasked-iff"):
        bad = []
        for h in universe:
            present = [s for s, gs in zip(samples, scen) if any(list(h) in g for g in gs)]
            mx = max([occ[(h, s)] for s in present] + [-1.0])
            if abs(mx - thr) < eps:
                continue
            meets = mx >= thr
            if h == (0, 0):
                if meets == masked:
                    bad.append(("REF", mx, masked))
            elif meets != (h in listed):
                bad.append((h, mx, h in listed))
        return bool(bad), "thr=%r: %s (ALT=%s REFMASKED=%s)" % (thr, bad, alts, masked)
    if k == "alt-order":
        W = {h: sum(dose[(h, s)] for s in samples if occ[(h, s)] >= thr) for h in universe}
        bad = [(a, b, W[a], W[b]) for a, b in zip(listed, listed[1:]) if W[a] < W[b] - eps]
        return bool(bad), "ALT order violates dosage ordering: %s" % bad
    n_all = len(alts) + 1
    if k in ("gp-length", "gp-sum"):
        import math as _m
        bad = []
        for s, gs in zip(samples, scen):
            gp = out.sampledata[FORMAT.GP][s]
            want = _m.comb(n_all + len(gs[0]) - 1, len(gs[0]))
            if len(gp) != want or float(rnp.sum(gp)) > 1 + eps:
                bad.append((s, len(gp), want, float(rnp.sum(gp))))
        return bool(bad), "GP problems (sample, len, expected G-length, sum): %s  ALT=%s REFMASKED=%s" % (bad, alts, masked)
    if k in ("afp-aop-values", "afp-sum", "r-length"):
        bad = []
        for s, gs in zip(samples, scen):
            afp = out.sampledata[FORMAT.AFP][s]
            if len(afp) != n_all or float(rnp.sum(afp)) > 1 + eps:
                bad.append((s, list(afp)))
                continue
            for i in range(n_all):
                h = (0, 0) if i == 0 else listed[i - 1]
                if abs(afp[i] - dose[(h, s)] / len(gs[0])) > 1e-6:
                    bad.append((s, i, float(afp[i]), dose[(h, s)] / len(gs[0])))
        return bool(bad), "AFP problems: %s" % bad[:3]
    if k in ("gt-form", "gt-gpm-consistent", "alt-duplicates-or-ref"):
        bad = []
        label = {h: i + 1 for i, h in enumerate(listed)}
        if not masked:
            label[(0, 0)] = 0
        for s, gs in zip(samples, scen):
            gt = [int(a) for a in out.sampledata[FORMAT.GT][s]]
            ok, called = gt_ok(gt, gs, label, masked, n_all)
            if not ok:
                bad.append((s, gt, "not the projection of a genotype of the sample through the listed alleles" if not called else "malformed"))
            elif k == "gt-gpm-consistent":
                gpm = float(out.sampledata[FORMAT.GPM][s])
                if not any(abs(gpm - p) < 1e-9 for g, p in zip(gs, probs[s]) if g in called):
                    bad.append((s, gt, "GPM %r is not the probability of the genotype GT encodes" % gpm))
        if len(set(listed)) != len(listed) or (0, 0) in listed:
            bad.append(("ALT", alts))
        return bool(bad), "GT/ALT problems: %s" % bad
    return False, "kind?"


def validate(seed):
    """engine vs real: call_posterior_haplotypes on concrete posteriors"""
    import random
    from mchap.assemble import haplotype_calling as rhc, classes as rcl

    E.use_summaries(True)
    E.reset_modules()
    E.cfg.concrete_ints = True
    hc = E.load("mchap.assemble.haplotype_calling")
    cl = E.load("mchap.assemble.classes")
    rnd = random.Random(seed)
    n = 0
    for _ in range(8):
        name = rnd.choice(list(SCENARIOS))
        scen = SCENARIOS[name]
        thr = rnd.choice([0.0, 0.1, 0.3, 0.5, 1.0])
        plist = []
        for gs in scen:
            ps = [rnd.randint(0, 8) for _ in gs]
            if sum(ps) == 0:
                ps[0] = 1
            plist.append([p / sum(ps) for p in ps])
        want_h, want_r = rhc.call_posterior_haplotypes([rcl.PosteriorGenotypeDistribution(rnp.array(gs, dtype=rnp.int8), rnp.array(ps)) for gs, ps in zip(scen, plist)], threshold=thr)

        def body(ctx):
            posts = [cl.PosteriorGenotypeDistribution(rnp.array(gs, dtype=rnp.int8), E.real_array([E.SymReal(z3.RealVal(E.Fraction(p).limit_denominator(1000))) for p in ps])) for gs, ps in zip(scen, plist)]
            return hc.call_posterior_haplotypes(posts, threshold=E.SymReal(z3.RealVal(E.Fraction(thr).limit_denominator(1000))))

        vals = [p for p in E.explore(body)]
        assert len(vals) == 1 and vals[0].exc is None, vals
        got_h, got_r = vals[0].value
        # ties in summed dosage may be ordered differently: compare as sets plus the REF flag
        assert bool(got_r) == bool(want_r) and sorted(map(tuple, rnp.asarray(got_h).tolist())) == sorted(map(tuple, want_h.tolist())), (name, thr, got_h, want_h)
        n += 1
    return n
