"""C04 -- read likelihood has the documented mixture semantics and symmetries."""
import itertools

import numpy as rnp
import z3

from nbsym import engine as E

ID = "C04"
TITLE = "log_likelihood == sum_r c_r ln(mean_h prod_j P(read|allele)) with gaps as factor 1; invariances; structural-change variant == likelihood of the rearranged genotype"
ENCODED = [
    "mchap.assemble.likelihood.log_likelihood", "mchap.assemble.likelihood.log_likelihood_structural_change",
    "mchap.jitutils.structural_change", "mchap.calling.likelihood.log_likelihood_alleles",
    "mchap.pedigree.likelihood.log_likelihood_alleles_cached", "mchap.assemble.likelihood.log_likelihood_structural_change_cached",
]
STUBS = []
ASSUMES = ["read tensor entries symbolic reals >= 0 with one symbolic NaN(gap) flag per (read, site)",
           "for the count-0 obligations the entries are > 0 (float: -inf * 0 = nan is outside the real model)",
           "genotype entries, rearrangement index vector (any vector in [0,ploidy)^ploidy), interval and read counts are symbolic integers, concretised path by path by the solver"]
BOUNDS = {
    "quick": "(ploidy,sites,alleles,reads) in {(2,2,2,2),(2,2,2,1),(3,2,2,1),(2,1,3,2)}, symbolic gap flags on the first read; counts in 0..3; all genotypes, all index vectors in [0,P)^P, all intervals; memoised structural wrapper: histories of 3 lookups over 8 genotypes of 2 haplotypes x 3 sites, interval None/[0,1)/[1,3), real arraymap of capacity 16 (a key takes 6 nodes: the third distinct key overflows)",
    "thorough": "adds gap flags on every read and shapes (3,2,2,2),(2,3,2,2),(2,2,3,2),(3,2,3,1),(4,2,2,1)",
}
OUTSIDE = "larger shapes; float rounding; -inf*0 for zero-count reads of zero probability"
# (ploidy, sites, alleles, reads, reads-with-symbolic-gap-flags, groups)
QUICK = [(2, 2, 2, 2, 1, ("sem",)), (2, 2, 2, 1, 1, ("sc", "alleles")), (3, 2, 2, 1, 1, ("sem",)), (2, 1, 3, 2, 1, ("sem", "sc")), (2, 1, 2, 2, 0, ("alleles",))]
THOROUGH = [(2, 2, 2, 2, 2, ("sem", "sc", "alleles")), (3, 2, 2, 1, 1, ("sem", "sc", "alleles")), (2, 1, 3, 2, 2, ("sem", "sc", "alleles")),
            (3, 2, 2, 2, 1, ("sem",)), (2, 3, 2, 2, 1, ("sem",)), (2, 2, 3, 2, 1, ("sem", "sc")), (3, 2, 3, 1, 1, ("sem",)),
            (4, 2, 2, 1, 1, ("sem",))]  # ((3,3,2,1) and the structural variant of (2,3,2,2) were 40% of the tier's cost: sized out)


def configs(tier):
    out = []
    for (P, B, A, R, GR, groups) in (QUICK if tier == "quick" else THOROUGH):
        for g0 in itertools.product(range(A), repeat=B):
            for group in groups:
                out.append(dict(P=P, B=B, A=A, R=R, GR=GR, g0=list(g0), group=group))
    # the entry point the sampler really uses for a proposed rearrangement: the memoised wrapper, over histories of lookups
    # (2 haplotypes x 3 sites, interval None / head / tail) -- shared with C09
    for first in ((0, 1) if tier == "quick" else (0, 1, 2, 3)):
        out.append(dict(group="sc-cached", first=first, max=16, ncalls=3, B=3, P=2, A=2, R=0))
    return out


def weight(c):
    return (c["A"] ** (c["B"] * (c["P"] - 1))) * 2 ** (c["R"] * c["B"])


def _reads(ctx, R, B, A, strict=False, tag="p", GR=99):
    reads = E.SArray((R, B, A), float)
    raw = {}
    for r in range(R):
        for j in range(B):
            nf = z3.Bool("gap_%s_%d_%d" % (tag, r, j)) if r < GR else z3.BoolVal(False)
            for a in range(A):
                v = z3.Real("%s_%d_%d_%d" % (tag, r, j, a))
                ctx.assume(v > 0 if strict else v >= 0)
                rnp.ndarray.__setitem__(reads, (r, j, a), E.SymReal(v, nan=nf))
                raw[(r, j, a)] = (v, nf)
    return reads, raw


def _genotype(ctx, c):
    P, B, A = c["P"], c["B"], c["A"]
    g = E.SArray((P, B), rnp.int8)
    for j in range(B):
        rnp.ndarray.__setitem__(g, (0, j), c["g0"][j])
    for h in range(1, P):
        for j in range(B):
            rnp.ndarray.__setitem__(g, (h, j), E.SymInt(E.fresh_int(ctx, "g_%d_%d" % (h, j), 0, A - 1)))
    return g


def _conc(ctx, model, g):
    return [[int(E.model_value(model, x.e)) if isinstance(x, E.SymInt) else int(x) for x in row] for row in g]


def _oracle(raw, model, G, counts, R, B):
    """prod_r (1/P sum_h prod_{j not gap} reads[r,j,G[h][j]])^{c_r} as a z3 term for the path's concrete G / gaps"""
    P = len(G)
    tot = z3.RealVal(1)
    for r in range(R):
        s = z3.RealVal(0)
        for h in range(P):
            t = z3.RealVal(1)
            for j in range(B):
                v, nf = raw[(r, j, G[h][j])]
                if not z3.is_true(model.eval(nf, model_completion=True)):
                    t = t * v
            s = s + t
        s = s / P
        for _ in range(counts[r]):
            tot = tot * s
    return tot


def _imodel(ctx):
    assert ctx.isolver.check() == z3.sat
    return ctx.isolver.model()


def run_config(c, col):
    E.use_summaries(True)
    E.reset_modules()
    if c["group"] == "sc-cached":
        from checks import c09

        prof = E.Profile()
        with prof:
            c09._run_wraphist(c, col)
        col.functions |= set(prof.names())
        return
    E.cfg.concrete_ints = False
    lk = E.load("mchap.assemble.likelihood")
    ju = E.load("mchap.jitutils")
    cl = E.load("mchap.calling.likelihood")
    pl = E.load("mchap.pedigree.likelihood")
    P, B, A, R = c["P"], c["B"], c["A"], c["R"]
    site = "mchap.assemble.likelihood.log_likelihood"
    prof = E.Profile()
    first = [True]

    def finish(pr):
        if pr.exc is not None:
            col.fail(site, "exception", witness=dict(exc=repr(pr.exc)), desc="raised %r" % (pr.exc,), shape=dict(group=c["group"]))
            return False
        col.path()
        if first[0]:
            col.reachable(pr.ctx)
            first[0] = False
        return True

    with prof:
        if c["group"] == "sem":
            def body(ctx):
                reads, raw = _reads(ctx, R, B, A, GR=c.get('GR', 99))
                g = _genotype(ctx, c)
                k = E.fresh_int(ctx, "k", 1, 3)
                counts = E.SArray(R, rnp.int64)
                rnp.ndarray.__setitem__(counts, 0, E.SymInt(k))
                for r in range(1, R):
                    rnp.ndarray.__setitem__(counts, r, 1)
                l1 = lk.log_likelihood(reads, g, read_counts=counts)
                l0 = lk.log_likelihood(reads, g)  # no counts
                # haplotype transposition and rotation, read reversal
                gt = g.copy()
                gt[[0, 1]] = g[[1, 0]]
                l2 = lk.log_likelihood(reads, gt, read_counts=counts)
                gr = E.np.concatenate([g[1:], g[:1]])
                l3 = lk.log_likelihood(reads[::-1], gr, read_counts=counts[::-1])
                # count k == k copies of the read
                kk = int(counts[0])
                reads4 = E.np.concatenate([reads] + [reads[0:1]] * (kk - 1))
                l4 = lk.log_likelihood(reads4, g, read_counts=None)
                return raw, g, counts, (l0, l1, l2, l3, l4)

            for pr in E.explore(body, stats=col.stats):
                if not finish(pr):
                    continue
                ctx = pr.ctx
                raw, g, counts, (l0, l1, l2, l3, l4) = pr.value
                m = _imodel(ctx)
                G = _conc(ctx, m, g)
                cs = [int(E.model_value(m, x.e)) if isinstance(x, E.SymInt) else int(x) for x in counts]
                w = dict(G=G, counts=cs, gaps=[[bool(z3.is_true(m.eval(raw[(r, j, 0)][1], model_completion=True))) for j in range(B)] for r in range(R)])
                col.check(ctx, E.exp_term(l1) == _oracle(raw, m, G, cs, R, B), site, "semantics", witness=w,
                          desc="exp(llk) == prod_r (mean_h prod_j p)^count  [P=%d B=%d A=%d R=%d]" % (P, B, A, R))
                col.check(ctx, E.exp_term(l0) == _oracle(raw, m, G, [1] * R, R, B), site, "semantics-nocounts", witness=w,
                          desc="exp(llk without counts) == prod_r mean_h prod_j p")
                col.check(ctx, E.exp_term(l1) == E.exp_term(l2), site, "haplotype-order", witness=w, desc="invariant under swapping two haplotypes")
                col.check(ctx, E.exp_term(l1) == E.exp_term(l3), site, "read-and-rotation-order", witness=w, desc="invariant under rotating haplotypes and reversing reads")
                col.check(ctx, E.exp_term(l1) == E.exp_term(l4), site, "count-equals-copies", witness=w, desc="a read with count k == k identical reads")
        elif c["group"] == "sc":
            site2 = "mchap.assemble.likelihood.log_likelihood_structural_change"

            def body(ctx):
                reads, raw = _reads(ctx, R, B, A, GR=c.get('GR', 99))
                g = _genotype(ctx, c)
                idx = E.SArray(P, rnp.int64)
                for h in range(P):
                    rnp.ndarray.__setitem__(idx, h, E.SymInt(E.fresh_int(ctx, "ix_%d" % h, 0, P - 1)))
                a = E.fresh_int(ctx, "iv_a", -1, B)  # -1: interval None
                b = E.fresh_int(ctx, "iv_b", 0, B)
                ctx.assume(z3.Or(a == -1, a <= b))
                ctx.assume(z3.Implies(a == -1, b == 0))
                av = int(E.SymInt(a))
                interval = None if av < 0 else E.np.array([av, E.SymInt(b)])
                counts = E.np.array([2] + [1] * (R - 1))
                l1 = lk.log_likelihood_structural_change(reads, g, idx, interval=interval, read_counts=counts)
                g2 = g.copy()
                ju.structural_change(g2, idx, interval)
                l2 = lk.log_likelihood(reads, g2, read_counts=counts)
                return raw, g, g2, idx, interval, (l1, l2)

            for pr in E.explore(body, stats=col.stats):
                if not finish(pr):
                    continue
                ctx = pr.ctx
                raw, g, g2, idx, interval, (l1, l2) = pr.value
                m = _imodel(ctx)
                G = _conc(ctx, m, g)
                ix = [int(E.model_value(m, x.e)) for x in idx]
                iv = None if interval is None else [int(E.model_value(m, E._z(x).e)) for x in interval]
                w = dict(G=G, idx=ix, interval=iv)
                col.check(ctx, E.exp_term(l1) == E.exp_term(l2), site2, "sc-equals-rearranged", witness=w,
                          desc="llk_structural_change(g, idx, interval) == llk(structural_change(g, idx, interval))")
                # the rearranged genotype itself against the oracle definition
                G2 = _conc(ctx, m, g2)
                want = [[G[ix[h]][j] if (iv is None or iv[0] <= j < iv[1]) else G[h][j] for j in range(B)] for h in range(P)]
                if G2 != want:
                    col.fail("mchap.jitutils.structural_change", "rearrangement", witness=dict(G=G, idx=ix, interval=iv, got=G2, want=want), desc="structural_change result != definition")
                else:
                    col.ok("structural_change(g, idx, interval) == definition (decided on the path)")
        else:
            site3 = "mchap.calling.likelihood.log_likelihood_alleles"

            def body(ctx):
                reads, raw = _reads(ctx, R, B, A, strict=True, GR=c.get('GR', 99))
                # haplotype table: row 0 = g0, others all haplotypes; alleles symbolic indices into it
                haps_list = [tuple(c["g0"])] + [h for h in itertools.product(range(A), repeat=B) if list(h) != c["g0"]][:2]
                haps = E.np.array([list(h) for h in haps_list], dtype=rnp.int8)
                al = E.SArray(P, rnp.int64)
                for h in range(P):
                    rnp.ndarray.__setitem__(al, h, E.SymInt(E.fresh_int(ctx, "a_%d" % h, 0, len(haps_list) - 1)))
                counts = E.SArray(R + 1, rnp.int64)
                for r in range(R):
                    rnp.ndarray.__setitem__(counts, r, E.SymInt(E.fresh_int(ctx, "k%d" % r, 0, 2)))  # zero counts anywhere
                rnp.ndarray.__setitem__(counts, R, 0)  # zero-count padding read
                pad, raw2 = _reads(ctx, 1, B, A, strict=True, tag="pad", GR=0)
                reads_p = E.np.concatenate([reads, pad])
                raw.update({(R + r, j, a): v for (r, j, a), v in raw2.items()})
                l1 = cl.log_likelihood_alleles(reads_p, counts, haps, al)
                l2 = cl.log_likelihood_alleles(reads_p, counts, haps, al[::-1].copy())
                l3 = pl.log_likelihood_alleles_cached(reads_p, counts, haps, 0, E.np.sort(al), cache=None)
                return raw, haps_list, al, counts, (l1, l2, l3)

            for pr in E.explore(body, stats=col.stats):
                if not finish(pr):
                    continue
                ctx = pr.ctx
                raw, haps_list, al, counts, (l1, l2, l3) = pr.value
                m = _imodel(ctx)
                als = [int(E.model_value(m, x.e)) for x in al]
                cs = [int(E.model_value(m, x.e)) if isinstance(x, E.SymInt) else int(x) for x in counts]
                G = [list(haps_list[a]) for a in als]
                w = dict(alleles=als, haplotypes=haps_list, counts=cs)
                orc = _oracle(raw, m, G, cs, R + 1, B)
                col.check(ctx, E.exp_term(l1) == orc, site3, "alleles-semantics", witness=w,
                          desc="log_likelihood_alleles == oracle on haplotypes[alleles]; zero-count reads contribute nothing")
                col.check(ctx, E.exp_term(l1) == E.exp_term(l2), site3, "allele-order", witness=w, desc="invariant to allele order")
                col.check(ctx, E.exp_term(l3) == orc, "mchap.pedigree.likelihood.log_likelihood_alleles_cached", "pedigree-subsetting", witness=w,
                          desc="pedigree likelihood (count>0 subsetting) == oracle")
    col.functions |= set(prof.names())


# ------------------------------------------------------------------ replay / validation


def _build_reads(v, R, B, A, tag="p"):
    m = v.get("model") or {}
    reads = rnp.empty((R, B, A))
    for r in range(R):
        for j in range(B):
            gap = bool(m.get("gap_%s_%d_%d" % (tag, r, j), False))
            for a in range(A):
                reads[r, j, a] = float("nan") if gap else float(m.get("%s_%d_%d_%d" % (tag, r, j, a), 0.5))
    return reads


def _num_llk(reads, G, counts):
    import math

    tot = 0.0
    for r in range(len(reads)):
        s = 0.0
        for h in range(len(G)):
            t = 1.0
            for j in range(len(G[h])):
                x = reads[r, j, G[h][j]]
                if x == x:
                    t *= x
            s += t
        s /= len(G)
        if counts[r]:
            tot += counts[r] * (math.log(s) if s > 0 else float("-inf"))
    return tot


def _differs(a, b):
    import math

    if a == b:
        return False
    if math.isinf(a) or math.isinf(b) or a != a or b != b:
        return not (a != a and b != b)
    return abs(a - b) > 1e-6 * max(1.0, abs(a), abs(b))


def replay(v):
    from mchap.assemble import likelihood as rl
    from mchap.calling import likelihood as rc
    from mchap.pedigree import likelihood as rpl
    from mchap import jitutils as rj

    c = v["config"]
    if c["group"] == "sc-cached":
        from checks import c09

        return c09._replay_wraphist(v)
    w = v["witness"] or {}
    P, B, A, R = c["P"], c["B"], c["A"], c["R"]
    k = v["kind"]
    if c["group"] == "sem":
        reads = _build_reads(v, R, B, A)
        G = rnp.array(w["G"], dtype=rnp.int8)
        cs = rnp.array(w["counts"])
        l1 = rl.log_likelihood(reads, G, read_counts=cs)
        if k == "semantics":
            o = _num_llk(reads, w["G"], w["counts"])
        elif k == "semantics-nocounts":
            l1 = rl.log_likelihood(reads, G)
            o = _num_llk(reads, w["G"], [1] * R)
        elif k == "haplotype-order":
            G2 = G.copy()
            G2[[0, 1]] = G[[1, 0]]
            o = rl.log_likelihood(reads, G2, read_counts=cs)
        elif k == "read-and-rotation-order":
            o = rl.log_likelihood(reads[::-1].copy(), rnp.concatenate([G[1:], G[:1]]), read_counts=cs[::-1].copy())
        elif k == "count-equals-copies":
            o = rl.log_likelihood(rnp.concatenate([reads] + [reads[0:1]] * (int(cs[0]) - 1)), G)
        else:
            return False, "kind %s" % k
        return _differs(l1, o), "llk=%r other=%r G=%s counts=%s reads=%s" % (l1, o, w["G"], w["counts"], reads.tolist())
    if c["group"] == "sc":
        reads = _build_reads(v, R, B, A)
        G = rnp.array(w["G"], dtype=rnp.int8)
        idx = rnp.array(w["idx"])
        iv = None if w["interval"] is None else rnp.array(w["interval"])
        cs = rnp.array([2] + [1] * (R - 1))
        G2 = G.copy()
        rj.structural_change(G2, idx, iv)
        if k == "rearrangement":
            want = [[w["G"][w["idx"][h]][j] if (iv is None or iv[0] <= j < iv[1]) else w["G"][h][j] for j in range(B)] for h in range(P)]
            return G2.tolist() != want, "structural_change -> %s want %s" % (G2.tolist(), want)
        l1 = rl.log_likelihood_structural_change(reads, G, idx, interval=iv, read_counts=cs)
        l2 = rl.log_likelihood(reads, G2, read_counts=cs)
        return _differs(l1, l2), "llk_sc=%r llk(rearranged)=%r G=%s idx=%s interval=%s" % (l1, l2, w["G"], w["idx"], w["interval"])
    reads = rnp.concatenate([_build_reads(v, R, B, A), _build_reads(v, 1, B, A, tag="pad")])
    haps = rnp.array(w["haplotypes"], dtype=rnp.int8)
    al = rnp.array(w["alleles"])
    cs = rnp.array(w["counts"])
    G = [list(w["haplotypes"][a]) for a in w["alleles"]]
    o = _num_llk(reads, G, w["counts"])
    if k == "alleles-semantics":
        l1 = rc.log_likelihood_alleles(reads, cs, haps, al)
    elif k == "allele-order":
        l1 = rc.log_likelihood_alleles(reads, cs, haps, al)
        o = rc.log_likelihood_alleles(reads, cs, haps, al[::-1].copy())
    else:
        l1 = rpl.log_likelihood_alleles_cached(reads, cs, haps, 0, rnp.sort(al), None)
    return _differs(l1, o), "llk=%r oracle=%r alleles=%s counts=%s" % (l1, o, w["alleles"], w["counts"])


def validate(seed):
    import random
    from mchap.assemble import likelihood as rl
    from mchap import jitutils as rj

    E.use_summaries(True)
    E.reset_modules()
    E.cfg.concrete_ints = False
    lk = E.load("mchap.assemble.likelihood")
    rnd = random.Random(seed)
    n = 0
    for _ in range(10):
        P, B, A, R = rnd.randint(2, 4), rnd.randint(1, 4), rnd.randint(2, 3), rnd.randint(1, 3)
        reads = rnp.array([[[round(rnd.uniform(0.01, 1), 3) for _ in range(A)] for _ in range(B)] for _ in range(R)])
        for r in range(R):
            for j in range(B):
                if rnd.random() < 0.2:
                    reads[r, j, :] = rnp.nan
        G = rnp.array([[rnd.randrange(A) for _ in range(B)] for _ in range(P)], dtype=rnp.int8)
        cs = rnp.array([rnd.randint(1, 3) for _ in range(R)])
        idx = rnp.array([rnd.randrange(P) for _ in range(P)])
        a = rnd.randint(0, B)
        iv = rnp.array([a, rnd.randint(a, B)])
        real1 = rl.log_likelihood(reads, G, read_counts=cs)
        real2 = rl.log_likelihood_structural_change(reads, G, idx, interval=iv, read_counts=cs)

        def body(ctx):
            sr = E.SArray(reads.shape, float)
            for i in rnp.ndindex(reads.shape):
                x = reads[i]
                rnp.ndarray.__setitem__(sr, i, float("nan") if x != x else E.symfloat(repr(float(x))))
            sg = E.np.array(G.tolist(), dtype=rnp.int8)
            return (E.to_float(lk.log_likelihood(sr, sg, read_counts=E.np.array(cs.tolist()))),
                    E.to_float(lk.log_likelihood_structural_change(sr, sg, E.np.array(idx.tolist()), interval=E.np.array(iv.tolist()), read_counts=E.np.array(cs.tolist()))))

        vals = [pr.value for pr in E.explore(body) if pr.exc is None]
        assert len(vals) == 1, vals
        assert not _differs(vals[0][0], real1) and not _differs(vals[0][1], real2), (vals, real1, real2)
        n += 2
    return n
