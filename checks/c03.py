"""C03 -- call-exact reports the true normalised posterior; streaming and array paths agree."""
import itertools

import numpy as rnp
import z3

from nbsym import engine as E
from oracle import models as M

ID = "C03"
TITLE = "call-exact posteriors == L*prior/sum in VCF order; mode is a maximiser; GPM/SPM/AFP/ACP/AOP functionals; streaming path == array path; results independent of the --report subset"
ENCODED = [
    "mchap.calling.exact._call_posterior_mode", "mchap.calling.exact._genotype_support_log_joint", "mchap.calling.exact._posterior_allele_frequencies",
    "mchap.calling.exact.posterior_mode", "mchap.calling.exact._genotype_likelihoods", "mchap.calling.exact.genotype_likelihoods",
    "mchap.calling.exact.genotype_posteriors", "mchap.calling.exact.posterior_allele_frequencies", "mchap.calling.exact.alternate_dosage_posteriors",
    "mchap.calling.prior.log_genotype_prior", "mchap.jitutils.increment_genotype", "mchap.jitutils.index_as_genotype_alleles",
    "mchap.jitutils.genotype_alleles_as_index", "mchap.application.call_exact.program.call_sample_genotypes", "mchap.application.baseclass.program.require_AFP", "mchap.application.baseclass.program.sumarise_vcf_record",
]
STUBS = ["log_likelihood -> ln L(sorted alleles) (one positive real per unordered genotype; read model is C04)",
         "application level: stub locus/data objects; qual_of_prob, natural_log_to_log10, minimum_error_correction replaced by constants (not part of the property)",
         "add_log_prob / normalise_log_probs summaries (lemmas discharged in C17)"]
ASSUMES = ["L(g) > 0; F symbolic in (0,1) or 0; frequencies symbolic > 0 (sum 1), flat, or with the last entry exactly 0",
           "float32 storage of GL modelled as exact reals (the property allows single-precision rounding)"]
BOUNDS = {"quick": "ploidy x alleles: array path 2x2, 2x3, 3x2, 3x3, 4x2; streaming path 2x2, 2x3, 3x2 (all orderings of the joint probabilities via running-max forks), the same shapes on an empty read array (likelihood 1); application level 2x2, 2x3 with 10 --report subsets (FORMAT GP/GL/AFP/ACP/AOP and INFO AFP/ACP/AOP/AOPSUM through sumarise_vcf_record, one sample)",
          "thorough": "streaming path adds 2x4, 4x2, 6x2; array path adds 3x3, 4x3, 3x4; application level adds 3x2, 4x2"}
OUTSIDE = "more genotypes; float32 rounding of GL; exact ties decided arbitrarily (both paths use first-maximum)"
TASKS_PER_CHILD = 2


# "I:<id>" requests the INFO field of that name (locus-level summaries of the per-sample posterior quantities)
REPORT_SETS = [(), ("AFP",), ("GP",), ("GL",), ("GP", "AFP"), ("GL", "GP", "ACP", "AOP"),
               ("I:AOPSUM", "GP"), ("I:AFP", "GL"), ("I:ACP", "I:AOP"), ("I:ACP", "I:AOP", "I:AFP", "I:AOPSUM", "GP", "GL")]


def configs(tier):
    out = []
    if tier == "quick":
        kern = [(2, 2, True), (2, 3, True), (3, 2, True), (3, 3, False), (4, 2, False)]
        app = [(2, 2), (2, 3)]
    else:
        # (streaming path of ploidy 3 x 3 alleles with symbolic F and f: > 15 min for that configuration alone; its array path stays)
        kern = [(2, 2, True), (2, 3, True), (3, 2, True), (3, 3, False), (2, 4, True), (4, 2, True), (4, 3, False), (6, 2, True), (3, 4, False)]
        app = [(2, 2), (2, 3), (3, 2), (4, 2)]
    for P, A, stream in kern:
        for inbred in (True, False):
            for freqs in ("none", "sym", "zero"):
                out.append(dict(group="kernel", P=P, A=A, inbred=inbred, freqs=freqs, stream=stream))
    # a sample without reads at the locus (the posterior is the prior): both paths on an EMPTY read array
    for P, A in ((2, 2), (2, 3), (3, 2)):
        for inbred in (True, False):
            for freqs in ("none", "sym"):
                out.append(dict(group="kernel", P=P, A=A, inbred=inbred, freqs=freqs, stream=True, noreads=True))
    for P, A in app:
        for inbred in (True, False):
            for r in range(1, len(REPORT_SETS)):
                out.append(dict(group="app", P=P, A=A, inbred=inbred, freqs="sym", report=r))
    return out


def weight(c):
    return 2 ** len(M.genotypes(c["A"], c["P"])) * (3 if c["group"] == "app" else 1)


def lname(g):
    return "L_" + "_".join(map(str, sorted(int(a) for a in g)))


def llvar(g):
    return z3.Real(lname(g))


def _harness():
    E.use_summaries(True)
    E.reset_modules()
    E.cfg.concrete_ints = True
    ex = E.load("mchap.calling.exact")

    def stub_llk(reads, genotype, read_counts=None):
        v = llvar([int(r[0]) for r in genotype])
        E.Ctx.cur.assume(v > 0)
        if reads is not None and len(reads) == 0:
            E.Ctx.cur.assume(v == 1)  # the likelihood of an empty read set (a sample without reads at the locus)
        return E.np.log(E.SymReal(v))

    ex.log_likelihood = stub_llk
    return ex


def _params(ctx, c):
    A = c["A"]
    F = E.fresh_real(ctx, "F", 0, 1) if c["inbred"] else None
    if c["freqs"] == "none":
        fz, farr = [z3.RealVal(1) / A] * A, None
    elif c["freqs"] == "sym":
        fz = E.simplex(ctx, "f", A)
        farr = E.real_array(fz)
    else:
        fz = (E.simplex(ctx, "f", A - 1) if A > 1 else []) + [0]
        farr = E.real_array([t if z3.is_expr(t) else 0.0 for t in fz])
    return F, fz, farr


def _oracle(c, F, fz):
    """dict genotype -> unnormalised joint, VCF order list, total"""
    order = M.vcf_order(c["A"], c["P"])
    J = {g: llvar(g) * M.genotype_prior(g, fz, F) for g in order}
    return order, J, z3.Sum([J[g] for g in order])


def _functionals(c, order, J, tot):
    A, P = c["A"], c["P"]
    afp = [z3.Sum([J[g] * g.count(a) for g in order]) / (P * tot) for a in range(A)]
    acp = [z3.Sum([J[g] * g.count(a) for g in order]) / tot for a in range(A)]
    aop = [z3.Sum([J[g] for g in order if a in g] + [z3.RealVal(0)]) / tot for a in range(A)]
    return afp, acp, aop


def READS(c):
    """a read array of the documented shape (the stubbed likelihood ignores its content): two reads, or none for the no-reads configurations"""
    return rnp.zeros((0 if c.get("noreads") else 2, 1, c["A"]))


def run_config(c, col):
    ex = _harness()
    if c["group"] == "app":
        return _run_app(c, col, ex)
    P, A = c["P"], c["A"]
    haps = rnp.arange(A).reshape(A, 1).astype(rnp.int8)
    G = len(M.genotypes(A, P))
    shape = dict(inbred=c["inbred"], freqs=c["freqs"])
    prof = E.Profile()
    with prof:
        # ---- array path
        def body(ctx):
            F, fz, farr = _params(ctx, c)
            Fv = E.SymReal(F) if F is not None else 0
            llks = ex.genotype_likelihoods(READS(c), P, haps)
            post = ex.genotype_posteriors(llks, P, A, inbreeding=Fv, frequencies=farr)
            freqs, counts, occur = ex.posterior_allele_frequencies(post, P, A)
            return F, fz, llks, post, freqs, counts, occur

        first = True
        for pr in E.explore(body, stats=col.stats):
            if pr.exc is not None:
                col.fail("mchap.calling.exact.genotype_posteriors", "exception", shape=shape, witness=dict(exc=repr(pr.exc)), desc="raised %r" % (pr.exc,))
                continue
            col.path()
            ctx = pr.ctx
            if first:
                col.reachable(ctx)
                first = False
            F, fz, llks, post, freqs, counts, occur = pr.value
            order, J, tot = _oracle(c, F, fz)
            afp, acp, aop = _functionals(c, order, J, tot)
            for i, g in enumerate(order):
                col.check(ctx, E.exp_term(llks[i]) == llvar(g), "mchap.calling.exact.genotype_likelihoods", "gl-order", shape=shape, witness=dict(i=i, g=g),
                          desc="GL[i] is the likelihood of the i-th genotype in VCF order")
                col.check(ctx, E.real_term(post[i]) * tot == J[g], "mchap.calling.exact.genotype_posteriors", "posterior-vs-oracle", shape=shape, witness=dict(i=i, g=g),
                          desc="GP[i] == L_i * oracle prior_i / sum  (VCF order) [P=%d A=%d %s %s]" % (P, A, c["freqs"], "F" if c["inbred"] else "F=0"))
            for a in range(A):
                col.check(ctx, z3.And(E.real_term(freqs[a]) == afp[a], E.real_term(counts[a]) == acp[a], E.real_term(occur[a]) == aop[a]),
                          "mchap.calling.exact.posterior_allele_frequencies", "allele-functionals", shape=shape, witness=dict(a=a), desc="AFP/ACP/AOP[a] == posterior mean frequency/count/occurrence")
            col.check(ctx, z3.And(z3.Sum([E.real_term(x) for x in freqs]) == 1, z3.Sum([E.real_term(x) for x in counts]) == P),
                      "mchap.calling.exact.posterior_allele_frequencies", "afp-acp-totals", shape=shape, desc="sum AFP == 1 and sum ACP == ploidy")
        # ---- streaming path
        if c.get('stream', True):
            def body2(ctx):
                F, fz, farr = _params(ctx, c)
                Fv = E.SymReal(F) if F is not None else 0
                res = ex.posterior_mode(READS(c), P, haps, inbreeding=Fv, frequencies=farr, return_support_prob=True,
                                        return_posterior_frequencies=True, return_posterior_occurrence=True)
                return F, fz, res

            for pr in E.explore(body2, stats=col.stats):
                if pr.exc is not None:
                    col.fail("mchap.calling.exact.posterior_mode", "exception", shape=shape, witness=dict(exc=repr(pr.exc)), desc="raised %r" % (pr.exc,))
                    continue
                col.path()
                ctx = pr.ctx
                F, fz, (mode, mode_llk, gpm, spm, freqs, occur) = pr.value
                order, J, tot = _oracle(c, F, fz)
                afp, acp, aop = _functionals(c, order, J, tot)
                mg = tuple(int(a) for a in mode)
                site = "mchap.calling.exact.posterior_mode"
                w = dict(mode=mg)
                col.check(ctx, z3.And([J[mg] >= J[g] for g in order]), site, "mode-is-maximiser", shape=shape, witness=w, desc="reported GT maximises the posterior")
                ok_g = col.check(ctx, z3.And(E.real_term(gpm) * tot == J[mg], E.exp_term(mode_llk) == llvar(mg)), site, "gpm", shape=shape, witness=w, desc="GPM is the posterior probability of the mode")
                same = [g for g in order if set(g) == set(mg)]
                ok_s = col.check(ctx, E.real_term(spm) * tot == z3.Sum([J[g] for g in same]), site, "spm", shape=shape, witness=w, desc="SPM == total posterior of genotypes with the mode's set of distinct alleles")
                if ok_g and ok_s:
                    # corollary of the two identities just discharged: the mode is one of `same`, `same` is a subset of all
                    # genotypes, and every joint term is a product of positive likelihoods and non-negative prior factors.
                    # Discharged over fresh non-negative joints (an over-approximation of the real ones): linear, instant.
                    jv = {g: z3.Real("jabs_%d" % i) for i, g in enumerate(order)}
                    tv = z3.Sum(list(jv.values()))
                    gv, sv = z3.Real("gpm_abs"), z3.Real("spm_abs")
                    hyp = z3.And([x >= 0 for x in jv.values()] + [tv > 0, gv * tv == jv[mg], sv * tv == z3.Sum([jv[g] for g in same])])
                    sol = z3.Solver()
                    sol.set("timeout", 20000)
                    sol.add(hyp, z3.Not(z3.And(gv <= sv, sv <= 1)))
                    if sol.check() == z3.unsat:
                        col.ok("GPM <= SPM <= 1 (corollary of the discharged GPM and SPM identities over non-negative joint terms; abstract VC unsat)")
                    else:
                        col.check(ctx, z3.And(E.real_term(gpm) <= E.real_term(spm), E.real_term(spm) <= 1), site, "gpm-le-spm-le-1", shape=shape, witness=w, desc="GPM <= SPM <= 1")
                else:
                    col.check(ctx, z3.And(E.real_term(gpm) <= E.real_term(spm), E.real_term(spm) <= 1), site, "gpm-le-spm-le-1", shape=shape, witness=w, desc="GPM <= SPM <= 1")
                for a in range(A):
                    col.check(ctx, z3.And(E.real_term(freqs[a]) == afp[a], E.real_term(occur[a]) == aop[a]), site, "allele-functionals", shape=shape, witness=dict(a=a),
                              desc="streaming AFP/AOP[a] == posterior mean frequency / occurrence")
    col.functions |= set(prof.names())


# ------------------------------------------------------------------ application level: report-subset independence


class _Locus:
    def __init__(self, haps, freqs):
        self._h = haps
        self.mask_reference_allele = False
        self.frequencies = freqs
        self.sequence = "A"
        self.alts = ["C", "G", "T"][: len(haps) - 1]
        self.contig, self.start, self.stop, self.name = "c", 0, 1, "L"
        self.variants = [None]
        self.positions = [0]

    def encode_haplotypes(self):
        return self._h


def _run_app(c, col, ex):
    ce = E.load("mchap.application.call_exact")
    bc = E.load("mchap.application.baseclass")
    FORMAT = E.load("mchap.io.vcf.formatfields")
    INFO = E.load("mchap.io.vcf.infofields")
    COLUMN = E.load("mchap.io.vcf.columns")
    import warnings

    warnings.simplefilter("ignore")
    ce.qual_of_prob = lambda p: 0
    ce.natural_log_to_log10 = lambda x: x
    ce.minimum_error_correction = lambda calls, haps: rnp.zeros(1)
    # the application module imported the exact functions by name: they already carry the stubbed log_likelihood
    P, A = c["P"], c["A"]
    haps = rnp.arange(A).reshape(A, 1).astype(rnp.int8)
    site = "mchap.application.call_exact.program.call_sample_genotypes"
    shape = dict(inbred=c["inbred"])
    base_fmt = [FORMAT.GT, FORMAT.GQ, FORMAT.GPM, FORMAT.SPM, FORMAT.SQ]

    def run_once(ctx, Fv, farr, report):
        prog = ce.program.__new__(ce.program)
        info_req = [r[2:] for r in report if r.startswith("I:")]
        prog.info_fields = [getattr(INFO, r) for r in info_req]
        prog.format_fields = list(base_fmt) + [getattr(FORMAT, r) for r in report if not r.startswith("I:")]
        fields = [FORMAT.GT, FORMAT.GQ, FORMAT.GPM, FORMAT.SPM, FORMAT.SQ, FORMAT.MCI, FORMAT.ACP, FORMAT.AFP, FORMAT.AOP, FORMAT.GP, FORMAT.GL, FORMAT.MEC, FORMAT.MECP,
                  FORMAT.DP, FORMAT.RCOUNT, FORMAT.SNVDP]
        data = bc.LocusAssemblyData(
            locus=_Locus(haps, farr), samples=["s"], sample_bams={"s": "x.bam"}, sample_ploidy={"s": P}, sample_inbreeding={"s": Fv},
            read_calls={"s": rnp.zeros((1, 1), dtype=int)}, read_dists={"s": rnp.zeros((2, 1, A))}, read_counts={"s": None},
            infofields=prog.info_fields, formatfields=prog.format_fields,
            columndata={COLUMN.REF: "A", COLUMN.ALT: ["C", "G", "T"][: A - 1], COLUMN.FILTER: []}, infodata={}, sampledata={f: {} for f in fields})
        out = prog.call_sample_genotypes(data)
        sd = out.sampledata
        info = None
        if info_req:
            for f in (FORMAT.DP, FORMAT.RCOUNT):
                sd[f]["s"] = 0
            out = prog.sumarise_vcf_record(out)
            info = {r: out.infodata[getattr(INFO, r)] for r in info_req}
        return dict(INFO=info, GT=tuple(int(a) for a in sd[FORMAT.GT]["s"]), GPM=sd[FORMAT.GPM]["s"], SPM=sd[FORMAT.SPM]["s"],
                    AFP=sd[FORMAT.AFP].get("s"), ACP=sd[FORMAT.ACP].get("s"), AOP=sd[FORMAT.AOP].get("s"), GP=sd[FORMAT.GP].get("s"), GL=sd[FORMAT.GL].get("s"))

    prof = E.Profile()
    with prof:
        def body(ctx):
            F, fz, farr = _params(ctx, c)
            Fv = E.SymReal(F) if F is not None else 0
            return F, fz, [(r, run_once(ctx, Fv, farr, r)) for r in (REPORT_SETS[0], REPORT_SETS[c.get('report', 1)])]

        first = True
        for pr in E.explore(body, stats=col.stats):
            if pr.exc is not None:
                col.fail(site, "exception", shape=shape, witness=dict(exc=repr(pr.exc)), desc="raised %r" % (pr.exc,))
                continue
            col.path()
            ctx = pr.ctx
            if first:
                col.reachable(ctx)
                first = False
            F, fz, runs = pr.value
            order, J, tot = _oracle(c, F, fz)
            ref_r, ref = runs[0]
            for r, res in runs[1:]:
                w = dict(report=list(r), reference_report=list(ref_r), GT=res["GT"], GT_ref=ref["GT"])
                # GT: equal, or an exact tie
                if res["GT"] != ref["GT"]:
                    col.check(ctx, J[tuple(res["GT"])] == J[tuple(ref["GT"])], site, "gt-differs-without-tie", shape=shape, witness=w,
                              desc="GT differs between --report sets only on exact ties")
                else:
                    col.ok("GT identical across report sets (decided on the path)")
                cl = [E.real_term(res["GPM"]) == E.real_term(ref["GPM"]), E.real_term(res["SPM"]) == E.real_term(ref["SPM"])]
                for k in ("AFP", "ACP", "AOP"):
                    if res[k] is not None and ref[k] is not None:
                        cl += [E.real_term(x) == E.real_term(y) for x, y in zip(res[k], ref[k])]
                col.check(ctx, z3.And(cl), site, "report-independence", shape=shape, witness=w, desc="GPM/SPM/AFP/ACP/AOP identical for --report %s vs %s" % (list(r), list(ref_r)))
                if res["INFO"]:
                    # one sample: the locus-level summaries are that sample's posterior functionals (whatever else is reported)
                    afp_o, acp_o, aop_o = _functionals(c, order, J, tot)
                    want = dict(AFP=afp_o, ACP=acp_o, AOP=aop_o, AOPSUM=aop_o)
                    for name, val in res["INFO"].items():
                        try:
                            vals = list(val)
                        except TypeError:
                            vals = None
                        if vals is None or len(vals) != c["A"]:
                            col.fail(site, "info-posterior-length", shape=shape, witness=dict(w, field=name, value=repr(val)), desc="INFO %s is not one value per allele" % name)
                            continue
                        col.check(ctx, z3.And([E.real_term(x) == y for x, y in zip(vals, want[name])]), site, "info-posterior-vs-oracle", shape=shape, witness=dict(w, field=name),
                                  desc="INFO %s (one sample) == that sample's posterior functional, for --report %s" % (name, list(r)))
                if res["GP"] is not None:
                    if len(res["GP"]) != len(order):
                        col.fail(site, "gp-length", shape=shape, witness=w, desc="GP length != number of genotypes")
                    else:
                        col.check(ctx, z3.And([E.real_term(res["GP"][i]) * tot == J[g] for i, g in enumerate(order)]), site, "gp-vs-oracle", shape=shape, witness=w,
                                  desc="FORMAT GP == normalised posterior in VCF order")
    col.functions |= set(prof.names())


# ------------------------------------------------------------------ replay


def _concrete(v):
    c = v["config"]
    m = v.get("model") or {}
    A = c["A"]
    F = float(m.get("F", 0.3)) if c["inbred"] else 0.0
    if c["freqs"] == "none":
        f, farr = [1.0 / A] * A, None
    else:
        n = A if c["freqs"] == "sym" else A - 1
        f = [float(m.get("f%d" % i, 1.0 / n)) for i in range(n - 1)]
        f.append(1 - sum(f))
        if c["freqs"] == "zero":
            f.append(0.0)
        farr = rnp.array(f)
    return c, m, F, f, farr


def _with_stub(m, fn):
    """run fn() with mchap.calling.exact.log_likelihood replaced by the model's table (py_func paths)"""
    import math
    from mchap.calling import exact as rex

    saved = rex.log_likelihood
    rex.log_likelihood = lambda reads, genotype, read_counts=None: math.log(float(m.get(lname([int(r[0]) for r in genotype]), 1.0)))
    try:
        return fn(rex)
    finally:
        rex.log_likelihood = saved


def _py(f):
    return getattr(f, "py_func", f)


def replay(v):
    import math
    from checks.c05 import _num_prior

    c, m, F, f, farr = _concrete(v)
    P, A = c["P"], c["A"]
    haps = rnp.arange(A).reshape(A, 1).astype(rnp.int8)
    order = M.vcf_order(A, P)
    Jn = {g: float(m.get(lname(g), 1.0)) * _num_prior(g, f, F if c["inbred"] else None) for g in order}
    tot = sum(Jn.values())
    kind = v["kind"]
    w = v.get("witness") or {}

    def arrays(rex):
        llks = _py(rex._genotype_likelihoods)(READS(c), P, haps, len(order))
        post = rex.genotype_posteriors(llks.astype(float), P, A, F, farr)
        return llks, post, rex.posterior_allele_frequencies(post, P, A)

    def stream(rex):
        # the same entry point the symbolic harness drives (posterior_mode itself), with its jitted helpers run as py_func so
        # that the likelihood table is visible to them
        names = ("_call_posterior_mode", "_posterior_allele_frequencies")
        saved = {n_: getattr(rex, n_) for n_ in names}
        try:
            for n_ in names:
                setattr(rex, n_, _py(saved[n_]))
            mode, mllk, gpm, spm, fr, oc = rex.posterior_mode(READS(c), P, haps, inbreeding=F, frequencies=farr, return_support_prob=True,
                                                              return_posterior_frequencies=True, return_posterior_occurrence=True)
        finally:
            for n_ in names:
                setattr(rex, n_, saved[n_])
        return mode, mllk, float(gpm), float(spm), fr, oc

    afp = [sum(Jn[g] * g.count(a) for g in order) / (P * tot) for a in range(A)]
    aop = [sum(Jn[g] for g in order if a in g) / tot for a in range(A)]
    streaming = str(v.get("site", "")).endswith("posterior_mode")  # "allele-functionals" is claimed for both paths
    if c["group"] == "kernel" and kind in ("gl-order", "posterior-vs-oracle", "allele-functionals", "afp-acp-totals") and not (streaming and kind == "allele-functionals"):
        llks, post, (fr, cn, oc) = _with_stub(m, arrays)
        if kind == "gl-order":
            i = w["i"]
            return abs(llks[i] - math.log(float(m.get(lname(order[i]), 1.0)))) > 1e-5, "GL[%d]=%r" % (i, llks[i])
        if kind == "posterior-vs-oracle":
            i = w["i"]
            want = Jn[order[i]] / tot
            return abs(post[i] - want) > 1e-5 * max(want, 1e-9), "GP[%d]=%r oracle=%r (g=%s F=%r f=%s)" % (i, post[i], want, order[i], F, f)
        if kind == "allele-functionals":
            a = w["a"]
            return abs(fr[a] - afp[a]) > 1e-5 or abs(oc[a] - aop[a]) > 1e-5 or abs(cn[a] - afp[a] * P) > 1e-5, "AFP/ACP/AOP[%d]=%r/%r/%r oracle %r/%r/%r" % (a, fr[a], cn[a], oc[a], afp[a], afp[a] * P, aop[a])
        return abs(fr.sum() - 1) > 1e-5 or abs(cn.sum() - P) > 1e-5, "sum AFP=%r sum ACP=%r" % (fr.sum(), cn.sum())
    if c["group"] == "kernel":
        mode, mllk, gpm, spm, fr, oc = _with_stub(m, stream)
        mg = tuple(int(a) for a in mode)
        if kind == "mode-is-maximiser":
            return Jn[mg] < max(Jn.values()) * (1 - 1e-9), "mode %s joint %r max %r" % (mg, Jn[mg], max(Jn.values()))
        if kind == "gpm":
            return abs(gpm - Jn[mg] / tot) > 1e-6, "GPM=%r oracle=%r" % (gpm, Jn[mg] / tot)
        if kind == "spm":
            want = sum(Jn[g] for g in order if set(g) == set(mg)) / tot
            return abs(spm - want) > 1e-6, "SPM=%r oracle=%r (mode %s)" % (spm, want, mg)
        if kind == "gpm-le-spm-le-1":
            return not (gpm <= spm + 1e-9 and spm <= 1 + 1e-9), "GPM=%r SPM=%r" % (gpm, spm)
        if kind == "allele-functionals":
            a = w["a"]
            return abs(fr[a] - afp[a]) > 1e-6 or abs(oc[a] - aop[a]) > 1e-6, "AFP/AOP[%d]=%r/%r oracle %r/%r" % (a, fr[a], oc[a], afp[a], aop[a])
        return False, "kind?"
    # application level: run the REAL call_sample_genotypes with the model's likelihood table for both report sets
    runs = {}
    for rset in (REPORT_SETS[0], REPORT_SETS[c.get("report", 1)]):
        runs[rset] = _real_app(c, m, F, farr, rset)
    ref, res = runs[REPORT_SETS[0]], runs[REPORT_SETS[c.get("report", 1)]]
    tol = 1e-5
    if kind == "gt-differs-without-tie":
        return res["GT"] != ref["GT"] and abs(Jn[tuple(res["GT"])] - Jn[tuple(ref["GT"])]) > 1e-9 * tot, "GT %s with --report %s vs %s without" % (res["GT"], list(REPORT_SETS[c.get("report", 1)]), ref["GT"])
    if kind == "report-independence":
        bad = abs(res["GPM"] - ref["GPM"]) > tol or abs(res["SPM"] - ref["SPM"]) > tol
        for k_ in ("AFP", "ACP", "AOP"):
            if res[k_] is not None and ref[k_] is not None:
                bad = bad or float(rnp.abs(rnp.asarray(res[k_]) - rnp.asarray(ref[k_])).max()) > tol
        return bool(bad), "--report %s: GT=%s GPM=%.6f SPM=%.6f AFP=%s ; default: GT=%s GPM=%.6f SPM=%.6f AFP=%s (F=%r f=%s)" % (
            list(REPORT_SETS[c.get("report", 1)]), res["GT"], res["GPM"], res["SPM"], None if res["AFP"] is None else rnp.round(res["AFP"], 5).tolist(),
            ref["GT"], ref["GPM"], ref["SPM"], None if ref["AFP"] is None else rnp.round(ref["AFP"], 5).tolist(), F, f)
    if kind == "gp-vs-oracle":
        gp = res["GP"]
        return bool(max(abs(gp[i] - Jn[g] / tot) for i, g in enumerate(order)) > tol), "FORMAT GP=%s oracle=%s (F=%r f=%s)" % (rnp.round(gp, 5).tolist(), [round(Jn[g] / tot, 5) for g in order], F, f)
    if kind == "gp-length":
        return len(res["GP"]) != len(order), "len(GP)=%d" % len(res["GP"])
    if kind in ("info-posterior-vs-oracle", "info-posterior-length"):
        name = w["field"]
        val = rnp.atleast_1d(rnp.asarray(res["INFO"][name], dtype=float))
        acp = [x * P for x in afp]
        want = dict(AFP=afp, ACP=acp, AOP=aop, AOPSUM=aop)[name]
        bad = len(val) != A or bool(rnp.abs(val - rnp.array(want)).max() > tol)
        return bad, "real modules, --report %s: INFO %s = %s, the sample's posterior functional is %s (F=%r f=%s)" % (
            list(REPORT_SETS[c.get("report", 1)]), name, rnp.round(val, 5).tolist(), [round(x, 5) for x in want], F, f)
    return False, "kind?"


def _real_app(c, m, F, farr, report):
    """the real mchap.application.call_exact.program.call_sample_genotypes; only the read likelihood is replaced by the model's table
    (the jitted enumerators run as their py_func so that the table is visible to them)"""
    import math
    import warnings
    from mchap.application import call_exact as rce, baseclass as rbc
    from mchap.calling import exact as rex
    import mchap.io.vcf.formatfields as FORMAT
    import mchap.io.vcf.columns as COLUMN

    P, A = c["P"], c["A"]
    haps = rnp.arange(A).reshape(A, 1).astype(rnp.int8)
    names = ("_call_posterior_mode", "_posterior_allele_frequencies", "_genotype_likelihoods")
    saved = {n: getattr(rex, n) for n in names}
    saved_llk, saved_mec = rex.log_likelihood, rce.minimum_error_correction
    try:
        for n in names:
            setattr(rex, n, getattr(saved[n], "py_func", saved[n]))
        rex.log_likelihood = lambda reads, genotype, read_counts=None: math.log(float(m.get(lname([int(r[0]) for r in genotype]), 1.0)))
        rce.minimum_error_correction = lambda calls, hh: rnp.zeros(1)
        prog = rce.program.__new__(rce.program)
        import mchap.io.vcf.infofields as INFO

        info_req = [r[2:] for r in report if r.startswith("I:")]
        prog.info_fields = [getattr(INFO, r) for r in info_req]
        base = [FORMAT.GT, FORMAT.GQ, FORMAT.GPM, FORMAT.SPM, FORMAT.SQ]
        prog.format_fields = base + [getattr(FORMAT, r) for r in report if not r.startswith("I:")]
        fields = [FORMAT.GT, FORMAT.GQ, FORMAT.GPM, FORMAT.SPM, FORMAT.SQ, FORMAT.MCI, FORMAT.ACP, FORMAT.AFP, FORMAT.AOP, FORMAT.GP, FORMAT.GL, FORMAT.MEC, FORMAT.MECP,
                  FORMAT.DP, FORMAT.RCOUNT, FORMAT.SNVDP]
        freqs = farr if farr is not None else rnp.full(A, 1.0 / A)
        data = rbc.LocusAssemblyData(
            locus=_Locus(haps, freqs), samples=["s"], sample_bams={"s": "x.bam"}, sample_ploidy={"s": P}, sample_inbreeding={"s": F},
            read_calls={"s": rnp.zeros((1, 1), dtype=int)}, read_dists={"s": rnp.zeros((2, 1, A))}, read_counts={"s": None},
            infofields=prog.info_fields, formatfields=prog.format_fields,
            columndata={COLUMN.REF: "A", COLUMN.ALT: ["C", "G", "T"][: A - 1], COLUMN.FILTER: []}, infodata={}, sampledata={f_: {} for f_ in fields})
        info = None
        with warnings.catch_warnings():
            warnings.simplefilter("ignore")
            out = prog.call_sample_genotypes(data)
            if info_req:
                for f_ in (FORMAT.DP, FORMAT.RCOUNT):
                    out.sampledata[f_]["s"] = 0
                out = prog.sumarise_vcf_record(out)
                info = {r: out.infodata[getattr(INFO, r)] for r in info_req}
    finally:
        for n in names:
            setattr(rex, n, saved[n])
        rex.log_likelihood, rce.minimum_error_correction = saved_llk, saved_mec
    sd = out.sampledata
    return dict(INFO=info, GT=tuple(int(a) for a in sd[FORMAT.GT]["s"]), GPM=float(sd[FORMAT.GPM]["s"]), SPM=float(sd[FORMAT.SPM]["s"]),
                AFP=sd[FORMAT.AFP].get("s"), ACP=sd[FORMAT.ACP].get("s"), AOP=sd[FORMAT.AOP].get("s"), GP=sd[FORMAT.GP].get("s"))


def validate(seed):
    import math
    import random

    rnd = random.Random(seed)
    ex = _harness()
    n = 0
    for _ in range(6):
        P, A = rnd.choice([(2, 2), (2, 3), (3, 2), (3, 3), (4, 2)])
        haps = rnp.arange(A).reshape(A, 1).astype(rnp.int8)
        F = rnd.choice([0.0, 0.25])
        f = [rnd.randint(1, 8) for _ in range(A)]
        f = [x / sum(f) for x in f]
        m = {lname(g): rnd.randint(1, 16) / 8.0 for g in M.genotypes(A, P)}

        def real(rex):
            llks = _py(rex._genotype_likelihoods)(None, P, haps, len(M.genotypes(A, P)))
            return rex.genotype_posteriors(llks.astype(float), P, A, F, rnp.array(f))

        want = _with_stub(m, real)

        def body(ctx):
            for k, val in m.items():
                ctx.assume(z3.Real(k) == z3.RealVal(repr(val)))
            fa = E.real_array([E.SymReal(z3.RealVal(E.Fraction(x).limit_denominator(10 ** 9))) for x in f])
            llks = ex.genotype_likelihoods(None, P, haps)
            return ex.genotype_posteriors(llks, P, A, inbreeding=E.symfloat(repr(F)) if F else 0, frequencies=fa)

        vals = [p for p in E.explore(body)]
        assert len(vals) == 1 and vals[0].exc is None, vals
        got = E.to_float_array(vals[0].value, m)
        assert rnp.abs(got - want).max() < 1e-5, (got, want)
        n += 1
    return n
