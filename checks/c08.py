"""C08 -- determinism: (a) every fit() re-seeds BOTH random generators with the configured seed before the first random
draw on every path and touches no module-level state; (b) the multi-core driver (program.run_stdout) is executed under a
scheduling model of multiprocessing.Pool / Manager().Queue() in which the interleaving of the processes and the failing locus
are solver variables: every locus is written exactly once as one intact line after the header for every schedule, block
split and worker count in the bound, and a failing locus makes the program fail."""
import itertools
import os

import numpy as rnp
import z3

from nbsym import engine as E

ID = "C08"
TITLE = ("DenovoMCMC.fit / CallingMCMC.fit / PedigreeCallingMCMC.fit: on every path the numpy and the numba generator are seeded with random_seed before any RNG-consuming call, all chains/samples run after that single seeding, and the result is a function of (inputs, seed) only; "
         "program.run_stdout with n cores: for every interleaving of writer / workers / main, header first, every locus exactly once as one intact line, exit status non-zero iff a locus fails")
TECHNIQUE = ('symbolic execution of the fit() drivers with the random generators as explicit state (seeded-before-first-draw on every path); assumption guard on RNG sources; '
             'bounded model checking of the real multi-core driver under contract stubs of multiprocessing with solver-chosen schedules and failing locus (every interleaving in the bound), witnesses replayed with real multiprocessing; Python-level summaries and argument parsing re-executed under sets whose iteration order is a bounded solver variable (hash randomisation), witnesses replayed in fresh interpreters with different PYTHONHASHSEED')
ENCODED = ["mchap.application.baseclass.program.run_stdout", "mchap.application.baseclass.program._run_stdout_multi_core", "mchap.application.baseclass.program._run_stdout_single_core",
           "mchap.application.baseclass.program._worker", "mchap.application.baseclass.program._writer", "mchap.application.baseclass.program._assemble_loci_wrapped",
           "mchap.application.baseclass.program._locus_data", "mchap.application.arguments.parse_report_fields",
           "mchap.assemble.mcmc.DenovoMCMC.fit", "mchap.assemble.mcmc.DenovoMCMC._mcmc", "mchap.calling.classes.CallingMCMC.fit", "mchap.pedigree.classes.PedigreeCallingMCMC.fit",
           "mchap.application.call.program.call_sample_genotypes", "mchap.application.assemble.program.call_sample_genotypes",
           "mchap.calling.classes.GenotypeAllelesMultiTrace.posterior", "mchap.calling.classes.PosteriorGenotypeAllelesDistribution.mode", "mchap.calling.classes.PosteriorGenotypeAllelesDistribution.as_array",
           "mchap.calling.classes.GenotypeAllelesMultiTrace.posterior_frequencies", "mchap.calling.classes.GenotypeAllelesMultiTrace.replicate_incongruence",
           "mchap.assemble.classes.GenotypeMultiTrace.posterior", "mchap.assemble.classes.PosteriorGenotypeDistribution.mode_genotype_support", "mchap.assemble.classes.PosteriorGenotypeDistribution.allele_frequencies",
           "mchap.application.arguments.parse_sample_pools", "mchap.application.arguments.parse_pedigree_arguments", "mchap.io.loci.LocusPrior.from_variant_record"]
STUBS = ["np.random.seed and mchap.jitutils.seed_numba -> recorders of (generator, seed)",
         "every RNG-consuming callee (_denovo_assembler, sample_snv_alleles, calling/pedigree mcmc_sampler, greedy_caller is deterministic) -> recorder returning a value that is an uninterpreted function of (its arguments, generator states); generator state after seeding = S(seed)",
         "the RNG state before fit() and the results of earlier fits are symbolic (arbitrary history)",
         "multiprocessing.Pool / Manager().Queue() / sys.stdout -> nbsym/sched.py contract stubs (Pool(n): at most n tasks at once, FIFO start, AsyncResult.get re-raises, join waits for all tasks, daemonic workers die with the main process; Queue: unbounded FIFO, get blocks; stdout: writes of different processes may interleave in chunks); each simulated process is a thread that runs only when the solver-chosen schedule selects it",
         "call_locus -> returns the record line of the locus or raises for the solver-chosen failing locus; header()/loci() -> fixed lists"]
ASSUMES = ["numba's and numpy's generators are deterministic functions of their seed (trusted)", "the jitted samplers draw only from those two generators (C01/C02/C18 encode their bodies)",
           "multi-core group: the standard library behaves as its documented contract (stub validated against real multiprocessing in validate()); pickling of the program object succeeds; partial-order reduction: steps that commute with all other processes are not permuted",
           "the record of a locus is a function of (locus, inputs, seed) -- that is the seeding core above -- so the multi-core group uses opaque record lines"]
BOUNDS = {"quick": "assemble: 0 or 2 reads, sites all fixed / some / none (symbolic homozygosity probabilities and threshold), initial genotype given or sampled, 1-2 chains, 1-2 temperatures; call: with/without variants, initial given or greedy; pedigree: initial given or greedy; application loops: 2 samples; "
                   "multi-core: (loci, cores) in {(1,1),(2,1),(1,2),(2,2),(3,2)}, failing locus in {none, each locus}, ALL schedules; "
                   "state-leak: each of the four programs processes a 3-sample locus twice (program attributes and module-level containers compared), --report parsing four times; history: every ordered pair of 16 haplotype records (1-2 ALTs, reference masked or not, flat / tagged prior, with / without allele filter) through LocusPrior.from_variant_record vs freshly loaded modules; cli-attrs: the four programs' command lines with all options given distinctive values / left out, seed in {none, 0, 29}, ploidy in {2, 4}; refit: each of the five sampler classes fitted to two read sets in turn vs a fresh object; hash-order: every 2x2-step call trace over 6 diploid genotypes and assemble trace over 4, --report subsets/rotations of 5 names, 48 pool files, 24 pedigree files, every iteration order of sets of up to 3 elements (6 representative orders beyond)",
          "thorough": "same fit() space (small, fully explored); multi-core: adds (4,2),(2,3),(3,3),(4,3),(5,2),(5,3)"}
OUTSIDE = ("the OS / CPython implementation of multiprocessing (processes, pickling, pipes, signals) is replaced by its documented contract; more loci / cores than the bound; "
           "iteration over the targets file by pysam (locus order/subsets are covered only through 'a record depends on its locus and the seed alone'); header date/command lines; "
           "byte-identity of floating-point results across machines")
TASKS_PER_CHILD = 2
LEVEL_TEXT = ("Bounded symbolic execution of the three fit() drivers with the RNG modelled as explicit state: the obligation 'both generators hold S(seed) at the first draw and nothing else is read' is checked on every path. "
              "Bounded model checking of the real run_stdout/_run_stdout_multi_core/_worker/_writer source under a scheduling model of multiprocessing: the schedule and the failing locus are solver variables, all interleavings inside the bound "
              "(up to 3 loci x 2 cores quick, 5 x 3 thorough) are enumerated through the solver (realised mode: the per-schedule verdict is a concrete comparison), and witnesses are replayed with real multiprocessing.")


def configs(tier):
    out = []
    for seed in (0, 1234):  # 0 is a legal --mcmc-seed: it must seed like any other value
        for n_reads in (0, 2):
            for initial in (False, True):
                for chains in (1, 2):
                    out.append(dict(group="assemble", n_reads=n_reads, initial=initial, chains=chains, seed=seed))
        for variants in (True, False):
            for initial in (False, True):
                out.append(dict(group="call", variants=variants, initial=initial, seed=seed))
        for initial in (False, True):
            out.append(dict(group="pedigree", initial=initial, seed=seed))
    out.append(dict(group="app-call"))
    out.append(dict(group="rng-sources"))
    # multi-core driver under the scheduling model (nbsym/sched.py): every interleaving is a solver-chosen schedule
    mc = [(1, 1), (1, 2), (2, 2), (3, 2)] if tier == "quick" else [(1, 1), (1, 2), (2, 2), (3, 2), (4, 2), (2, 3), (3, 3), (4, 3), (5, 2), (5, 3)]
    for n_loci, n_cores in mc:
        out.append(dict(group="multicore", n_loci=n_loci, n_cores=n_cores))
    out.append(dict(group="multicore", n_loci=2, n_cores=1))
    # nothing outlives a locus: program object and module-level containers unchanged, second pass gives the same record
    from checks import wiring

    for prog in wiring.PROGS:
        out.append(dict(group="state-leak", prog=prog, order=0, twice=True))
    out.append(dict(group="state-leak", prog="report-fields"))
    # a model object (public API: parameterised once, fitted to many samples) fitted twice == a fresh object
    for cls in wiring.CLASSES:
        out.append(dict(group="refit", cls=cls))
    # "regardless of what was computed earlier in the same process": locus construction after another locus == in a fresh process
    for lo in range(0, 16, 4):
        out.append(dict(group="history", target="locus-prior", k1lo=lo))
    # argv -> program object: --mcmc-seed (0 is a legal seed), --ploidy, and every numeric option reach the attribute of that meaning
    for prog in wiring.CLI_PROGS:
        out.append(dict(group="cli-attrs", prog=prog))
    # the Python-level summaries and argument parsing under sets whose iteration order is a solver variable (str / bytes hashing is
    # randomised per process): a record must not depend on it
    for g0 in range(6):
        out.append(dict(group="hash-order", target="call-trace", first=g0))
    for g0 in range(4):
        out.append(dict(group="hash-order", target="asm-trace", first=g0))
    for t in ("report-fields", "sample-pools", "pedigree-args"):
        out.append(dict(group="hash-order", target=t))
    # whole records: the C07 record drivers (sampler output -> call_sample_genotypes -> sumarise_vcf_record -> text) re-run under solver-ordered sets
    for c7 in (dict(group="asm-line", scenario="mixed", report=3), dict(group="call-line", nA=3, report=3), dict(group="exact-line", nA=3, report=1), dict(group="ped-line", nA=2, report=3)):
        out.append(dict(group="hash-order", target="record", c7=c7))
    return out


def weight(c):
    if c["group"] == "multicore":
        return 10 * c["n_loci"] * c["n_cores"]
    return 2 if c["group"] == "assemble" else 1


class RNG:
    """explicit generator state: 'unknown' (arbitrary history) until seeded"""

    def __init__(self):
        self.state = {"numpy": "unknown", "numba": "unknown"}
        self.events = []

    def seed_numpy(self, s):
        self.state["numpy"] = ("S", s)
        self.events.append(("seed", "numpy", s))

    def seed_numba(self, s):
        self.state["numba"] = ("S", s)
        self.events.append(("seed", "numba", s))

    def draw(self, who, gens=("numpy", "numba")):
        self.events.append(("draw", who, tuple(self.state[g] for g in gens)))
        for g in gens:  # drawing advances the generator deterministically
            if self.state[g] != "unknown":
                self.state[g] = ("next", self.state[g], who)


def _verdict(rng, seed, site, col, w):
    draws = [e for e in rng.events if e[0] == "draw"]
    bad = [e for e in draws if any(s == "unknown" for s in e[2])]
    seeds = [e for e in rng.events if e[0] == "seed"]
    wrong = [e for e in seeds if e[2] != seed]
    if bad:
        col.fail(site, "draw-before-seeding", witness=dict(w, first=str(bad[0])), desc="%s draws from a generator that fit() has not seeded (result depends on process history)" % bad[0][1])
    elif wrong:
        col.fail(site, "wrong-seed", witness=dict(w, seeds=[str(e) for e in seeds]), desc="a generator is seeded with something other than random_seed")
    elif draws and {e[1] for e in seeds} != {"numpy", "numba"}:
        col.fail(site, "generator-not-seeded", witness=dict(w, seeds=[str(e) for e in seeds]), desc="only %s seeded" % sorted({e[1] for e in seeds}))
    else:
        col.ok("both generators seeded with random_seed before the first of %d RNG-consuming calls; no unseeded state is read" % len(draws))


def run_config(c, col):
    E.use_summaries(True)
    E.reset_modules()
    E.cfg.concrete_ints = True
    import warnings

    warnings.simplefilter("ignore")
    prof = E.Profile()
    with prof:
        globals()["_run_" + c["group"].replace("-", "_")](c, col)
    col.functions |= set(prof.names())


def _np_shim(rng):
    class R:
        @staticmethod
        def seed(s):
            rng.seed_numpy(s)

        def __getattr__(self, k):
            def f(*a, **kw):
                rng.draw("np.random.%s" % k, gens=("numpy",))
                return 0
            return f

    class S:
        random = R()

        def __getattr__(self, k):
            return getattr(E.NP, k)

    return S()


def _run_assemble(c, col):
    mc = E.load("mchap.assemble.mcmc")
    site = "mchap.assemble.mcmc.DenovoMCMC.fit"
    n_pos, A, P = 2, 2, 2

    def body(ctx):
        rng = RNG()
        mc.np = _np_shim(rng)
        mc.seed_numba = rng.seed_numba
        thr = E.fresh_real(ctx, "thr", 0, 1, hi_strict=False)
        hp = E.SArray((n_pos, A), float)
        for i in range(n_pos):
            for a in range(A):
                rnp.ndarray.__setitem__(hp, (i, a), E.SymReal(E.fresh_real(ctx, "h%d_%d" % (i, a), 0, 1, lo_strict=False, hi_strict=False)))
        mc._homozygosity_probabilities = lambda reads, n_alleles, ploidy, inbreeding=0, read_counts=None: hp
        mc._read_mean_dist = lambda reads: rnp.full((reads.shape[1], A), 0.5)

        def sample(dist):
            rng.draw("sample_snv_alleles")
            return rnp.zeros(len(dist), dtype=rnp.int8)

        def assembler(*, genotype, reads, steps, **k):
            rng.draw("_denovo_assembler")
            n_het = reads.shape[1]
            return rnp.zeros((1, steps, P, n_het), dtype=rnp.int8), rnp.zeros((1, steps))

        mc.sample_snv_alleles = sample
        mc._denovo_assembler = assembler
        seed = c.get("seed", 1234)
        obj = mc.DenovoMCMC(ploidy=P, n_alleles=[A] * n_pos, steps=2, chains=c["chains"], fix_homozygous=E.SymReal(thr), n_intervals=1, random_seed=seed,
                            temperatures=(1.0,) if c["chains"] == 1 else (0.5, 1.0))
        reads = rnp.full((c["n_reads"], n_pos, A), 0.5)
        init = None
        if c["initial"]:
            init = [None] * c["chains"]  # per-chain None is what the CLI passes; a given array needs the het count: covered below
        try:
            obj.fit(reads, read_counts=None, initial=init)
        finally:
            mc.np = E.NP
        return rng, seed

    first = True
    for pr in E.explore(body, stats=col.stats):
        if pr.exc is not None:
            col.fail(site, "exception", witness=dict(exc=repr(pr.exc)), desc="raised %r" % (pr.exc,))
            continue
        col.path()
        if first:
            col.reachable(pr.ctx)
            first = False
        rng, seed = pr.value
        _verdict(rng, seed, site, col, dict(config=c))


def _run_call(c, col):
    cc = E.load("mchap.calling.classes")
    site = "mchap.calling.classes.CallingMCMC.fit"

    def body(ctx):
        rng = RNG()
        cc.np = _np_shim(rng)
        cc.seed_numba = rng.seed_numba

        def sampler(**k):
            rng.draw("mcmc_sampler")
            return rnp.zeros((2, 2), dtype=rnp.int8), rnp.zeros(2)

        cc.mcmc_sampler = sampler
        cc.greedy_caller = lambda **k: rnp.zeros(2, dtype=rnp.int8)  # deterministic (no RNG) -- checked: contains no random call
        seed = c.get("seed", 77)
        haps = rnp.array([[0], [1]], dtype=rnp.int8) if c["variants"] else rnp.zeros((1, 0), dtype=rnp.int8)
        obj = cc.CallingMCMC(ploidy=2, haplotypes=haps, steps=2, chains=2, random_seed=seed)
        reads = rnp.full((2, 1 if c["variants"] else 0, 2), 0.5)
        try:
            obj.fit(reads, read_counts=rnp.ones(2, dtype=int), initial=rnp.zeros(2, dtype=rnp.int8) if c["initial"] else None)
        finally:
            cc.np = E.NP
        return rng, seed

    for pr in E.explore(body, stats=col.stats):
        if pr.exc is not None:
            col.fail(site, "exception", witness=dict(exc=repr(pr.exc)), desc="raised %r" % (pr.exc,))
            continue
        col.path()
        col.reachable(pr.ctx)
        rng, seed = pr.value
        _verdict(rng, seed, site, col, dict(config=c))
    # greedy_caller must not consume randomness: its source contains no random call
    import inspect
    import os

    src = open(os.path.join(E.repo_root(), "mchap/calling/mcmc.py")).read()
    body_src = src[src.index("def greedy_caller"):]
    if "random" in body_src.split("\ndef ")[0]:
        col.fail("mchap.calling.mcmc.greedy_caller", "greedy-uses-rng", witness={}, desc="greedy_caller uses a random call before seeding matters")
    else:
        col.ok("greedy_caller (initial genotype) contains no random call")


def _run_pedigree(c, col):
    pc = E.load("mchap.pedigree.classes")
    site = "mchap.pedigree.classes.PedigreeCallingMCMC.fit"

    def body(ctx):
        rng = RNG()
        pc.np = _np_shim(rng)
        pc.seed_numba = rng.seed_numba

        def sampler(**k):
            rng.draw("pedigree.mcmc_sampler")
            return rnp.zeros((2, 2, 2), dtype=rnp.int16)

        pc.mcmc_sampler = sampler
        pc.greedy_caller = lambda **k: rnp.zeros(2, dtype=rnp.int8)
        seed = c.get("seed", 5)
        obj = pc.PedigreeCallingMCMC(sample_ploidy=rnp.array([2, 2]), sample_inbreeding=rnp.zeros(2), sample_parents=rnp.full((2, 2), -1), gamete_tau=rnp.ones((2, 2), dtype=int),
                                     gamete_lambda=rnp.zeros((2, 2)), gamete_error=rnp.zeros((2, 2)), haplotypes=rnp.array([[0], [1]], dtype=rnp.int8), steps=2, annealing=1, chains=2, random_seed=seed)
        try:
            obj.fit(rnp.full((2, 1, 1, 2), 0.5), rnp.ones((2, 1), dtype=int), initial=rnp.zeros((2, 2), dtype=rnp.int16) if c["initial"] else None)
        finally:
            pc.np = E.NP
        return rng, seed

    for pr in E.explore(body, stats=col.stats):
        if pr.exc is not None:
            col.fail(site, "exception", witness=dict(exc=repr(pr.exc)), desc="raised %r" % (pr.exc,))
            continue
        col.path()
        col.reachable(pr.ctx)
        rng, seed = pr.value
        _verdict(rng, seed, site, col, dict(config=c))


def _run_app_call(c, col):
    """the per-sample loops hand every sample the program's seed (so a sample's result does not depend on its position)"""
    call = E.load("mchap.application.call")
    asm = E.load("mchap.application.assemble")
    bc = E.load("mchap.application.baseclass")
    FORMAT = E.load("mchap.io.vcf.formatfields")
    COLUMN = E.load("mchap.io.vcf.columns")
    cc = E.load("mchap.calling.classes")
    seeds = []

    class FakeMCMC:
        def __init__(self, **kw):
            seeds.append(("call", kw.get("random_seed")))

        def fit(self, reads, read_counts):
            return cc.GenotypeAllelesMultiTrace(rnp.zeros((1, 2, 2), dtype=rnp.int8), rnp.zeros((1, 2)), 2)

    call.CallingMCMC = FakeMCMC
    call.qual_of_prob = lambda p: 0
    call.minimum_error_correction = lambda calls, haps: rnp.zeros(1)

    class L:
        frequencies = rnp.array([0.5, 0.5])
        mask_reference_allele = False
        sequence = "A"
        alts = ("C",)

        def encode_haplotypes(self):
            return rnp.array([[0], [1]], dtype=rnp.int8)

    def body(ctx):
        seeds.clear()
        prog = call.program.__new__(call.program)
        prog.info_fields, prog.format_fields = [], [FORMAT.GT]
        for k, v in dict(mcmc_steps=2, mcmc_chains=1, random_seed=99, mcmc_burn=0, mcmc_incongruence_threshold=0.6).items():
            setattr(prog, k, v)
        samples = ["a", "b"]
        data = bc.LocusAssemblyData(locus=L(), samples=samples, sample_bams={}, sample_ploidy={s: 2 for s in samples}, sample_inbreeding={s: 0.0 for s in samples},
                                    read_calls={s: rnp.zeros((1, 1), dtype=int) for s in samples}, read_dists={s: s for s in samples}, read_counts={s: None for s in samples},
                                    infofields=[], formatfields=prog.format_fields, columndata={COLUMN.FILTER: []}, infodata={}, sampledata={f: {} for f in FORMAT.ALL_FIELDS})
        prog.call_sample_genotypes(data)
        return list(seeds)

    for pr in E.explore(body, stats=col.stats):
        if pr.exc is not None:
            col.fail("mchap.application.call.program.call_sample_genotypes", "exception", witness=dict(exc=repr(pr.exc.__cause__ or pr.exc)), desc="raised %r" % (pr.exc,))
            continue
        col.path()
        col.reachable(pr.ctx)
        s = pr.value
        if [x[1] for x in s] != [99, 99]:
            col.fail("mchap.application.call.program.call_sample_genotypes", "per-sample-seed", witness=dict(seeds=s), desc="samples do not all receive the program's --mcmc-seed")
        else:
            col.ok("every sample's sampler is constructed with the program's --mcmc-seed")


SAMPLER_MODULES = ["mchap.jitutils", "mchap.assemble.mcmc", "mchap.assemble.mutation", "mchap.assemble.structural", "mchap.assemble.tempering", "mchap.assemble.likelihood",
                   "mchap.assemble.prior", "mchap.assemble.snpcalling", "mchap.calling.mcmc", "mchap.calling.classes", "mchap.calling.prior", "mchap.calling.likelihood",
                   "mchap.pedigree.mcmc", "mchap.pedigree.prior", "mchap.pedigree.likelihood", "mchap.pedigree.classes"]


def _run_rng_sources(c, col):
    """guard of the model's assumption: the samplers draw only from numpy's namespace (the two generators fit() seeds).
    The sampler modules are shadow-loaded with the stdlib generators replaced by tripwires and their source is scanned for
    other entropy sources."""
    import ast
    import os
    import types

    site = "mchap (sampler modules)"
    trip = types.ModuleType("random")

    def _tripped(name):
        def f(*a, **k):
            raise RuntimeError("stdlib random.%s used" % name)
        return f

    for name in ("random", "randint", "choice", "shuffle", "uniform", "seed", "sample", "randrange", "gauss"):
        setattr(trip, name, _tripped(name))
    E.set_extern("random", trip)
    try:
        for modname in SAMPLER_MODULES:
            E.load(modname)
    finally:
        E._extern.pop("random", None)
    col.path()
    for pr in E.explore(lambda ctx: ctx.assume(z3.Real("one") == 1), stats=col.stats):
        col.reachable(pr.ctx)
    bad = []
    for modname in SAMPLER_MODULES:
        path = os.path.join(E.repo_root(), *modname.split(".")) + ".py"
        tree = ast.parse(open(path).read())
        for node in ast.walk(tree):
            if isinstance(node, (ast.Import, ast.ImportFrom)):
                names = [a.name for a in node.names] if isinstance(node, ast.Import) else [node.module or ""]
                for n in names:
                    if n.split(".")[0] in ("random", "secrets", "time", "uuid", "os") and not (n == "os"):
                        bad.append("%s imports %s (line %d)" % (modname, n, node.lineno))
            if isinstance(node, ast.Attribute) and isinstance(node.value, ast.Name) and node.value.id == "random" and node.attr != "seed":
                bad.append("%s uses random.%s (line %d): not one of the generators that fit() seeds" % (modname, node.attr, node.lineno))
            if isinstance(node, ast.Call) and isinstance(node.func, ast.Attribute) and node.func.attr in ("default_rng", "RandomState", "urandom", "time", "time_ns"):
                bad.append("%s calls %s (line %d)" % (modname, node.func.attr, node.lineno))
    if bad:
        col.fail(site, "unseeded-rng-source", witness=dict(sources=bad), desc="; ".join(bad[:3]))
    else:
        col.ok("the sampler modules draw randomness only through numpy's namespace (np.random.*), i.e. the generators fit() seeds")



# ------------------------------------------------------------------ multi-core driver under a scheduling model

MC_HEADER = ["##fileformat=VCFv4.3", "#CHROM\tPOS"]
MC_SITE = "mchap.application.baseclass.program.run_stdout"


def _mc_line(name):
    return "LINE-%s-0123456789" % name


def mc_judge(text, exited_ok, hang, n_loci, fail, header, line_of):
    """the C08 multi-core clauses as a predicate over (what reached stdout, exit status): returns [(kind, description)]"""
    bad = []
    if hang:
        return [("hang", "the program neither finishes nor fails: %s" % (hang,))]
    lines = text.split("\n")
    if lines and lines[-1] == "":
        lines = lines[:-1]
    elif text:
        bad.append(("torn-line", "output does not end with a complete line"))
    if lines[: len(header)] != header:
        bad.append(("header", "the header lines are not the first lines of the output"))
    body = lines[len(header):] if lines[: len(header)] == header else [ln for ln in lines if ln not in header]
    expected = [line_of("L%d" % i) for i in range(n_loci)]
    for ln in body:
        if ln not in expected:
            bad.append(("torn-line", "a line that is no record was written: %r" % (ln[:40],)))
            break
    for e in expected:
        if body.count(e) > 1:
            bad.append(("duplicate-line", "record %s written %d times" % (e[:8], body.count(e))))
            break
    if fail < 0:
        if not exited_ok:
            bad.append(("spurious-failure", "no locus fails but the program exits with an error"))
        missing = [e[:8] for e in expected if e not in body]
        if missing and exited_ok:
            bad.append(("lost-line", "records %s never reach stdout although the program exits with status 0" % (missing,)))
    else:
        # a failing run only has to fail loudly (a line cut short by the dying process is not held against it)
        bad = [b for b in bad if b[0] == "duplicate-line"]
        if exited_ok:
            bad.append(("silent-failure", "locus L%d fails but the program exits with status 0" % fail))
    return bad


def _run_multicore(c, col):
    from nbsym import sched

    n_loci, n_cores = c["n_loci"], c["n_cores"]
    bc = E.load("mchap.application.baseclass")
    loci_mod = E.load("mchap.io.loci")
    real_sys = bc.sys
    col.functions |= {"mchap.application.baseclass.program.run_stdout", "mchap.application.baseclass.program._run_stdout_multi_core",
                      "mchap.application.baseclass.program._run_stdout_single_core", "mchap.application.baseclass.program._worker",
                      "mchap.application.baseclass.program._writer", "mchap.application.baseclass.program._assemble_loci_wrapped"}

    chunk = [False]

    def body(ctx):
        fail = ctx.concretize_int(E.fresh_int(ctx, "failing_locus", -1, n_loci - 1))
        nchoice = [0]

        def choose(n, labels):
            v = E.fresh_int(ctx, "sched%d" % nchoice[0], 0, n - 1)
            nchoice[0] += 1
            return ctx.concretize_int(v)

        sim = sched.Sim(choose, chunk_writes=chunk[0])

        class FakeSys:
            stdout = sched.SimStdout(sim)
            stderr = real_sys.stderr

            def __getattr__(self, k):
                return getattr(real_sys, k)

        loci = [loci_mod.Locus(contig="c", start=i, stop=i + 1, name="L%d" % i, sequence="A", variants=()) for i in range(n_loci)]

        class P(bc.program):
            def loci(self):
                return iter(loci)

            def header(self):
                return list(MC_HEADER)

            def call_locus(self, locus, sample_bams):
                if locus.name == "L%d" % fail:
                    raise ValueError("locus %s cannot be assembled" % locus.name)
                return _mc_line(locus.name)

        prog = P(vcf=None, ref=None, samples=[], sample_bams={}, sample_ploidy={}, sample_inbreeding={}, n_cores=n_cores)
        bc.mp = sched.mp_module(sim)
        bc.sys = FakeSys()
        try:
            main = sim.run(prog.run_stdout)
        finally:
            bc.sys = real_sys
        text = "".join(ch for _, ch in sim.stdout)
        writers = sorted(sim.writers)
        return fail, text, main.done and main.exc is None, sim.deadlock, list(sim.schedule), writers, repr(main.exc)

    first = True
    all_writers = set()
    nbad = 0
    for pr in _mc_paths(body, col, chunk, all_writers):
        if pr.exc is not None:
            col.fail(MC_SITE, "exception", witness=dict(exc=repr(pr.exc)), desc="harness/driver raised %r" % (pr.exc,))
            continue
        col.path()
        if first:
            col.reachable(pr.ctx)
            first = False
        fail, text, ok, deadlock, schedule, writers, exc = pr.value
        all_writers |= set(writers)
        bad = mc_judge(text, ok, deadlock, n_loci, fail, MC_HEADER, _mc_line)
        order = [m.group(1) for m in __import__("re").finditer(r"LINE-(L\d+)-", text)]
        w = dict(n_loci=n_loci, n_cores=n_cores, fail=fail, schedule=schedule[:80], order=order, writers=writers, exit_exc=exc)
        if bad:
            kind, desc = bad[0]
            col.fail(MC_SITE, kind, shape=dict(kind=kind), witness=w, desc=desc, model=E.model_dict(_model_of(pr.ctx)))
            nbad += 1
            if nbad >= 12:
                break
        else:
            col.ok("n_loci=%d cores=%d failing=%s: %s" % (n_loci, n_cores, fail if fail >= 0 else None,
                                                        "exit status non-zero; only intact, unduplicated records were written" if fail >= 0 else
                                                        "header first, every record exactly once and intact, exit status 0"))


def _mc_paths(body, col, chunk, all_writers):
    """first every schedule with atomic writes; if more than one process turned out to write to stdout after the first
    child was created, every schedule again with those writes chunked (torn lines become visible)"""
    for pr in E.explore(body, stats=col.stats):
        yield pr
    if len(all_writers) > 1:
        chunk[0] = True
        for pr in E.explore(body, stats=col.stats, max_paths=20000):
            yield pr


def _run_state_leak(c, col):
    from checks import wiring

    if c["prog"] != "report-fields":
        E.cfg.concrete_floats = True  # the records are rendered: numbers stay native floats
        try:
            return wiring.run(c, col)
        finally:
            E.cfg.concrete_floats = False
    # parse_report_fields / argument collection must not grow the module-level field lists
    E.reset_modules()
    args = E.load("mchap.application.arguments")
    FORMAT = E.load("mchap.io.vcf.formatfields")
    INFO = E.load("mchap.io.vcf.infofields")
    site = "mchap.application.arguments.parse_report_fields"

    class P:
        pass

    def body(ctx):
        before = wiring.snapshot_state(P())
        a1 = args.parse_report_fields(["GP", "AFP", "INFO/ACP"])
        a2 = args.parse_report_fields(None)
        a3 = args.parse_report_fields(["GP", "AFP", "INFO/ACP"])
        a2[0].append("x")
        a2[1].append("y")
        a4 = args.parse_report_fields(None)
        return wiring.diff_state(before, wiring.snapshot_state(P())), [getattr(f, "id", f) for f in a1[0]] == [getattr(f, "id", f) for f in a3[0]] and [getattr(f, "id", f) for f in a1[1]] == [getattr(f, "id", f) for f in a3[1]], \
            [getattr(f, "id", f) for f in a4[0]], [getattr(f, "id", f) for f in a4[1]], [getattr(f, "id", f) for f in INFO.DEFAULT_FIELDS], [getattr(f, "id", f) for f in FORMAT.DEFAULT_FIELDS]

    for pr in E.explore(body, stats=col.stats):
        if pr.exc is not None:
            col.fail(site, "exception", witness=dict(exc=repr(pr.exc)), desc="raised %r" % (pr.exc,))
            continue
        col.path()
        col.reachable(pr.ctx)
        changed, same, i4, f4, idef, fdef = pr.value
        if changed or not same or i4 != idef or f4 != fdef:
            col.fail(site, "state-leak", shape=dict(prog="report-fields"), witness=dict(prog="report-fields", changed=changed[:4], default_info=i4, default_format=f4),
                     desc="--report parsing depends on / changes earlier calls: %s" % ("; ".join(changed[:2]) or "a caller-side edit of the returned lists shows up in the next call"))
        else:
            col.ok("parse_report_fields returns fresh lists: module-level DEFAULT_FIELDS unchanged, results independent of earlier calls and of edits to earlier results")


HIST_SEQS = ["AAA", "ACA", "AAT"]


def _hist_record(k):
    """record number k of the history domain: (number of ALTs, reference masked?, prior from tag / flat, allele filter?)"""
    from checks import c16

    n_alt, masked, tagged, filt = 1 + (k & 1), bool(k >> 1 & 1), bool(k >> 2 & 1), bool(k >> 3 & 1)
    info = {"AFX": tuple([0.5, 0.25, 0.25][: n_alt + 1])}
    if masked:
        info["REFMASKED"] = True
    rec = c16._Record(HIST_SEQS[0], HIST_SEQS[1: n_alt + 1], info, {"AFX": c16._Meta("R", "Float")})
    kw = dict(frequency_tag="AFX" if tagged else None, allele_filter="AFX>=0.3" if filt else None)
    return rec, kw


def _hist_view(lp):
    return dict(frequencies=[repr(float(x)) for x in rnp.asarray(lp.frequencies, dtype=float)], masked=bool(lp.mask_reference_allele), sequence=str(lp.sequence),
                alts=[str(a) for a in lp.alts])


def _hist_drive(load, fresh, k1, k2):
    """locus k2 built right after locus k1 in one process, and locus k2 built by freshly loaded modules"""
    lo = load("mchap.io.loci")
    r1, kw1 = _hist_record(k1)
    r2, kw2 = _hist_record(k2)
    try:
        lo.LocusPrior.from_variant_record(r1, **kw1)
    except Exception:  # a record the program rejects is rejected; what follows must not care
        pass
    after = _hist_view(lo.LocusPrior.from_variant_record(r2, **kw2))
    lo2 = fresh("mchap.io.loci")
    r2b, kw2b = _hist_record(k2)
    alone = _hist_view(lo2.LocusPrior.from_variant_record(r2b, **kw2b))
    return after, alone


def _run_history(c, col):
    site = "mchap.io.loci.LocusPrior.from_variant_record"
    E.cfg.concrete_floats = True

    def fresh(name):
        E.reset_modules()
        return E.load(name)

    def body(ctx):
        k1 = int(E.SymInt(E.fresh_int(ctx, "k1", c.get("k1lo", 0), c.get("k1lo", 0) + 3 if "k1lo" in c else 15)))
        k2 = int(E.SymInt(E.fresh_int(ctx, "k2", 0, 15)))
        E.reset_modules()
        return k1, k2, _hist_drive(E.load, fresh, k1, k2)

    try:
        first = True
        for pr in E.explore(body, stats=col.stats):
            if pr.exc is not None:
                e = pr.exc
                if isinstance(e, (ValueError, AssertionError)):  # the second record itself is not acceptable input (e.g. every allele filtered out)
                    col.path()
                    col.ok("second record rejected by the program (same with and without history is not asked of rejected input)")
                    continue
                col.fail(site, "exception", shape=dict(target="locus-prior"), witness=dict(exc=repr(e)), desc="raised %r" % (e,))
                continue
            col.path()
            if first:
                col.reachable(pr.ctx)
                first = False
            k1, k2, (after, alone) = pr.value
            if after != alone:
                col.fail(site, "history-dependence", shape=dict(target="locus-prior"), witness=dict(k1=k1, k2=k2, after_other_locus=after, alone=alone),
                         desc="a locus built after another one differs from the same locus built first: %s" % _first_diff(after, alone), model=dict(k1=k1, k2=k2))
            else:
                col.ok("locus built after another locus == the same locus built by freshly loaded modules (both records solver-enumerated)")
    finally:
        E.cfg.concrete_floats = False
        E.reset_modules()


def _replay_history(v):
    import importlib

    w = v.get("witness") or {}
    state = {}

    def load(name):
        state["m"] = importlib.import_module(name)
        return state["m"]

    def fresh(name):
        return importlib.reload(state["m"])

    try:
        after, alone = _hist_drive(load, fresh, int(w["k1"]), int(w["k2"]))
    finally:
        if "m" in state:
            importlib.reload(state["m"])
    return after != alone, "real modules: locus %d built after locus %d: %s; built by a freshly loaded module: %s" % (w["k2"], w["k1"], after, alone)


def _run_cli_attrs(c, col):
    from checks import wiring

    return wiring.run_cli_attrs(c, col)


def _run_refit(c, col):
    from checks import wiring

    return wiring.run_refit(c, col)


# ------------------------------------------------------------------ set iteration order (hash randomisation)
HASH_REPORT = ["AFP", "GP", "INFO/ACP", "AOPSUM", "FORMAT/AOP"]


def _jsonable(x):
    if isinstance(x, dict):
        return {str(k): _jsonable(v) for k, v in x.items()}
    if isinstance(x, (list, tuple)):
        return [_jsonable(v) for v in x]
    if isinstance(x, (set, frozenset)):
        return sorted(_jsonable(v) for v in x)
    if isinstance(x, rnp.ndarray):
        return _jsonable(x.tolist())
    if isinstance(x, (rnp.integer,)):
        return int(x)
    if isinstance(x, (float, rnp.floating)):
        return repr(float(x))
    if hasattr(x, "id") and not isinstance(x, (str, bytes)):
        return getattr(x, "id")
    return x


def _hash_drive(load, target, payload):
    """the operation whose result must be a function of `payload` alone (shared by the symbolic run under solver-ordered sets
    and by the replay in fresh interpreters with different PYTHONHASHSEED)"""
    import tempfile
    from checks import c14

    if target == "call-trace":
        cc = load("mchap.calling.classes")
        g = rnp.array(payload["trace"], dtype=rnp.int8).reshape(2, 2, 2)
        r = c14._drive_call(cc, g, 0, 0, 3)
        return _jsonable({k: r[k] for k in ("post_g", "post_p", "mode", "mode_s", "arr", "freqs", "inc")})
    if target == "asm-trace":
        ac = load("mchap.assemble.classes")
        g = rnp.array(payload["trace"], dtype=rnp.int8).reshape(2, 2, 2, 1)
        r = c14._drive_asm(ac, g, 0, 0)
        return _jsonable({k: r[k] for k in ("post_g", "post_p", "sup_g", "sup_p", "mode", "af", "afd", "inc")})
    if target == "record":
        from checks import c07

        store = []
        real, wrapped = _captured_explore(store)
        E.explore = wrapped
        try:
            c07.replay(dict(config=payload["config"], model=payload["model"], witness={}))
        finally:
            E.explore = real
        return [v for _, v, _ in store]
    args = load("mchap.application.arguments")
    if target == "report-fields":
        info, fmt = args.parse_report_fields(payload["report"])
        return _jsonable(dict(info=[f.id for f in info], format=[f.id for f in fmt]))
    tmp = tempfile.mkdtemp(prefix="mchap-c08-")
    try:
        if target == "sample-pools":
            path = os.path.join(tmp, "pools.txt")
            open(path, "w").write("".join("%s\t%s\n" % (s_, p_) for s_, p_ in payload["lines"]))
            samples = ["a", "b", "c"]
            pools, pool_bams = args.parse_sample_pools(list(samples), {s_: s_ + ".bam" for s_ in samples}, path)
            return _jsonable(dict(pools=list(pools), bams={k: [list(x) for x in v] for k, v in pool_bams.items()}, order=list(pool_bams)))
        if target == "pedigree-args":
            path = os.path.join(tmp, "ped.txt")
            open(path, "w").write("".join("%s\t%s\t%s\n" % tuple(r) for r in payload["lines"]))
            samples = ["a", "b"]
            d = args.parse_pedigree_arguments(samples=list(samples), sample_bams={s_: s_ + ".bam" for s_ in samples}, ploidy_argument="2", sample_parents_argument=path,
                                              gamete_ploidy_argument=None, gamete_ibd_argument="0.0", gamete_error_argument="0.0")
            return _jsonable({k: (list(v) if isinstance(v, list) else {kk: vv for kk, vv in v.items()}) for k, v in d.items()} | {"key-order": {k: list(v) for k, v in d.items() if isinstance(v, dict)}})
    finally:
        import shutil

        shutil.rmtree(tmp, ignore_errors=True)
    raise ValueError(target)


def _hash_payload(c, choice):
    t = c["target"]
    if t == "call-trace":
        genos = [(0, 0), (0, 1), (0, 2), (1, 1), (1, 2), (2, 2)]
        idx = [c["first"]] + [choice("t%d" % k, 0, 5) for k in (1, 2, 3)]
        return dict(trace=[list(genos[i]) for i in idx])
    if t == "asm-trace":
        genos = [(0, 0), (0, 1), (1, 0), (1, 1)]
        idx = [c["first"]] + [choice("t%d" % k, 0, 3) for k in (1, 2, 3)]
        return dict(trace=[list(genos[i]) for i in idx])
    if t == "report-fields":
        mask, rot = choice("mask", 0, 2 ** len(HASH_REPORT) - 1), choice("rot", 0, len(HASH_REPORT) - 1)
        opts = HASH_REPORT[rot:] + HASH_REPORT[:rot]
        return dict(report=[o for i, o in enumerate(opts) if mask >> i & 1])
    if t == "sample-pools":
        perm = list(itertools.permutations(["a", "b", "c"]))[choice("perm", 0, 5)]
        mask = choice("pool", 0, 7)
        return dict(lines=[[s_, "p%d" % (mask >> i & 1)] for i, s_ in enumerate(perm)])
    if t == "pedigree-args":
        rows = [["c", "a", "b"], ["d", "c", "."], ["a", ".", "."], ["e", "d", "a"]]
        perm = list(itertools.permutations(range(4)))[choice("perm", 0, 23)]
        return dict(lines=[rows[i] for i in perm])
    raise ValueError(t)


def _ser(v, depth=0):
    if isinstance(v, (str, int, bool)) or v is None:
        return v
    if isinstance(v, (float, rnp.floating)):
        return repr(float(v))
    if isinstance(v, rnp.integer):
        return int(v)
    if isinstance(v, rnp.ndarray):
        return _ser(v.tolist(), depth + 1)
    if isinstance(v, (list, tuple)) and depth < 6:
        return [_ser(x, depth + 1) for x in v]
    if isinstance(v, dict) and depth < 6:
        return {str(getattr(k, "id", k)): _ser(x, depth + 1) for k, x in v.items()}
    return "<%s>" % type(v).__name__


class _Quiet:
    """collector for a driver whose own verdicts are not the subject (they are judged by the check the driver belongs to)"""

    def __init__(self, stats):
        self.stats = stats
        self.functions = set()

    def path(self, n=1):
        pass

    def reachable(self, ctx):
        return True

    def ok(self, desc=None):
        pass

    def fail(self, *a, **k):
        pass

    def check(self, *a, **k):
        return True

    def note_inconclusive(self, why):
        pass


def _captured_explore(store):
    """E.explore wrapped: every finished path leaves (its non-set-order integer choices, its value, the set orders drawn)"""
    real = E.explore

    def wrapped(fn, *a, **k):
        for pr in real(fn, *a, **k):
            if pr.exc is None:
                try:
                    pr.ctx.isolver.check()
                    md = E.model_dict(pr.ctx.isolver.model())
                except BaseException:
                    md = {}
                store.append(({k_: v_ for k_, v_ in md.items() if not str(k_).startswith("setorder")}, _ser(pr.value),
                              [e for e in pr.ctx.events if e.get("kind") == "set-iteration"]))
            yield pr

    return real, wrapped


def _run_hash_order_record(c, col):
    import json
    from checks import c07

    site = "mchap.application.baseclass.LocusAssemblyData.format_vcf_record"
    store = []
    E.cfg.nd_sets = True
    real, wrapped = _captured_explore(store)
    E.explore = wrapped
    try:
        c07.run_config(dict(c["c7"]), _Quiet(col.stats))
    finally:
        E.explore = real
        E.cfg.nd_sets = False
        E.cfg.concrete_floats = False
        E.reset_modules()
    seen = {}
    for key, val, orders in store:
        col.path()
        k = json.dumps(key, sort_keys=True)
        txt = json.dumps(val, sort_keys=True)
        if k not in seen:
            seen[k] = (txt, orders)
            col.ok("record for these inputs recorded (%s)" % c["c7"]["group"])
        elif seen[k][0] != txt:
            col.fail(site, "set-order-dependence", shape=dict(target="record", driver=c["c7"]["group"]),
                     witness=dict(target="record", payload=dict(config=c["c7"], model=key), orders_a=seen[k][1][:3], orders_b=orders[:3]),
                     desc="the %s record for the same inputs depends on the iteration order of a set: %s" % (c["c7"]["group"], _first_diff(json.loads(seen[k][0]), val)), model=key)
        else:
            col.ok("same inputs, another iteration order of the sets involved: identical record (%s)" % c["c7"]["group"])
    if not store:
        col.note_inconclusive("the %s driver produced no finished path" % c["c7"]["group"])


def _run_hash_order(c, col):
    import json

    if c["target"] == "record":
        return _run_hash_order_record(c, col)
    E.cfg.nd_sets = True
    E.cfg.concrete_floats = True
    try:
        E.reset_modules()
        site = {"call-trace": "mchap.calling.classes.PosteriorGenotypeAllelesDistribution", "asm-trace": "mchap.assemble.classes.PosteriorGenotypeDistribution"}.get(c["target"], "mchap.application.arguments")
        seen = {}

        def body(ctx):
            payload = _hash_payload(c, lambda name, lo, hi: int(E.SymInt(E.fresh_int(ctx, name, lo, hi))))
            return payload, _hash_drive(E.load, c["target"], payload)

        first = True
        for pr in E.explore(body, stats=col.stats):
            if pr.exc is not None:
                col.fail(site, "exception", shape=dict(target=c["target"]), witness=dict(exc=repr(pr.exc)), desc="raised %r" % (pr.exc,))
                continue
            col.path()
            if first:
                col.reachable(pr.ctx)
                first = False
            payload, out = pr.value
            key = json.dumps(payload, sort_keys=True)
            txt = json.dumps(out, sort_keys=True)
            orders = [e for e in pr.ctx.events if e.get("kind") == "set-iteration"]
            if key not in seen:
                seen[key] = (txt, orders)
                col.ok("first result for these inputs recorded (%s)" % c["target"])
            elif seen[key][0] != txt:
                col.fail(site, "set-order-dependence", shape=dict(target=c["target"]), witness=dict(target=c["target"], payload=payload, result_a=json.loads(seen[key][0]), orders_a=seen[key][1][:3], result_b=out, orders_b=orders[:3]),
                         desc="the result for the same inputs depends on the iteration order of a set (hash randomisation): %s" % _first_diff(json.loads(seen[key][0]), out))
            else:
                col.ok("same inputs, another iteration order of the sets involved: identical result (%s)" % c["target"])
    finally:
        E.cfg.nd_sets = False
        E.cfg.concrete_floats = False
        E.reset_modules()


def _first_diff(a, b):
    if isinstance(a, dict) and isinstance(b, dict):
        for k in a:
            if a.get(k) != b.get(k):
                return "%s: %s" % (k, _first_diff(a.get(k), b.get(k)))
    return "%s vs %s" % (str(a)[:120], str(b)[:120])


def _replay_hash_order(v):
    """fresh interpreters with different hash seeds run the same operation on the REAL modules"""
    import json
    import subprocess
    import sys as _sys

    w = v.get("witness") or {}
    root = os.path.dirname(os.path.dirname(os.path.abspath(__file__)))
    outs = {}
    for hs in range(12):
        env = dict(os.environ, PYTHONHASHSEED=str(hs), PYTHONPATH=os.pathsep.join([E.repo_root(), root]))
        p = subprocess.run([_sys.executable, "-W", "ignore", "-m", "checks.c08_hash_real", w["target"], json.dumps(w["payload"])], capture_output=True, text=True, timeout=600, env=env, cwd=root)
        if p.returncode != 0:
            return False, "real run failed: %s" % p.stderr[-300:]
        outs.setdefault(p.stdout.strip().splitlines()[-1], []).append(hs)
    if len(outs) > 1:
        (a, ha), (b, hb) = list(outs.items())[:2]
        return True, "real modules, %s on %s: PYTHONHASHSEED=%s and =%s give different results: %s" % (w["target"], json.dumps(w["payload"])[:120], ha[0], hb[0], _first_diff(json.loads(a), json.loads(b)))
    return False, "real modules: identical result under 12 hash seeds"


def _model_of(ctx):
    ctx.isolver.check()
    return ctx.isolver.model()


def _replay_multicore(v, attempts=3, kinds=None):
    import subprocess
    import sys as _sys

    w = v.get("witness") or {}
    n_loci, n_cores, fail = int(w.get("n_loci", 3)), int(w.get("n_cores", 2)), int(w.get("fail", -1))
    order = list(w.get("order") or [])
    from checks import c08_real

    env = dict(os.environ, PYTHONPATH=os.pathsep.join([E.repo_root(), os.path.dirname(os.path.dirname(os.path.abspath(__file__)))]))
    verdicts = []
    for attempt, ordr in enumerate([order, order[::-1], []][:attempts]):
        try:
            p = subprocess.run([_sys.executable, "-m", "checks.c08_real", str(n_loci), str(n_cores), str(fail), ",".join(ordr)],
                               capture_output=True, text=True, timeout=300, env=env, cwd=os.path.dirname(os.path.dirname(os.path.abspath(__file__))))
            bad = mc_judge(p.stdout, p.returncode == 0, None, n_loci, fail, c08_real.HEADER, c08_real.line_of)
        except subprocess.TimeoutExpired:
            bad = [("hang", "the real program did not finish within 300 s")]
        if kinds is not None:
            kinds.extend(k for k, _ in bad)
        if bad:
            return True, "real multiprocessing run (n_loci=%d, cores=%d, failing locus=%s): %s" % (n_loci, n_cores, fail if fail >= 0 else None, "; ".join(d for _, d in bad)[:300])
        verdicts.append("ok")
    return False, "real multiprocessing runs behaved (3 attempts)"

# ------------------------------------------------------------------ replay: real classes, real generators


def replay(v):
    """determinism on the real code: two fits with the same seed after different RNG histories must agree"""
    import numpy as _np
    from mchap.jitutils import seed_numba

    g = v["config"]["group"]
    if g == "multicore":
        return _replay_multicore(v)
    if g == "state-leak":
        from checks import wiring

        return wiring.replay_real(v, _run_state_leak)
    if g == "hash-order":
        return _replay_hash_order(v)
    if g == "refit":
        from checks import wiring

        return wiring.replay_real(v, wiring.run_refit)
    if g == "cli-attrs":
        from checks import wiring

        return wiring.replay_real(v, wiring.run_cli_attrs)
    if g == "history":
        return _replay_history(v)
    if g == "rng-sources":
        g = "assemble"
    rs = v["config"].get("seed", 11)
    reads = _np.array([[[0.9, 0.1], [0.2, 0.8]], [[0.1, 0.9], [0.7, 0.3]], [[0.6, 0.4], [0.5, 0.5]]])
    outs = []
    for hist in (1, 2):
        _np.random.seed(hist)
        seed_numba(hist * 7)
        _np.random.rand(hist * 3)
        if g in ("assemble",):
            from mchap.assemble.mcmc import DenovoMCMC

            t = DenovoMCMC(ploidy=2, n_alleles=[2, 2], steps=60, chains=2, random_seed=rs, fix_homozygous=2.0, temperatures=(0.2, 0.6, 1.0)).fit(reads)
            outs.append(t.genotypes.copy())
        elif g in ("call", "app-call"):
            from mchap.calling.classes import CallingMCMC

            haps = _np.array([[0, 0], [0, 1], [1, 0], [1, 1]], dtype=_np.int8)
            t = CallingMCMC(ploidy=2, haplotypes=haps, steps=30, chains=2, random_seed=rs).fit(reads, read_counts=_np.ones(3, dtype=int))
            outs.append(t.genotypes.copy())
        else:
            from mchap.pedigree.classes import PedigreeCallingMCMC

            haps = _np.array([[0, 0], [0, 1], [1, 0], [1, 1]], dtype=_np.int8)
            obj = PedigreeCallingMCMC(sample_ploidy=_np.array([2, 2]), sample_inbreeding=_np.zeros(2), sample_parents=_np.full((2, 2), -1), gamete_tau=_np.ones((2, 2), dtype=int),
                                      gamete_lambda=_np.zeros((2, 2)), gamete_error=_np.full((2, 2), 0.01), haplotypes=haps, steps=30, annealing=5, chains=2, random_seed=rs)
            t = obj.fit(_np.stack([reads, reads]), _np.ones((2, 3), dtype=int))
            outs.append(t.genotypes.copy())
    same = bool((outs[0] == outs[1]).all())
    return not same, "two real fits with seed %r after different RNG histories %s" % (rs, "agree" if same else "DIFFER")


def validate(seed):
    """the real fit() entry points are deterministic for a fixed seed regardless of RNG history (3 entry points)"""
    n = 0
    for g in ("assemble", "call", "pedigree"):
        bad, info = replay(dict(config=dict(group=g, seed=11)))
        assert not bad, info
        n += 1
    # the scheduling model's verdicts agree with real multiprocessing on the unchanged driver: no failing locus / a failing one
    # (whatever the real run shows, some schedule of the model must show too -- on a changed tree both may fail)
    from nbsym import runner

    for fail in (-1, 1):
        kinds = []
        _replay_multicore(dict(witness=dict(n_loci=3, n_cores=2, fail=fail, order=["L2", "L0", "L1"])), attempts=1, kinds=kinds)
        col = runner.Collector(dict(group="multicore", n_loci=3, n_cores=2))
        col.stats = E.Stats()
        run_config(col.cfg, col)
        model_kinds = {v["kind"] for v in col.violations if (v.get("witness") or {}).get("fail") == fail}
        kinds = [k for k in kinds if k != "hang"]  # a slow machine is not evidence about the model
        assert set(kinds) <= model_kinds, "real multiprocessing shows %s but no schedule of the model does (model: %s)" % (kinds, sorted(model_kinds))
        n += 1
    return n
