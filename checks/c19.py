"""C19 -- find-snvs depths equal the filtered pileup; thresholds applied as documented."""
import io
import itertools
import os

import numpy as rnp
import z3

from nbsym import engine as E

ID = "C19"
TITLE = "find-snvs allele depths == base calls of the reads passing the CONFIGURED read filters (--mapping-quality, keep-duplicate/qcfail/supplementary); alleles listed iff they meet the individual and population thresholds; >= 2 alleles; REF first / REFMASKED; ALT by decreasing mean sample frequency"
TECHNIQUE = 'symbolic execution of bam_region_depths against a pysam.pileup contract stub (expected depth as a z3 term over all read variables); thresholds by solver-enumerated depths against an oracle; witnesses replayed on real BAM files'
ENCODED = ["mchap.application.find_snvs.main", "mchap.application.find_snvs.write_vcf_block (argument plumbing down to bam_region_depths)", "mchap.application.find_snvs.bam_region_depths", "mchap.application.find_snvs.bases_to_indices", "mchap.application.find_snvs._count_alleles",
           "mchap.application.find_snvs.write_vcf_block", "mchap.application.find_snvs._vcf_sort_alleles", "mchap.application.find_snvs._order_as_vcf_alleles",
           "mchap.application.find_snvs.format_samples_columns"]
STUBS = ["pysam.AlignmentFile.pileup(**kwargs) -> contract stub: honours exactly the keyword names pysam documents (min_mapping_quality, flag_filter, flag_require, ignore_orphans, min_base_quality, stepper, truncate, ...) with pysam's defaults (stepper='samtools': flag_filter = UNMAP|SECONDARY|QCFAIL|DUP, min_base_quality 13, ignore_orphans) and silently ignores any other keyword, as pysam's IteratorColumn does",
         "pysam.FastaFile.fetch -> the reference string; numba.vectorize / guvectorize -> numpy.vectorize of the same Python kernels"]
ASSUMES = ["depth obligation: reads are symbolic (flags, MAPQ, base); the expected depth is a z3 term over all read variables and the four filter options",
           "threshold obligations: write_vcf_block is numpy/pandas string code (C boundary): depths and thresholds are solver-enumerated over a finite grid and the emitted lines compared with an independent oracle"]
BOUNDS = {"quick": "depths: 2 reads x 1 position x 1 sample, all flag/MAPQ/base combinations, 6 option settings (each keep flag toggled alone at least once); thresholds: 1 site x 2 samples x counts in {0,1,3} for A,C,G, 8 threshold settings, plus counts in {0,10,100} and {9,99,1000} for 2 settings (rendering width); FORMAT AD, INFO AD and ADMF text compared; command line: 96 settings (3 keep flags x 4 mapping qualities incl. 0 x thresholds left out / distinctive / all zero) on the repository's 3 test BAMs and 4-interval bed, arguments bound through write_vcf_block's and bam_region_depths' own signatures",
          "thorough": "depths: 3 reads; thresholds: 32 threshold settings, counts in {0,1,2,4}"}
OUTSIDE = "htslib's pileup engine (overlap detection, base-quality and orphan handling are only modelled as documented defaults); depths above 1000"
TASKS_PER_CHILD = 2
BAM_FUNMAP, BAM_FSECONDARY, BAM_FQCFAIL, BAM_FDUP, BAM_FSUPPLEMENTARY = 4, 256, 512, 1024, 2048
PYSAM_PILEUP_KW = {"truncate", "max_depth", "stepper", "fastafile", "ignore_overlaps", "flag_filter", "flag_require", "ignore_orphans", "min_base_quality",
                   "adjust_capq_threshold", "min_mapping_quality", "compute_baq", "redo_baq", "multiple_iterators"}


def configs(tier):
    out = []
    for opts in ([(0, True, True, True), (1, True, True, True), (1, False, False, False), (2, True, False, True), (0, True, True, False), (0, False, True, True)] if tier == "quick"
                 else [(q, a, b, c_) for q in (0, 1, 2) for a in (True, False) for b in (True, False) for c_ in (True, False)]):
        out.append(dict(group="depth", k=2 if tier == "quick" else 3, opts=list(opts)))
    grid = [dict(ind_maf=a, ind_mad=b, min_ind=c_, maf=d, mad=e) for a in (0.0, 0.3) for b in (0, 2) for c_ in (1, 2) for d in (0.0, 0.3) for e in (0, 3)]
    if tier == "quick":
        grid = grid[::4]
    for th in grid:
        out.append(dict(group="thresholds", th=th, counts=[0, 1, 3] if tier == "quick" else [0, 1, 2, 4]))
    # depths whose decimal rendering changes width (9 / 10 / 100 / 1000): the AD text must still be the counts
    for th in (grid[0], grid[-1]):
        out.append(dict(group="thresholds", th=th, counts=[0, 10, 100]))
        out.append(dict(group="thresholds", th=th, counts=[9, 99, 1000]))
    # the command line -> write_vcf_block: every read filter and threshold option reaches the parameter of that name
    out.append(dict(group="cli"))
    return out


def weight(c):
    return 3 if c["group"] == "thresholds" else 1


def run_config(c, col):
    E.use_summaries(True)
    E.reset_modules()
    E.cfg.concrete_ints = True
    E.cfg.concrete_floats = True
    import warnings

    warnings.simplefilter("ignore")
    prof = E.Profile()
    with prof:
        dict(depth=_run_depth, thresholds=_run_thresholds, cli=_run_cli)[c["group"]](c, col)
    col.functions |= set(prof.names())
    E.cfg.concrete_floats = False


# ------------------------------------------------------------------ command line -> block writer

CLI_TH = {"maf": ("--maf", "0.11"), "mad": ("--mad", "3"), "ind_maf": ("--ind-maf", "0.07"), "ind_mad": ("--ind-mad", "5"), "min_ind": ("--min-ind", "2")}
CLI_MQ = [None, 0, 7, 33]


def _cli_drive(fs, choice):
    """find_snvs.main on the repository's own test BAMs with the block writer replaced by a recorder bound through the REAL
    write_vcf_block signature (defaults applied); the option settings are drawn through `choice` (solver / witness).
    Returns (expected parameter values, recorded calls, bed rows)."""
    import contextlib
    import inspect
    import os

    data = os.path.join(E.repo_root(), "mchap", "tests", "test_io", "data")
    keep = {k: int(choice("keep_" + k, 0, 1)) for k in ("duplicate", "qcfail", "supplementary")}
    mq = CLI_MQ[int(choice("mq", 0, len(CLI_MQ) - 1))]
    explicit = int(choice("explicit_thresholds", 0, 2))  # 0: left out, 1: distinctive values, 2: zeros (legal boundary values)
    cmd = ["mchap", "find-snvs", "--targets", os.path.join(data, "simple.bed"), "--reference", os.path.join(data, "simple.fasta"),
           "--bam"] + [os.path.join(data, "simple.sample%d.bam" % i) for i in (1, 2, 3)]
    want = {}
    for k, (flag, val) in CLI_TH.items():
        if explicit:
            val = val if explicit == 1 else "0"
            cmd += [flag, val]
            want[k] = float(val)
    if mq is not None:
        cmd += ["--mapping-quality", str(mq)]
    want["mapping_quality"] = 20 if mq is None else mq  # documented default
    for k in keep:
        if keep[k]:
            cmd.append("--keep-%s-reads" % k)
    want.update(skip_duplicates=not keep["duplicate"], skip_qcfail=not keep["qcfail"], skip_supplementary=not keep["supplementary"])
    store = fs.__dict__.setdefault("__c19_orig__", {})
    for n in ("write_vcf_block", "write_vcf_header", "bam_region_depths"):
        store.setdefault(n, getattr(fs, n))
    sig = inspect.signature(store["write_vcf_block"])
    sig_d = inspect.signature(getattr(store["bam_region_depths"], "py_func", store["bam_region_depths"]))
    calls, dcalls = [], []

    def rec(*a, **k):
        b = sig.bind(*a, **k)
        b.apply_defaults()
        calls.append(dict(b.arguments))
        return store["write_vcf_block"](*a, **k)  # the real block writer, down to the pileup

    def rec_depths(*a, **k):
        b = sig_d.bind(*a, **k)
        b.apply_defaults()
        d = dict(b.arguments)
        dcalls.append(d)
        return rnp.zeros((int(d["stop"]) - int(d["start"]), len(d["bam_paths"]), 4), dtype=rnp.int64)

    fs.write_vcf_block, fs.write_vcf_header, fs.bam_region_depths = rec, (lambda *a, **k: None), rec_depths
    try:
        with contextlib.redirect_stdout(io.StringIO()):
            fs.main(cmd)
    finally:
        fs.write_vcf_block, fs.write_vcf_header, fs.bam_region_depths = store["write_vcf_block"], store["write_vcf_header"], store["bam_region_depths"]
    want["__depth_calls__"] = dcalls
    rows = [ln.split("\t")[:3] for ln in open(os.path.join(data, "simple.bed")).read().splitlines() if ln.strip()]
    return want, calls, rows, cmd


def _cli_problems(want, calls, rows):
    bad = []
    want = dict(want)
    dcalls = want.pop("__depth_calls__", None)
    if dcalls is not None:
        # write_vcf_block -> bam_region_depths: the pileup of every interval is taken with the command line's read filters
        if len(dcalls) != len(rows):
            bad.append("%d pileups taken for %d target intervals" % (len(dcalls), len(rows)))
        for d, row in zip(dcalls, rows):
            if (str(d["contig"]), int(d["start"]), int(d["stop"])) != (row[0], int(row[1]), int(row[2])):
                bad.append("pileup of interval %s taken over %s:%s-%s" % (row, d["contig"], d["start"], d["stop"]))
            for k_d, k_w in (("min_quality", "mapping_quality"), ("skip_duplicates", "skip_duplicates"), ("skip_qcfail", "skip_qcfail"), ("skip_supplementary", "skip_supplementary")):
                g, w_ = d[k_d], want[k_w]
                same = (isinstance(g, (bool, rnp.bool_)) and bool(g) == w_) if isinstance(w_, bool) else (not isinstance(g, bool) and g == w_)
                if not same:
                    bad.append("bam_region_depths gets %s=%r, the command line says %s=%r" % (k_d, g, k_w, w_))
            if d.get("kwargs"):
                bad.append("bam_region_depths is handed keywords it does not define: %s" % sorted(d["kwargs"]))
    if len(calls) != len(rows):
        bad.append("%d blocks written for %d target intervals" % (len(calls), len(rows)))
    for call, row in zip(calls, rows):
        got_iv = (str(call["contig"]), int(call["start"]), int(call["stop"]))
        if got_iv != (row[0], int(row[1]), int(row[2])):
            bad.append("interval %s written as %s" % (row, got_iv))
        for k, v in want.items():
            g = call[k]
            same = (bool(g) == v and isinstance(g, (bool, rnp.bool_))) if isinstance(v, bool) else (abs(float(g) - float(v)) < 1e-12)
            if not same:
                bad.append("%s=%r reaches write_vcf_block, the command line says %r" % (k, g, v))
    return sorted(set(bad))


def _run_cli(c, col):
    fs = E.load("mchap.application.find_snvs")
    site = "mchap.application.find_snvs.main"

    def body(ctx):
        return _cli_drive(fs, lambda name, lo, hi: int(E.SymInt(E.fresh_int(ctx, name, lo, hi))))

    first = True
    for pr in E.explore(body, stats=col.stats):
        if pr.exc is not None:
            col.fail(site, "exception", witness=dict(exc=repr(pr.exc)), desc="find-snvs main raised %r" % (pr.exc,))
            continue
        col.path()
        if first:
            col.reachable(pr.ctx)
            first = False
        want, calls, rows, cmd = pr.value
        bad = _cli_problems(want, calls, rows)
        if bad:
            col.fail(site, "cli-option-wiring", witness=dict(command=cmd[2:3] + [x for x in cmd if x.startswith("--") or x.replace(".", "").isdigit()], problems=bad), desc="; ".join(bad)[:300])
        else:
            col.ok("every option of the command line reaches the block writer's parameter of the same meaning (settings solver-enumerated)")


# ------------------------------------------------------------------ depths


class _Col:
    def __init__(self, pos, seqs):
        self.pos = pos
        self._s = seqs

    def get_query_sequences(self):
        return list(self._s)


def _read_vars(i):
    n = "r%d_" % i
    return dict(unmapped=z3.Bool(n + "unmapped"), secondary=z3.Bool(n + "secondary"), dup=z3.Bool(n + "dup"), qcfail=z3.Bool(n + "qcfail"), supp=z3.Bool(n + "supp"),
                mapq=z3.Int(n + "mapq"), base=z3.Int(n + "base"))


class _StubBam:
    """pileup contract of pysam for one position"""

    def __init__(self, ctx, k):
        self.ctx, self.k = ctx, k
        self.kwargs_seen = None

    def __enter__(self):
        return self

    def __exit__(self, *a):
        return False

    def pileup(self, contig=None, start=None, stop=None, **kwargs):
        self.kwargs_seen = dict(kwargs)
        kw = {k_: v for k_, v in kwargs.items() if k_ in PYSAM_PILEUP_KW}  # unknown keywords are ignored by pysam
        stepper = kw.get("stepper", "samtools")
        flag_filter = kw.get("flag_filter", BAM_FUNMAP | BAM_FSECONDARY | BAM_FQCFAIL | BAM_FDUP) if stepper != "nofilter" else kw.get("flag_filter", 0)
        flag_filter = int(flag_filter) | BAM_FUNMAP  # unmapped reads never reach a pileup column
        minmq = kw.get("min_mapping_quality", 0)
        seqs = []
        for i in range(self.k):
            v = _read_vars(i)
            flags = [(BAM_FUNMAP, v["unmapped"]), (BAM_FSECONDARY, v["secondary"]), (BAM_FQCFAIL, v["qcfail"]), (BAM_FDUP, v["dup"]), (BAM_FSUPPLEMENTARY, v["supp"])]
            skip = False
            for bit, var in flags:
                if flag_filter & bit and bool(E.SymBool(var)):
                    skip = True
                    break
            if skip:
                continue
            if bool(E.SymInt(v["mapq"]) * 10 < minmq):
                continue
            seqs.append("AC"[int(E.SymInt(v["base"]))])
        yield _Col(start, seqs)


def _run_depth(c, col):
    fs = E.load("mchap.application.find_snvs")
    site = "mchap.application.find_snvs.bam_region_depths"
    k = c["k"]
    q, sd, sq, ss = c["opts"]

    def body(ctx):
        for i in range(k):
            v = _read_vars(i)
            ctx.assume(z3.And(v["mapq"] >= 0, v["mapq"] <= 2, v["base"] >= 0, v["base"] <= 1))
        stub = _StubBam(ctx, k)

        class FakePysam:
            @staticmethod
            def AlignmentFile(path, reference_filename=None):
                return stub

        fs.pysam = FakePysam
        # exactly the keywords write_vcf_block forwards
        d = fs.bam_region_depths(["x.bam"], "ref.fa", "chr1", 100, 101, dtype=rnp.int64, min_quality=q * 10, skip_duplicates=sd, skip_qcfail=sq, skip_supplementary=ss)
        return d, stub.kwargs_seen

    first = True
    for pr in E.explore(body, stats=col.stats):
        if pr.exc is not None:
            col.fail(site, "exception", witness=dict(exc=repr(pr.exc)), desc="raised %r" % (pr.exc,))
            continue
        col.path()
        ctx = pr.ctx
        if first:
            col.reachable(ctx)
            first = False
        d, seen = pr.value
        # expected: reads passing the CONFIGURED filters (the documented meaning of the options), per base
        exp = [z3.IntVal(0), z3.IntVal(0)]
        for i in range(k):
            v = _read_vars(i)
            ok = z3.And(z3.Not(v["unmapped"]), z3.Not(v["secondary"]), v["mapq"] * 10 >= q * 10, z3.Not(z3.And(v["dup"], z3.BoolVal(sd))), z3.Not(z3.And(v["qcfail"], z3.BoolVal(sq))),
                        z3.Not(z3.And(v["supp"], z3.BoolVal(ss))))
            for b in range(2):
                exp[b] = exp[b] + z3.If(z3.And(ok, v["base"] == b), 1, 0)
        got = [int(d[0, 0, 0]), int(d[0, 0, 1])]
        ignored = sorted(set(seen) - PYSAM_PILEUP_KW)
        col.check(ctx, z3.And(exp[0] == got[0], exp[1] == got[1]), site, "depth-vs-configured-filters",
                  shape=dict(ignored_keywords=bool(ignored)), witness=dict(depth=got, opts=c["opts"], keywords_ignored_by_pysam=ignored),
                  desc="depth[pos, sample, base] == number of reads with that base passing --mapping-quality %d, skip dup/qcfail/supp = %s/%s/%s" % (q * 10, sd, sq, ss))


# ------------------------------------------------------------------ thresholds


def _oracle_block(depth, ref_idx, th):
    """expected (REF, ALT list, REFMASKED, AD per sample of listed alleles) for one site, or None when not emitted"""
    n_s = depth.shape[0]
    tot = depth.sum(axis=1, keepdims=True).astype(float)
    with rnp.errstate(all="ignore"):
        freq = depth / tot
    keep = []
    for a in range(4):
        ind = sum(1 for s in range(n_s) if (freq[s, a] >= th["ind_maf"]) and depth[s, a] >= th["ind_mad"])
        ok = ind >= th["min_ind"]
        if th["maf"] > 0:
            m = rnp.mean(freq[:, a])
            ok = ok and bool(m >= th["maf"])  # nan >= x is False
        if th["mad"] > 0:
            ok = ok and depth[:, a].sum() >= th["mad"]
        keep.append(bool(ok))
    if sum(keep) < 2:
        return None
    fz = rnp.where(rnp.array(keep)[None, :], freq, 0.0)
    with rnp.errstate(all="ignore"):
        import warnings
        with warnings.catch_warnings():
            warnings.simplefilter("ignore")
            mean = rnp.nanmean(fz, axis=0)
    alts = [a for a in range(4) if keep[a] and a != ref_idx]
    return dict(ref="ACGT"[ref_idx], masked=not keep[ref_idx], alts=alts, mean=mean, keep=keep)


def _run_thresholds(c, col):
    fs = E.load("mchap.application.find_snvs")
    site = "mchap.application.find_snvs.write_vcf_block"
    th = c["th"]
    cs = c["counts"]

    def body(ctx):
        picks = [[cs[int(E.SymInt(E.fresh_int(ctx, "d%d_%d" % (s, a), 0, len(cs) - 1)))] for a in range(3)] + [0] for s in range(2)]
        depth = rnp.array(picks, dtype=rnp.int64)

        class FakeFasta:
            def __init__(self, path):
                pass

            def __enter__(self):
                return self

            def __exit__(self, *a):
                return False

            def fetch(self, contig, start, stop):
                return "a"

        class FakePysam:
            FastaFile = FakeFasta

        fs.pysam = FakePysam
        fs.bam_region_depths = lambda *a, **k: depth[None, :, :].copy()
        buf = io.StringIO()
        import sys as _sys

        old = _sys.stdout
        _sys.stdout = buf
        try:
            fs.write_vcf_block("chr1", 100, 101, "ref.fa", ["a.bam", "b.bam"], maf=th["maf"], mad=th["mad"], ind_maf=th["ind_maf"], ind_mad=th["ind_mad"], min_ind=th["min_ind"],
                               mapping_quality=20, skip_duplicates=True, skip_qcfail=True, skip_supplementary=True)
        finally:
            _sys.stdout = old
        return depth, buf.getvalue()

    first = True
    for pr in E.explore(body, stats=col.stats):
        if pr.exc is not None:
            col.fail(site, "exception", witness=dict(exc=repr(pr.exc), th=th, model=E.model_dict(E.prove(pr.ctx, False).model)), desc="write_vcf_block raised %r" % (pr.exc,))
            continue
        col.path()
        if first:
            col.reachable(pr.ctx)
            first = False
        depth, text = pr.value
        problems = _compare_block(depth, text, th)
        if problems:
            col.fail(site, problems[0][0], witness=dict(depth=depth.tolist(), th=th, line=text.strip(), problems=[p[1] for p in problems]), desc=problems[0][1])
        else:
            col.ok("emitted line == oracle (listed alleles, >=2 rule, REF first, REFMASKED, ALT order, AD) for solver-enumerated depths")


def _compare_block(depth, text, th):
    want = _oracle_block(depth, 0, th)
    lines = [l for l in text.strip().split("\n") if l]
    problems = []
    if want is None:
        if lines:
            problems.append(("spurious-line", "a position with fewer than two alleles meeting the thresholds was emitted: %s" % lines[0]))
        return problems
    if len(lines) != 1:
        problems.append(("missing-line", "expected one line, got %d" % len(lines)))
        return problems
    f = lines[0].split("\t")
    pos, ref, alt, info = f[1], f[3], f[4], f[7]
    alts = [] if alt in ("", ".") else alt.split(",")
    if pos != "101" or ref != want["ref"]:
        problems.append(("pos-ref", "POS/REF %s/%s" % (pos, ref)))
    if sorted(alts) != sorted("ACGT"[a] for a in want["alts"]):
        problems.append(("listed-alleles", "ALT %s, expected the alleles %s" % (alt, ["ACGT"[a] for a in want["alts"]])))
    else:
        means = [want["mean"]["ACGT".index(a)] for a in alts]
        if any(means[i] < means[i + 1] - 1e-12 for i in range(len(means) - 1)):
            problems.append(("alt-order", "ALT %s not in decreasing mean sample frequency %s" % (alt, means)))
    if ("REFMASKED" in info.split(";")) != want["masked"]:
        problems.append(("refmasked", "REFMASKED flag %s expected %s" % ("REFMASKED" in info, want["masked"])))
    # sample AD: depths of REF then the listed ALT alleles
    if not problems:
        order = [0] + ["ACGT".index(a) for a in alts]
        for s in range(depth.shape[0]):
            ad = f[9 + s].split(":")[-1]
            wantad = ",".join(str(int(depth[s, a])) for a in order)
            if ad != wantad:
                problems.append(("sample-ad", "sample %d AD %s expected %s" % (s, ad, wantad)))
        iv = dict(item.partition("=")[::2] for item in info.split(";"))
        wantpop = ",".join(str(int(depth[:, a].sum())) for a in order)
        if iv.get("AD") != wantpop:
            problems.append(("info-ad", "INFO AD=%s expected the summed sample depths %s" % (iv.get("AD"), wantpop)))
        if "ADMF" in iv:
            got = [float(x) for x in iv["ADMF"].split(",")]
            wantf = [float(want["mean"][a]) for a in order]
            if len(got) != len(wantf) or any(abs(g_ - w_) > 5.1e-4 for g_, w_ in zip(got, wantf)):
                problems.append(("info-admf", "INFO ADMF=%s expected mean sample frequencies %s" % (iv["ADMF"], [round(w_, 4) for w_ in wantf])))
    return problems


# ------------------------------------------------------------------ replay


def _flag(m, i):
    g = lambda n: bool(m.get("r%d_%s" % (i, n), False))
    return (BAM_FUNMAP if g("unmapped") else 0) | (BAM_FSECONDARY if g("secondary") else 0) | (BAM_FQCFAIL if g("qcfail") else 0) | (BAM_FDUP if g("dup") else 0) | (BAM_FSUPPLEMENTARY if g("supp") else 0)


def replay(v):
    import os
    import shutil
    import tempfile
    import warnings

    c = v["config"]
    m = v.get("model") or (v.get("witness") or {}).get("model") or {}
    warnings.simplefilter("ignore")
    if c["group"] == "cli":
        import importlib

        fs = importlib.import_module("mchap.application.find_snvs")
        want, calls, rows, cmd = _cli_drive(fs, lambda name, lo, hi: int(m.get(name, lo)))
        bad = _cli_problems(want, calls, rows)
        return bool(bad), "real module, %s: %s" % (" ".join(x for x in cmd[2:] if not x.startswith("/")), "; ".join(bad) or "all options arrive")
    if c["group"] == "depth":
        import pysam
        from mchap.application.find_snvs import bam_region_depths

        k = c["k"]
        q, sd, sq, ss = c["opts"]
        tmp = tempfile.mkdtemp(prefix="mchap-c19-")
        try:
            sam = os.path.join(tmp, "x.sam")
            lines = ["@HD\tVN:1.6\tSO:coordinate", "@SQ\tSN:chr1\tLN:1000", "@RG\tID:rg0\tSM:A"]
            for i in range(k):
                base = "AC"[int(m.get("r%d_base" % i, 0))]
                lines.append("\t".join(["q%d" % i, str(_flag(m, i)), "chr1", "100", str(int(m.get("r%d_mapq" % i, 0)) * 10), "3M", "*", "0", "0", "T" + base + "T", "III", "RG:Z:rg0"]))
            open(sam, "w").write("\n".join(lines) + "\n")
            bam = os.path.join(tmp, "x.bam")
            pysam.sort("-o", bam, sam)
            pysam.index(bam)
            fa = os.path.join(tmp, "ref.fa")
            open(fa, "w").write(">chr1\n" + "T" * 1000 + "\n")
            pysam.faidx(fa)
            d = bam_region_depths([bam], fa, "chr1", 100, 101, dtype=rnp.int64, min_quality=q * 10, skip_duplicates=sd, skip_qcfail=sq, skip_supplementary=ss)
        finally:
            shutil.rmtree(tmp, ignore_errors=True)
        want = [0, 0]
        for i in range(k):
            g = lambda n: bool(m.get("r%d_%s" % (i, n), False))
            ok = (not g("unmapped")) and (not g("secondary")) and int(m.get("r%d_mapq" % i, 0)) * 10 >= q * 10 and not (g("dup") and sd) and not (g("qcfail") and sq) and not (g("supp") and ss)
            if ok:
                want[int(m.get("r%d_base" % i, 0))] += 1
        got = [int(d[0, 0, 0]), int(d[0, 0, 1])]
        return got != want, "real BAM: depth(A,C)=%s but %s reads pass --mapping-quality %d / skip dup,qcfail,supp=%s,%s,%s (flags %s, MAPQ %s)" % (
            got, want, q * 10, sd, sq, ss, [_flag(m, i) for i in range(k)], [int(m.get("r%d_mapq" % i, 0)) * 10 for i in range(k)])
    # thresholds: rerun the real write_vcf_block with the depth matrix injected
    import sys as _sys
    from mchap.application import find_snvs as rfs

    w = v["witness"]
    depth = rnp.array(w["depth"], dtype=rnp.int64)
    th = c["th"]
    saved = (rfs.bam_region_depths, rfs.pysam)

    class FakeFasta:
        def __init__(self, path):
            pass

        def __enter__(self):
            return self

        def __exit__(self, *a):
            return False

        def fetch(self, contig, start, stop):
            return "a"

    rfs.bam_region_depths = lambda *a, **k: depth[None, :, :].copy()
    rfs.pysam = type("P", (), {"FastaFile": FakeFasta})
    buf = io.StringIO()
    old = _sys.stdout
    _sys.stdout = buf
    try:
        rfs.write_vcf_block("chr1", 100, 101, "ref.fa", ["a.bam", "b.bam"], maf=th["maf"], mad=th["mad"], ind_maf=th["ind_maf"], ind_mad=th["ind_mad"], min_ind=th["min_ind"],
                            mapping_quality=20, skip_duplicates=True, skip_qcfail=True, skip_supplementary=True)
    except Exception as e:
        _sys.stdout = old
        return v["kind"] == "exception", "real write_vcf_block raised %r" % (e,)
    finally:
        _sys.stdout = old
        rfs.bam_region_depths, rfs.pysam = saved
    problems = _compare_block(depth, buf.getvalue(), th)
    return bool(problems), "depths %s thresholds %s -> %r : %s" % (depth.tolist(), th, buf.getvalue().strip(), [p[1] for p in problems])


def validate(seed):
    """the pileup contract stub against REAL pysam.AlignmentFile.pileup: same reads, same keyword arguments (including
    keywords pysam does not know), same bases in the column"""
    import os
    import random
    import shutil
    import tempfile
    import pysam

    rnd = random.Random(seed)
    n = 0
    for _ in range(6):
        k = 3
        m = {}
        for i in range(k):
            m.update({"r%d_unmapped" % i: False, "r%d_secondary" % i: rnd.random() < 0.2, "r%d_dup" % i: rnd.random() < 0.4, "r%d_qcfail" % i: rnd.random() < 0.4,
                      "r%d_supp" % i: rnd.random() < 0.4, "r%d_mapq" % i: rnd.randint(0, 2), "r%d_base" % i: rnd.randint(0, 1)})
        kw = rnd.choice([{}, {"min_mapping_quality": 10}, {"flag_filter": BAM_FUNMAP | BAM_FSECONDARY | BAM_FSUPPLEMENTARY}, {"min_quality": 20, "skip_duplicates": True},
                         {"min_mapping_quality": 20, "flag_filter": BAM_FUNMAP | BAM_FSECONDARY | BAM_FDUP, "skip_qcfail": True}])
        tmp = tempfile.mkdtemp(prefix="mchap-c19v-")
        try:
            sam = os.path.join(tmp, "x.sam")
            lines = ["@HD\tVN:1.6\tSO:coordinate", "@SQ\tSN:chr1\tLN:1000", "@RG\tID:rg0\tSM:A"]
            for i in range(k):
                lines.append("\t".join(["q%d" % i, str(_flag(m, i)), "chr1", "100", str(int(m["r%d_mapq" % i]) * 10), "3M", "*", "0", "0", "T" + "AC"[m["r%d_base" % i]] + "T", "III", "RG:Z:rg0"]))
            open(sam, "w").write("\n".join(lines) + "\n")
            bam = os.path.join(tmp, "x.bam")
            pysam.sort("-o", bam, sam)
            pysam.index(bam)
            real = []
            with pysam.AlignmentFile(bam) as f:
                for col_ in f.pileup(contig="chr1", start=100, stop=101, truncate=True, multiple_iterators=False, **kw):
                    real = sorted(x.upper() for x in col_.get_query_sequences())
        finally:
            shutil.rmtree(tmp, ignore_errors=True)

        def body(ctx):
            for i in range(k):
                v = _read_vars(i)
                for name, var in v.items():
                    val = m["r%d_%s" % (i, name)]
                    ctx.assume(var == (z3.BoolVal(val) if isinstance(val, bool) else val))
            stub = _StubBam(ctx, k)
            out = []
            for col_ in stub.pileup(contig="chr1", start=100, stop=101, truncate=True, multiple_iterators=False, **kw):
                out = sorted(col_.get_query_sequences())
            return out

        got = [p.value for p in E.explore(body) if p.exc is None]
        assert len(got) == 1 and got[0] == real, (m, kw, got, real)
        n += 1
    return n
