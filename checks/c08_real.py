"""Replay driver for the C08 multi-core group: the REAL mchap.application.baseclass.program with real multiprocessing.

    python -m checks.c08_real <n_loci> <n_cores> <fail index or -1> <comma separated locus order>

Every locus line is long (so that torn writes of concurrent writers become visible) and a locus is delayed according to its
rank in the witness order, which steers the OS scheduler towards the solver's interleaving.  Prints the records on stdout;
the exit status is the program's.
"""
import sys
import time

from mchap.application.baseclass import program
from mchap.io.loci import Locus

PAD = "x" * 70000


def line_of(name):
    return "LINE-%s-%s" % (name, PAD)


HEADER = ["##fileformat=VCFv4.3", "#CHROM\tPOS"]


class P(program):
    fail = -1
    delays = {}
    n_loci = 0

    def loci(self):
        return iter([Locus(contig="c", start=i, stop=i + 1, name="L%d" % i, sequence="A", variants=()) for i in range(self.n_loci)])

    def header(self):
        return list(HEADER)

    def call_locus(self, locus, sample_bams):
        time.sleep(self.delays.get(locus.name, 0.0))
        if locus.name == "L%d" % self.fail:
            raise ValueError("locus %s cannot be assembled" % locus.name)
        return line_of(locus.name)


def main(argv):
    n_loci, n_cores, fail = int(argv[0]), int(argv[1]), int(argv[2])
    order = [x for x in argv[3].split(",") if x] if len(argv) > 3 else []
    P.n_loci, P.fail = n_loci, fail
    P.delays = {name: 0.25 * k for k, name in enumerate(order)}
    prog = P(vcf=None, ref=None, samples=[], sample_bams={}, sample_ploidy={}, sample_inbreeding={}, n_cores=n_cores)
    prog.run_stdout()


if __name__ == "__main__":
    main(sys.argv[1:])
