"""C07 -- output VCF records are well-formed and internally consistent (partly applicable)."""
import itertools
import math

import numpy as rnp
import z3

from nbsym import engine as E

ID = "C07"
TITLE = "record summary fields (AC/AN/UAN/NS/DP/RCOUNT/ACP/AFP/AOP) equal the values recomputed from the sample columns; every INFO/FORMAT value has its declared cardinality (1/A/R/G) for the record's allele count and the sample's ploidy; GT well-formed; ALT has REF's length and differs only at SNVPOS"
TECHNIQUE = 'symbolic identities of the record summary discharged by z3; formatted lines of solver-enumerated records re-parsed by an independent parser'
ENCODED = ["mchap.application.baseclass.program.sumarise_vcf_record", "mchap.application.baseclass.LocusAssemblyData.format_vcf_record",
           "mchap.io.vcf.records.format_info_field", "mchap.io.vcf.records.format_sample_field", "mchap.io.vcf.records.format_record", "mchap.io.vcf.util.vcfstr",
           "mchap.application.assemble.program.call_sample_genotypes", "mchap.application.call.program.call_sample_genotypes",
           "mchap.application.arguments.parse_report_fields", "mchap.io.loci.Locus.format_haplotypes"]
STUBS = ["samplers replaced as in C13 (assemble) and C16 (call): posterior / trace chosen by the solver from a finite grid", "stub locus with real Locus.format_haplotypes"]
ASSUMES = ["summary group: GT entries of two samples are symbolic integers (solver-concretised at the array index), per-sample ACP/AOP/DP/RCOUNT symbolic reals/ints; identities discharged by z3",
           "line group: the formatted text is produced by numpy/str code (C boundary); the record space is solver-enumerated and every line is re-parsed by an independent parser"]
BOUNDS = {"quick": "call-exact lines (real exact code, 2 samples of ploidy 2 and 3, reads from a 4-row grid, every zero-prior / mask pattern, 4 --report sets) and call-pedigree lines (3 samples, trace chosen by the solver, PEDERR); vcfstr: k/1000 and k for k in [-1200,1200]; summary: 3 samples (ploidy 2,3,4; the tetraploid fixed), <= 2 ALT; lines: assemble scenarios of C13 (4) x 3 thresholds x dominant-genotype choices x 4 --report sets; call records with 2-3 alleles and every zero-prior/mask pattern",
          "thorough": "summary with 3 ALT; all 8 assemble scenarios; vcfstr in steps of 200"}
OUTSIDE = "decimal rendering is covered by realisation only: vcfstr on every 3-decimal value of [-1.2, 1.2] and x1000 (alone, in arrays, next to nan, float32, lists) and the numeric read-back of every value of the enumerated records; magnitudes beyond that range and exponent notation are outside; re-parsing by pysam/htslib"
TASKS_PER_CHILD = 2
LEVEL_TEXT = ("Symbolic identities for the record summary (z3), plus solver-driven enumeration of formatted records re-parsed by an independent parser (string code realises symbolic values). Partly applicable: see OUTSIDE.")
REPORTS = [(), ("AFP", "ACP", "AOP"), ("GP",), ("INFO/AFP", "INFO/ACP", "INFO/AOP", "AOPSUM", "AFPRIOR", "SNVDP", "GP", "AFP")]
EXACT_REPORTS = [(), ("GL",), ("GP", "GL", "AFP", "ACP", "AOP"), ("INFO/AFP", "INFO/ACP", "INFO/AOP", "AOPSUM", "AFPRIOR", "GL")]


def configs(tier):
    from checks import c13

    out = []
    for n_alt in ((1, 2) if tier == "quick" else (1, 2, 3)):
        for g0 in range(-1, n_alt + 1):
            for g1 in range(-1, n_alt + 1):
                out.append(dict(group="summary", n_alt=n_alt, first=[g0, g1]))
    for name in (c13.QUICK if tier == "quick" else [s for s in c13.SCENARIOS if s != "dupes"]):
        for r in range(len(REPORTS)):
            out.append(dict(group="asm-line", scenario=name, report=r))
    for nA in (2, 3):
        for r in (0, 3):
            out.append(dict(group="call-line", nA=nA, report=r))
    # call-exact (the real exact code on solver-chosen reads) and call-pedigree (trace chosen by the solver)
    for nA in (2, 3):
        for r in range(len(EXACT_REPORTS)):
            out.append(dict(group="exact-line", nA=nA, report=r))
        for r in (0, 3):
            out.append(dict(group="ped-line", nA=nA, report=r))
    # value formatting: every 3-decimal value of a range, rendered alone and inside arrays, must read back as itself
    out.append(dict(group="gt-text"))
    step = 400 if tier == "quick" else 200
    for scale in (1, 1000):
        for lo in range(-1200, 1201, step):
            out.append(dict(group="vcfstr", lo=lo, hi=min(1200, lo + step - 1), scale=scale))
    return out


def weight(c):
    return 5 if c["group"] == "summary" else 2


def run_config(c, col):
    E.use_summaries(True)
    E.reset_modules()
    E.cfg.concrete_ints = True
    import warnings

    warnings.simplefilter("ignore")
    prof = E.Profile()
    with prof:
        if c["group"] == "summary":
            _run_summary(c, col)
        else:
            E.cfg.concrete_floats = True
            try:
                {"asm-line": _run_asm_line, "call-line": _run_call_line, "exact-line": _run_exact_line, "ped-line": _run_ped_line, "vcfstr": _run_vcfstr, "gt-text": _run_gt_text}[c["group"]](c, col)
            finally:
                E.cfg.concrete_floats = False
    col.functions |= set(prof.names())


# ------------------------------------------------------------------ summary identities


class _Locus0:
    contig = "chr1"
    start = 100
    stop = 104
    name = "loc"
    positions = [101, 103]
    variants = (0, 1)
    sequence = "AAAA"


def _mods():
    bc = E.load("mchap.application.baseclass")
    return bc, E.load("mchap.io.vcf.formatfields"), E.load("mchap.io.vcf.infofields"), E.load("mchap.io.vcf.columns")


def _run_summary(c, col):
    bc, FORMAT, INFO, COLUMN = _mods()
    site = "mchap.application.baseclass.program.sumarise_vcf_record"
    n_alt = c["n_alt"]
    nA = n_alt + 1
    ploidy = {"s0": 2, "s1": 3, "s2": 4}

    def body(ctx):
        gts, gz = {}, {}
        for s, P in ploidy.items():
            if s == "s2":
                gts[s] = rnp.array([0, 0, min(1, n_alt), -1])
                gz[s] = [z3.IntVal(int(x)) for x in gts[s]]
                continue
            vs = [E.fresh_int(ctx, "%s_%d" % (s, i), -1, n_alt) for i in range(P)]
            if s == "s0" and c.get("first") is not None:
                ctx.assume(z3.And(vs[0] == c["first"][0], vs[1] == c["first"][1]))  # configuration split (parallelism only)
            gz[s] = vs
            gts[s] = E.sarray([E.SymInt(v) for v in vs], rnp.int64)
        acp = {s: E.real_array([E.fresh_real(ctx, "acp_%s_%d" % (s, a), 0, None, lo_strict=False) for a in range(nA)]) for s in ploidy}
        aop = {s: E.real_array([E.fresh_real(ctx, "aop_%s_%d" % (s, a), 0, 1, lo_strict=False, hi_strict=False) for a in range(nA)]) for s in ploidy}
        dp = {s: E.SymInt(E.fresh_int(ctx, "dp_%s" % s, 0, 50)) for s in ploidy}
        rc = {s: E.SymInt(E.fresh_int(ctx, "rc_%s" % s, 0, 50)) for s in ploidy}
        prog = bc.program.__new__(bc.program)
        infof = list(INFO.DEFAULT_FIELDS) + [INFO.ACP, INFO.AFP, INFO.AOP, INFO.AOPSUM]
        data = bc.LocusAssemblyData(locus=_Locus0(), samples=list(ploidy), sample_bams={}, sample_ploidy=dict(ploidy), sample_inbreeding={}, read_calls={}, read_dists={}, read_counts={},
                                    infofields=infof, formatfields=list(FORMAT.DEFAULT_FIELDS), columndata={COLUMN.FILTER: [], COLUMN.ALT: ["C"] * n_alt, COLUMN.REF: "A"},
                                    infodata={}, sampledata={f: {} for f in FORMAT.ALL_FIELDS})
        for s in ploidy:
            data.sampledata[FORMAT.GT][s] = gts[s]
            data.sampledata[FORMAT.ACP][s] = acp[s]
            data.sampledata[FORMAT.AFP][s] = acp[s] / ploidy[s]
            data.sampledata[FORMAT.AOP][s] = aop[s]
            data.sampledata[FORMAT.DP][s] = dp[s]
            data.sampledata[FORMAT.RCOUNT][s] = rc[s]
            data.sampledata[FORMAT.MCI][s] = 0
        prog.sumarise_vcf_record(data)
        return gz, acp, aop, dp, rc, data, INFO

    first = True
    for pr in E.explore(body, stats=col.stats):
        if pr.exc is not None:
            col.fail(site, "exception", witness=dict(exc=repr(pr.exc), model=E.model_dict(E.prove(pr.ctx, False).model)), desc="raised %r" % (pr.exc,))
            continue
        col.path()
        ctx = pr.ctx
        if first:
            col.reachable(ctx)
            first = False
        gz, acp, aop, dp, rc, data, INFO = pr.value
        info = data.infodata
        allv = [v for s in gz for v in gz[s]]
        cnt = [z3.Sum([z3.If(v == a, 1, 0) for v in allv]) for a in range(nA)]
        claims = []
        ac = [E._z(x).e if isinstance(x, E.Sym) else z3.IntVal(int(x)) for x in info[INFO.AC]]
        if len(ac) != n_alt:
            col.fail(site, "ac-length", witness=dict(n_alt=n_alt, got=len(ac)), desc="INFO AC does not have A entries")
            continue
        claims += [ac[a - 1] == cnt[a] for a in range(1, nA)]
        claims.append(_iz(info[INFO.AN]) == z3.Sum(cnt))
        claims.append(_iz(info[INFO.UAN]) == z3.Sum([z3.If(cnt[a] > 0, 1, 0) for a in range(nA)]))
        claims.append(_iz(info[INFO.NS]) == z3.Sum([z3.If(z3.Or([v >= 0 for v in gz[s]]), 1, 0) for s in gz]))
        claims.append(_iz(info[INFO.DP]) == z3.Sum([E._z(dp[s]).e for s in dp]))
        claims.append(_iz(info[INFO.RCOUNT]) == z3.Sum([E._z(rc[s]).e for s in rc]))
        col.check(ctx, z3.And(claims), site, "counts-recomputed", witness=dict(n_alt=n_alt), desc="AC/AN/UAN/NS/DP/RCOUNT == values recomputed from the sample columns (GT symbolic)")
        tp = sum([2, 3, 4])
        rcl = []
        for a in range(nA):
            sacp = z3.Sum([E.real_term(acp[s][a]) for s in acp])
            rcl.append(E.real_term(info[INFO.ACP][a]) == sacp)
            rcl.append(E.real_term(info[INFO.AFP][a]) * tp == sacp)
            rcl.append(E.real_term(info[INFO.AOPSUM][a]) == z3.Sum([E.real_term(aop[s][a]) for s in aop]))
            pn = z3.RealVal(1)
            for s in aop:
                pn = pn * (1 - E.real_term(aop[s][a]))
            rcl.append(E.real_term(info[INFO.AOP][a]) == 1 - pn)
        col.check(ctx, z3.And(rcl), site, "posterior-summaries", witness=dict(n_alt=n_alt, first=c.get("first")), desc="INFO ACP/AFP/AOPSUM/AOP == sum / ploidy-weighted mean / sum / 1-prod(1-p) of the sample values, R entries each")


def _iz(x):
    if isinstance(x, E.Sym):
        return E._z(x).e if not isinstance(x, E.SymReal) else x.e
    return z3.IntVal(int(x))


# ------------------------------------------------------------------ independent line parser


class _Decl:
    def __init__(self, id, number, type):
        self.id, self.number, self.type = id, number, type


def header_of(prog, samples):
    """the header text the program emits for its current field lists (contig lines need the input file: left out)"""
    prog.header_contigs = lambda: []
    if getattr(prog, "cli_command", None) is None:
        prog.cli_command = ["mchap", "prog"]
    if not hasattr(prog, "random_seed"):
        prog.random_seed = 1
    prog.samples = list(samples)
    return prog.header()


def decl_from_header(lines):
    """INFO / FORMAT / FILTER declarations parsed from the header TEXT (independent of the program's field objects)"""
    import re as _re

    info, fmt, flt = [], [], set()
    for ln in lines:
        m = _re.match(r'##(INFO|FORMAT)=<ID=([^,]+),Number=([^,]+),Type=([^,]+),Description="', ln)
        if m:
            num = int(m.group(3)) if m.group(3).isdigit() else m.group(3)
            (info if m.group(1) == "INFO" else fmt).append(_Decl(m.group(2), num, m.group(4)))
        m = _re.match(r'##FILTER=<ID=([^,]+),', ln)
        if m:
            flt.add(m.group(1))
    cols = [ln for ln in lines if ln.startswith("#CHROM")]
    return info, fmt, flt, (cols[-1].split("\t") if cols else None)


def header_problems(line, header_lines, samples):
    """the record against the emitted header: FILTER ids declared, column line names the samples, last header line is #CHROM"""
    problems = []
    info, fmt, flt, cols = decl_from_header(header_lines)
    f = line.rstrip("\n").split("\t")
    for x in f[6].split(";"):
        if x not in (".", "") and x not in flt:
            problems.append(("undeclared-filter", "FILTER %s is not declared in the header" % x))
    if cols is None or cols[9:] != list(samples) or not header_lines[-1].startswith("#CHROM") or len(cols) != len(f):
        problems.append(("header-columns", "the #CHROM line %s does not match the record's %d columns / samples %s" % (cols, len(f), list(samples))))
    if len({d.id for d in info}) != len(info) or len({d.id for d in fmt}) != len(fmt):
        problems.append(("duplicate-declaration", "an INFO/FORMAT id is declared twice in the header"))
    types = {d.id: d.type for d in info}
    iv = dict(item.partition("=")[::2] for item in f[7].split(";"))
    for k, v in iv.items():
        if types.get(k) == "Integer" and v not in ("", ".") and any(x not in (".",) and not x.lstrip("-").isdigit() for x in v.split(",")):
            problems.append(("type", "INFO %s=%s is declared Integer" % (k, v)))
        if types.get(k) == "Flag" and v:
            problems.append(("type", "INFO flag %s carries a value" % k))
    ftypes = {d.id: d.type for d in fmt}
    keys = f[8].split(":")
    for colv in f[9:]:
        for k, v in zip(keys, colv.split(":")):
            if ftypes.get(k) == "Integer" and v != "." and any(x != "." and not x.lstrip("-").isdigit() for x in v.split(",")):
                problems.append(("type", "FORMAT %s=%s is declared Integer" % (k, v)))
    return problems


def parse_line(line, infofields, formatfields, samples, ploidy, snv_offsets, ref_seq):
    """returns list of (kind, message) problems"""
    problems = []
    f = line.rstrip("\n").split("\t")
    if len(f) != 9 + len(samples):
        return [("columns", "expected %d columns, got %d" % (9 + len(samples), len(f)))]
    chrom, pos, rid, ref, alt, qual, flt, info, fmt = f[:9]
    alts = [] if alt == "." else alt.split(",")
    n = len(alts) + 1
    if ref != ref_seq:
        problems.append(("ref", "REF %s != reference %s" % (ref, ref_seq)))
    for a in alts:
        if len(a) != len(ref) or any(a[i] != ref[i] and i not in snv_offsets for i in range(min(len(a), len(ref)))):
            problems.append(("alt-shape", "ALT %s has another length than REF or differs from REF outside SNVPOS" % a))
    if len(set(alts)) != len(alts) or ref in alts:
        problems.append(("alt-unique", "duplicate ALT / ALT equal to REF: %s" % alt))
    decl_i = {x.id: x for x in infofields}
    iv = {}
    for item in info.split(";"):
        k, _, v = item.partition("=")
        if k not in decl_i:
            problems.append(("undeclared-info", "INFO key %s not in the header" % k))
            continue
        iv[k] = v
        num = decl_i[k].number
        vals = v.split(",") if v else []
        if num == 0:
            if v:
                problems.append(("info-cardinality", "flag %s has a value" % k))
        elif v == ".":
            pass
        elif num == "A" and len(vals) != n - 1:
            problems.append(("info-cardinality", "INFO %s has %d values for %d ALT alleles" % (k, len(vals), n - 1)))
        elif num == "R" and len(vals) != n:
            problems.append(("info-cardinality", "INFO %s has %d values for %d alleles" % (k, len(vals), n)))
        elif num == 1 and len(vals) != 1:
            problems.append(("info-cardinality", "INFO %s has %d values" % (k, len(vals))))
    keys = fmt.split(":")
    decl_f = {x.id: x for x in formatfields}
    cols = {}
    for s, col in zip(samples, f[9:]):
        vals = col.split(":")
        if len(vals) != len(keys):
            problems.append(("format-columns", "sample %s has %d values for %d FORMAT keys" % (s, len(vals), len(keys))))
            continue
        cols[s] = dict(zip(keys, vals))
        P = ploidy[s]
        for k, v in cols[s].items():
            if k not in decl_f:
                problems.append(("undeclared-format", "FORMAT key %s not in the header" % k))
                continue
            if k == "GT":
                g = v.split("/")
                nn = [int(x) for x in g if x != "."]
                if len(g) != P or nn != sorted(nn) or g != [str(x) for x in nn] + ["."] * (P - len(nn)) or any(not (0 <= x < n) for x in nn):
                    problems.append(("gt-form", "sample %s GT %s (ploidy %d, %d alleles)" % (s, v, P, n)))
                continue
            num = decl_f[k].number
            xs = v.split(",")
            if v == ".":
                continue
            if num == "R" and len(xs) != n:
                problems.append(("format-cardinality", "FORMAT %s of %s has %d values for %d alleles" % (k, s, len(xs), n)))
            elif num == "A" and len(xs) != n - 1:
                problems.append(("format-cardinality", "FORMAT %s of %s has %d values for %d ALT" % (k, s, len(xs), n - 1)))
            elif num == "G" and len(xs) != math.comb(n + P - 1, P):
                problems.append(("format-cardinality", "FORMAT %s of %s has %d values, G-length is %d" % (k, s, len(xs), math.comb(n + P - 1, P))))
            elif num == 1 and len(xs) != 1:
                problems.append(("format-cardinality", "FORMAT %s of %s has %d values" % (k, s, len(xs))))
    # recount AC/AN/UAN/NS from the GT columns
    if cols and not problems:
        cnt = [0] * n
        ns = 0
        for s in samples:
            g = [int(x) for x in cols[s]["GT"].split("/") if x != "."]
            ns += bool(g)
            for a in g:
                cnt[a] += 1
        want = {"AN": str(sum(cnt)), "UAN": str(sum(1 for x in cnt if x)), "NS": str(ns), "AC": ",".join(str(x) for x in cnt[1:]) or "."}
        for k, v in want.items():
            if k in iv and iv[k] != v:
                problems.append(("info-recount", "INFO %s=%s but the sample columns give %s" % (k, iv[k], v)))
        for k, fk in (("ACP", "ACP"), ("AOPSUM", "AOP")):
            if k in iv and "." not in iv[k].split(",") and fk in keys and all("." not in cols[s][fk].split(",") for s in samples):
                tot = [sum(float(cols[s][fk].split(",")[a]) for s in samples) for a in range(n)]
                got = [float(x) for x in iv[k].split(",")]
                if any(abs(a_ - b_) > 2.5e-3 * len(samples) for a_, b_ in zip(got, tot)):
                    problems.append(("info-recount", "INFO %s=%s but the sample %s columns sum to %s" % (k, iv[k], fk, tot)))
        if "REFMASKED" in iv or "REFMASKED" in info.split(";"):
            for s in samples:
                if "0" in cols[s]["GT"].split("/"):
                    problems.append(("masked-ref-called", "REFMASKED record but sample %s GT %s uses allele 0" % (s, cols[s]["GT"])))
    return problems


# ------------------------------------------------------------------ assemble lines


def _asm_driver(c):
    """(body, infofields, formatfields, samples, scenario): body(ctx) -> (formatted assemble record, threshold, data)"""
    from checks import c13

    asm = E.load("mchap.application.assemble")
    bc, FORMAT, INFO, COLUMN = _mods()
    cl = E.load("mchap.assemble.classes")
    args = E.load("mchap.application.arguments")
    lo = E.load("mchap.io.loci")
    asm.minimum_error_correction = lambda calls, haps: rnp.zeros(1)
    scen = c13.SCENARIOS[c["scenario"]]
    samples = ["s%d" % i for i in range(len(scen))]
    site = "mchap.application.baseclass.LocusAssemblyData.format_vcf_record"
    infof, fmtf = args.parse_report_fields(list(REPORTS[c["report"]]))
    locus = lo.Locus("chr1", 100, 104, "loc", "AAGA", (lo.SNP("chr1", 101, 102, ".", ("A", "C")), lo.SNP("chr1", 103, 104, ".", ("A", "C"))))

    def body(ctx):
        thr = [0.1, 0.5, 0.9][int(E.SymInt(E.fresh_int(ctx, "thr", 0, 2)))]
        posts = {}
        for s, gs in zip(samples, scen):
            dom = int(E.SymInt(E.fresh_int(ctx, "dom_%s" % s, 0, len(gs) - 1)))
            ps = [0.4 / max(1, len(gs) - 1)] * len(gs)
            ps[dom] = 0.6 if len(gs) > 1 else 1.0
            posts[s] = cl.PosteriorGenotypeDistribution(rnp.array(gs, dtype=rnp.int8), rnp.array(ps))

        class FakeTrace:
            def __init__(self, s):
                self.s = s

            def burn(self, n):
                return self

            def posterior(self):
                return posts[self.s]

            def replicate_incongruence(self, threshold=0.6):
                return 0

        class FakeMCMC:
            def __init__(self, **kw):
                pass

            def fit(self, reads, read_counts):
                return FakeTrace(reads)

        asm.DenovoMCMC = FakeMCMC
        prog = asm.program.__new__(asm.program)
        prog.info_fields, prog.format_fields = list(infof), list(fmtf)
        for k, v in dict(mcmc_steps=1, mcmc_chains=1, mcmc_fix_homozygous=0.999, mcmc_recombination_step_probability=0.5, mcmc_partial_dosage_step_probability=0.5,
                         mcmc_dosage_step_probability=1.0, sample_mcmc_temperatures={s: (1.0,) for s in samples}, random_seed=1, mcmc_llk_cache_threshold=100,
                         mcmc_burn=0, mcmc_incongruence_threshold=0.6, haplotype_posterior_threshold=thr, samples=samples,
                         sample_ploidy={s: len(gs[0]) for s, gs in zip(samples, scen)}, sample_inbreeding={s: 0.0 for s in samples}, precision=3).items():
            setattr(prog, k, v)
        data = prog._locus_data(locus, {s: [] for s in samples})
        for s in samples:
            data.read_calls[s] = rnp.zeros((1, 2), dtype=int)
            data.read_dists[s] = s
            data.read_counts[s] = None
            data.sampledata[FORMAT.DP][s] = 7.0
            data.sampledata[FORMAT.RCOUNT][s] = 9
            data.sampledata[FORMAT.RCALLS][s] = 12
            data.sampledata[FORMAT.SNVDP][s] = rnp.array([7.0, 8.0])
        prog.call_sample_genotypes(data)
        prog.sumarise_vcf_record(data)
        data.header = header_of(prog, samples)
        return data.format_vcf_record(), thr, data

    return body, infof, fmtf, samples, scen


def _run_asm_line(c, col):
    body, infof, fmtf, samples, scen = _asm_driver(c)
    site = "mchap.application.baseclass.LocusAssemblyData.format_vcf_record"
    first = True
    for pr in E.explore(body, stats=col.stats):
        if pr.exc is not None:
            e = pr.exc.__cause__ or pr.exc
            col.fail(site, "exception", shape=dict(prog="assemble"), witness=dict(exc=repr(e), model=E.model_dict(E.prove(pr.ctx, False).model), scenario=c["scenario"]), desc="raised %r" % (e,))
            continue
        col.path()
        if first:
            col.reachable(pr.ctx)
            first = False
        line, thr, data = pr.value
        hi, hf, _, _ = decl_from_header(data.header)  # declared = what the emitted header text declares
        problems = parse_line(line, hi, hf, samples, {s: len(gs[0]) for s, gs in zip(samples, scen)}, {1, 3}, "AAGA") or header_problems(line, data.header, samples) or readback_problems(line, data, samples)
        if problems:
            col.fail(site, problems[0][0], shape=dict(prog="assemble"), witness=dict(line=line, problems=[p[1] for p in problems][:4], model=E.model_dict(E.prove(pr.ctx, False).model), scenario=c["scenario"]), desc=problems[0][1])
        else:
            col.ok("assemble record re-parsed: declared keys, cardinalities, GT form, REF/ALT shape, recounted AC/AN/UAN/NS/ACP (--report %s)" % (list(REPORTS[c["report"]]),))


# ------------------------------------------------------------------ call lines


class _PriorLocus:
    contig = "chr1"
    start = 100
    stop = 103
    name = "loc"
    sequence = "AAA"
    positions = [101]
    variants = (0,)

    def __init__(self, haps, freqs, mask):
        self._h, self.frequencies, self.mask_reference_allele = haps, freqs, mask
        self.alts = tuple(["ACA", "AGA", "ATA"][: len(haps) - 1])
        self.alleles = [("A", "C", "G", "T")[: len(haps)]]

    def encode_haplotypes(self):
        return self._h


def _run_call_line(c, col):
    call = E.load("mchap.application.call")
    bc, FORMAT, INFO, COLUMN = _mods()
    cc = E.load("mchap.calling.classes")
    args = E.load("mchap.application.arguments")
    call.minimum_error_correction = lambda calls, haps: rnp.zeros(1)
    site = "mchap.application.baseclass.LocusAssemblyData.format_vcf_record"
    nA, P = c["nA"], 2
    haps = rnp.arange(nA).reshape(nA, 1).astype(rnp.int8)
    infof, fmtf = args.parse_report_fields(list(REPORTS[c["report"]]))
    samples = ["s0", "s1"]

    def body(ctx):
        zero = [bool(int(E.SymInt(E.fresh_int(ctx, "z%d" % i, 0, 1)))) for i in range(nA)]
        mask = bool(int(E.SymInt(E.fresh_int(ctx, "mask", 0, 1))))
        live = [i for i in range(nA) if not (zero[i] or (i == 0 and mask))]
        fs = rnp.array([0.0 if i not in live else 1.0 / max(1, len(live)) for i in range(nA)])
        if not live:
            fs[:] = rnp.nan
        captured = {}

        class FakeMCMC:
            def __init__(self, **kw):
                captured.update(kw)

            def fit(self, reads, read_counts):
                n = len(captured["haplotypes"])
                g = rnp.zeros((1, 2, P), dtype=rnp.int8)
                a = int(E.SymInt(E.fresh_int(ctx, "g%s_0" % reads, 0, n - 1)))
                b = int(E.SymInt(E.fresh_int(ctx, "g%s_1" % reads, a, n - 1)))
                g[0, 0] = (a, b)
                g[0, 1] = (a, a)
                return cc.GenotypeAllelesMultiTrace(g, rnp.zeros((1, 2)), n)

        call.CallingMCMC = FakeMCMC
        prog = call.program.__new__(call.program)
        prog.info_fields, prog.format_fields = list(infof), list(fmtf)
        for k, v in dict(mcmc_steps=2, mcmc_chains=1, random_seed=1, mcmc_burn=0, mcmc_incongruence_threshold=0.6, samples=samples, sample_ploidy={s: P for s in samples},
                         sample_inbreeding={s: 0.0 for s in samples}, precision=3).items():
            setattr(prog, k, v)
        data = prog._locus_data(_PriorLocus(haps, fs, mask), {s: [] for s in samples})
        for s in samples:
            data.read_calls[s] = rnp.zeros((1, 1), dtype=int)
            data.read_dists[s] = s
            data.read_counts[s] = None
            data.sampledata[FORMAT.DP][s] = 7.0
            data.sampledata[FORMAT.RCOUNT][s] = 9
            data.sampledata[FORMAT.RCALLS][s] = 12
            data.sampledata[FORMAT.SNVDP][s] = rnp.array([7.0])
        prog.call_sample_genotypes(data)
        prog.sumarise_vcf_record(data)
        data.header = header_of(prog, samples)
        return data.format_vcf_record(), data

    first = True
    for pr in E.explore(body, stats=col.stats):
        if pr.exc is not None:
            e = pr.exc.__cause__ or pr.exc
            col.fail(site, "exception", shape=dict(prog="call"), witness=dict(exc=repr(e), model=E.model_dict(E.prove(pr.ctx, False).model)), desc="raised %r" % (e,))
            continue
        col.path()
        if first:
            col.reachable(pr.ctx)
            first = False
        line, data = pr.value
        hi, hf, _, _ = decl_from_header(data.header)
        problems = parse_line(line, hi, hf, samples, {s: P for s in samples}, {1}, "AAA") or header_problems(line, data.header, samples) or readback_problems(line, data, samples)
        if problems:
            col.fail(site, problems[0][0], shape=dict(prog="call"), witness=dict(line=line, problems=[p[1] for p in problems][:4], model=E.model_dict(E.prove(pr.ctx, False).model)), desc=problems[0][1])
        else:
            col.ok("call record re-parsed: declared keys, cardinalities, GT form, REF/ALT shape, recounted summaries (--report %s)" % (list(REPORTS[c["report"]]),))



# ------------------------------------------------------------------ numeric read-back ("reads back as the internal value rounded to 3 decimals")


def _num(tok):
    return float("nan") if tok == "." else float(tok)


def _same(txt, val, tol=5.1e-4):
    """does the text read back as val rounded to three decimals?  (5e-4 = the rounding itself; 1e-5 slack for float32 inputs)"""
    got = _num(txt)
    if val is None or (isinstance(val, float) and math.isnan(val)):
        return math.isnan(got)
    if math.isnan(got):
        return False
    if math.isinf(got) or math.isinf(float(val)):
        return got == float(val)
    return abs(got - float(val)) <= tol + 1e-9 * abs(float(val)) and abs(got - round(float(val), 3)) <= 1e-6 + 1e-9 * abs(float(val))


def readback_problems(line, data, samples):
    """compare every numeric INFO / FORMAT value of the formatted line with the internal value it was rendered from"""
    problems = []
    f = line.rstrip("\n").split("\t")
    info = dict(item.partition("=")[::2] for item in f[7].split(";"))
    for fld in data.infofields:
        if fld.id not in info or isinstance(data.infodata.get(fld), bool):
            continue
        val = data.infodata.get(fld)
        if val is None or isinstance(val, (str, dict)):
            continue
        try:
            vals = [float(x) for x in rnp.atleast_1d(rnp.asarray(val, dtype=float))]
        except (TypeError, ValueError):
            continue
        toks = info[fld.id].split(",")
        if len(toks) != len(vals) and not (len(vals) == 0 and toks == ["."]):
            problems.append(("readback", "INFO %s has %d values in the text, %d internally" % (fld.id, len(toks), len(vals))))
        elif any(not _same(t, v) for t, v in zip(toks, vals)):
            problems.append(("readback", "INFO %s=%s does not read back as the internal values %s rounded to 3 decimals" % (fld.id, info[fld.id], [round(v, 4) for v in vals])))
    keys = f[8].split(":")
    for s, colv in zip(samples, f[9:]):
        toks_by_key = dict(zip(keys, colv.split(":")))
        for fld in data.formatfields:
            if fld.id == "GT" or fld.id not in toks_by_key:
                continue
            val = data.sampledata[fld].get(s)
            if val is None or isinstance(val, str):
                continue
            vals = [float(x) for x in rnp.atleast_1d(rnp.asarray(val, dtype=float))]
            toks = toks_by_key[fld.id].split(",")
            if len(toks) != len(vals):
                problems.append(("readback", "FORMAT %s of %s has %d values in the text, %d internally" % (fld.id, s, len(toks), len(vals))))
            elif any(not _same(t, v) for t, v in zip(toks, vals)):
                problems.append(("readback", "FORMAT %s of %s = %s does not read back as the internal values %s rounded to 3 decimals" % (fld.id, s, toks_by_key[fld.id], [round(v, 4) for v in vals])))
    return problems


def banned_problems(line, data, samples):
    """alleles that are masked or have zero prior never occur in a GT and have zero posterior frequency / probability"""
    banned = set(getattr(data, "banned", []) or [])
    if not banned:
        return []
    problems = []
    f = line.rstrip("\n").split("\t")
    keys = f[8].split(":")
    for s, colv in zip(samples, f[9:]):
        vals = dict(zip(keys, colv.split(":")))
        gt = [int(x) for x in vals["GT"].split("/") if x != "."]
        if set(gt) & banned:
            problems.append(("masked-allele-called", "sample %s GT %s uses a masked / zero-prior allele (%s)" % (s, vals["GT"], sorted(banned))))
        for k in ("AFP", "AOP", "ACP"):
            if k in vals and vals[k] != ".":
                xs = vals[k].split(",")
                if any(i < len(xs) and xs[i] not in (".", "0") and float(xs[i]) != 0 for i in banned):
                    problems.append(("masked-allele-called", "sample %s %s=%s gives posterior weight to a masked / zero-prior allele (%s)" % (s, k, vals[k], sorted(banned))))
    return problems


# ------------------------------------------------------------------ vcfstr on every 3-decimal value of a range


def _run_vcfstr(c, col):
    su = E.load("mchap.io.vcf.util")
    site = "mchap.io.vcf.util.vcfstr"
    scale = c["scale"]

    def body(ctx):
        k = E.enum_int(ctx, "k", c["lo"], c["hi"])
        v = k / 1000.0 * scale + (0.0004 if k % 7 == 0 else 0.0)  # some values carry a 4th decimal that must round away
        outs = []
        for arr in ([v], [2.0, v, 30.0], [v, float("nan"), v], [v, -0.0469, 0.5]):
            outs.append((arr, su.vcfstr(rnp.array(arr))))
        outs.append(([v], su.vcfstr(float(v))))
        outs.append(([v, 1.0], su.vcfstr([float(v), 1.0])))
        outs.append(([v], su.vcfstr(rnp.array([v], dtype=rnp.float32))))
        return k, outs

    first = True
    for pr in E.explore(body, stats=col.stats):
        if pr.exc is not None:
            col.fail(site, "exception", witness=dict(exc=repr(pr.exc), model=E.model_dict(E.prove(pr.ctx, False).model)), desc="raised %r" % (pr.exc,))
            continue
        col.path()
        if first:
            col.reachable(pr.ctx)
            first = False
        k, outs = pr.value
        bad = None
        for arr, txt in outs:
            toks = txt.split(",")
            if len(toks) != len(arr) or any(not _same(t, x, tol=5.1e-4 * max(1.0, scale / 100.0)) for t, x in zip(toks, arr)):
                bad = (arr, txt)
                break
        if bad:
            col.fail(site, "readback", shape=dict(prog="vcfstr"), witness=dict(values=[repr(x) for x in bad[0]], text=bad[1], model=dict(k=k)),
                     desc="vcfstr(%s) = %r does not read back as the values rounded to 3 decimals" % (bad[0], bad[1]))
        else:
            col.ok("vcfstr renders k/1000*%d (alone, inside arrays, next to nan, as float / list / float32) so that it reads back as the value rounded to 3 decimals" % scale)


# ------------------------------------------------------------------ GT text for records with many alleles


def _run_gt_text(c, col):
    """format_sample_field / format_record: the GT text is the allele numbers themselves ('.' for missing), also for two- and
    three-digit allele numbers (records with ten or more ALT haplotypes), next to integer, float and array fields"""
    rec = E.load("mchap.io.vcf.records")
    site = "mchap.io.vcf.records.format_sample_field"
    ALS = [-1, 0, 9, 10, 23, 100]

    def body(ctx):
        gts = []
        for smp in range(2):
            g = sorted(ALS[int(E.SymInt(E.fresh_int(ctx, "a%d_%d" % (smp, i), 0, len(ALS) - 1)))] for i in range(2))
            gts.append([x for x in g if x >= 0] + [x for x in g if x < 0])
        txt = rec.format_sample_field(GT=[rnp.array(g) for g in gts], DP=[7, 12], GPM=[0.5, rnp.nan], ACP=[rnp.array([1.0, 2.5]), rnp.array([10.0, 0.0])])
        return gts, txt

    first = True
    for pr in E.explore(body, stats=col.stats):
        if pr.exc is not None:
            col.fail(site, "exception", shape=dict(prog="gt-text"), witness=dict(exc=repr(pr.exc)), desc="raised %r" % (pr.exc,))
            continue
        col.path()
        if first:
            col.reachable(pr.ctx)
            first = False
        gts, txt = pr.value
        f = txt.split("\t")
        want = ["GT:DP:GPM:ACP"] + ["/".join("." if a < 0 else str(a) for a in g) + tail for g, tail in zip(gts, (":7:0.5:1,2.5", ":12:.:10,0"))]
        if f != want:
            col.fail(site, "gt-text", shape=dict(prog="gt-text"), witness=dict(gts=gts, text=txt, model=E.model_dict(E.prove(pr.ctx, False).model)), desc="sample columns %r, expected %r" % (f, want))
        else:
            col.ok("GT text == allele numbers joined by '/', '.' for missing, for allele numbers up to 100; other fields unchanged")


# ------------------------------------------------------------------ call-exact lines (the real exact code on concrete reads)

# (read, allele) probabilities are strictly positive: the CLI refuses a zero error rate (same precondition as C01/C03)
READ_GRID = [[0.9, 0.09, 0.01], [0.1, 0.89, 0.01], [0.05, 0.05, 0.9], [0.999, 0.0005, 0.0005]]


def _run_exact_line(c, col):
    E.use_summaries(False)  # concrete numbers: the real add_log_prob / normalise_log_probs run as they are
    E.reset_modules()
    cx = E.load("mchap.application.call_exact")
    bc, FORMAT, INFO, COLUMN = _mods()
    args = E.load("mchap.application.arguments")
    cx.minimum_error_correction = lambda calls, haps: rnp.zeros(1)
    site = "mchap.application.baseclass.LocusAssemblyData.format_vcf_record"
    nA = c["nA"]
    haps = rnp.arange(nA).reshape(nA, 1).astype(rnp.int8)
    infof, fmtf = args.parse_report_fields(list(EXACT_REPORTS[c["report"]]))
    samples = ["s0", "s1"]
    ploidy = {"s0": 2, "s1": 3}

    def body(ctx):
        zero = [bool(int(E.SymInt(E.fresh_int(ctx, "z%d" % i, 0, 1)))) for i in range(nA)]
        mask = bool(int(E.SymInt(E.fresh_int(ctx, "mask", 0, 1))))
        if mask:
            zero[0] = True
        live = [i for i in range(nA) if not zero[i]]
        fs = rnp.array([0.0 if i not in live else 1.0 / max(1, len(live)) for i in range(nA)])
        if not live:
            fs[:] = rnp.nan
        prog = cx.program.__new__(cx.program)
        prog.info_fields, prog.format_fields = list(infof), list(fmtf)
        tag = "AFP" if int(E.SymInt(E.fresh_int(ctx, "tag", 0, 1))) else None  # with or without --prior-frequencies
        for k, v in dict(samples=samples, sample_ploidy=dict(ploidy), sample_inbreeding={"s0": 0.0, "s1": 0.25}, precision=3,
                         prior_frequencies_tag=tag, filter_input_haplotypes=None).items():
            setattr(prog, k, v)
        data = prog._locus_data(_PriorLocus(haps, fs, mask), {s: [] for s in samples})
        for s in samples:
            r0 = int(E.SymInt(E.fresh_int(ctx, "r0_%s" % s, 0, len(READ_GRID) - 1)))
            r1 = int(E.SymInt(E.fresh_int(ctx, "r1_%s" % s, r0, len(READ_GRID) - 1))) if s == "s0" else (r0 + 1) % len(READ_GRID)
            data.read_calls[s] = rnp.zeros((2, 1), dtype=int)
            data.read_dists[s] = rnp.array([[READ_GRID[r0][:nA]], [READ_GRID[r1][:nA]]], dtype=float)
            data.read_counts[s] = rnp.array([1, 2])
            data.sampledata[FORMAT.DP][s] = 7.0
            data.sampledata[FORMAT.RCOUNT][s] = 9
            data.sampledata[FORMAT.RCALLS][s] = 12
            data.sampledata[FORMAT.SNVDP][s] = rnp.array([7.0])
        prog.call_sample_genotypes(data)
        prog.sumarise_vcf_record(data)
        data.header = header_of(prog, samples)
        data.banned = [i for i in range(nA) if zero[i]]
        return data.format_vcf_record(), data

    first = True
    for pr in E.explore(body, stats=col.stats):
        if pr.exc is not None:
            e = pr.exc.__cause__ or pr.exc
            col.fail(site, "exception", shape=dict(prog="call-exact"), witness=dict(exc=repr(e), model=E.model_dict(E.prove(pr.ctx, False).model)), desc="raised %r" % (e,))
            continue
        col.path()
        if first:
            col.reachable(pr.ctx)
            first = False
        line, data = pr.value
        hi, hf, _, _ = decl_from_header(data.header)
        problems = parse_line(line, hi, hf, samples, ploidy, {1}, "AAA") or header_problems(line, data.header, samples) or readback_problems(line, data, samples) or banned_problems(line, data, samples)
        if problems:
            col.fail(site, problems[0][0], shape=dict(prog="call-exact"), witness=dict(line=line, problems=[p[1] for p in problems][:4], model=E.model_dict(E.prove(pr.ctx, False).model)), desc=problems[0][1])
        else:
            col.ok("call-exact record re-parsed: declared keys, cardinalities (R/G per sample ploidy), GT form, recounted summaries, numeric read-back (--report %s)" % (list(EXACT_REPORTS[c["report"]]),))


# ------------------------------------------------------------------ call-pedigree lines


def _run_ped_line(c, col):
    cp = E.load("mchap.application.call_pedigree")
    bc, FORMAT, INFO, COLUMN = _mods()
    cc = E.load("mchap.calling.classes")
    args = E.load("mchap.application.arguments")
    cp.minimum_error_correction = lambda calls, haps: rnp.zeros(1)
    site = "mchap.application.baseclass.LocusAssemblyData.format_vcf_record"
    nA = c["nA"]
    haps = rnp.arange(nA).reshape(nA, 1).astype(rnp.int8)
    infof, fmtf = args.parse_report_fields(list(REPORTS[c["report"]]) + (["GL"] if c["report"] else []))
    fmtf = fmtf + list(FORMAT.PEDIGREE_FIELDS)
    samples = ["s0", "s1", "s2"]
    ploidy = {"s0": 2, "s1": 2, "s2": 2}

    def body(ctx):
        zero = [bool(int(E.SymInt(E.fresh_int(ctx, "z%d" % i, 0, 1)))) for i in range(nA)]
        mask = bool(int(E.SymInt(E.fresh_int(ctx, "mask", 0, 1))))
        live = [i for i in range(nA) if not (zero[i] or (i == 0 and mask))]
        fs = rnp.array([0.0 if i not in live else 1.0 / max(1, len(live)) for i in range(nA)])
        if not live:
            fs[:] = rnp.nan
        captured = {}

        class FakeTrace:
            def __init__(self, n):
                self.n = n

            def burn(self, k):
                return self

            def incongruence(self, **kw):
                return rnp.array([0.0, 0.125, 1.0])

            def individual(self, i):
                n = self.n
                g = rnp.zeros((1, 2, 2), dtype=rnp.int8)
                a = int(E.SymInt(E.fresh_int(ctx, "g%d_0" % i, 0, n - 1)))
                b = int(E.SymInt(E.fresh_int(ctx, "g%d_1" % i, a, n - 1))) if i == 0 else a
                g[0, 0] = (a, b)
                g[0, 1] = (a, a)
                return cc.GenotypeAllelesMultiTrace(g, rnp.full((1, 2), rnp.nan), n)

        class FakeMCMC:
            def __init__(self, **kw):
                captured.update(kw)

            def fit(self, sample_reads, sample_read_counts):
                return FakeTrace(len(captured["haplotypes"]))

        cp.PedigreeCallingMCMC = FakeMCMC
        prog = cp.program.__new__(cp.program)
        prog.info_fields, prog.format_fields = list(infof), list(fmtf)
        for k, v in dict(mcmc_steps=2, mcmc_chains=1, random_seed=1, mcmc_burn=0, mcmc_incongruence_threshold=0.6, samples=samples, sample_ploidy=dict(ploidy),
                         sample_inbreeding={s: 0.0 for s in samples}, precision=3, sample_parents={"s0": (None, None), "s1": (None, None), "s2": ("s0", "s1")},
                         gamete_ploidy={s: (1, 1) for s in samples}, gamete_ibd={s: (0.0, 0.0) for s in samples}, gamete_error={s: (0.01, 0.01) for s in samples}).items():
            setattr(prog, k, v)
        prog.prior_frequencies_tag, prog.filter_input_haplotypes = None, None
        data = prog._locus_data(_PriorLocus(haps, fs, mask), {s: [] for s in samples})
        for s in samples:
            data.read_calls[s] = rnp.zeros((1, 1), dtype=int)
            data.read_dists[s] = rnp.array([[READ_GRID[0][:nA]]], dtype=float)
            data.read_counts[s] = rnp.array([1])
            data.sampledata[FORMAT.DP][s] = 7.0
            data.sampledata[FORMAT.RCOUNT][s] = 9
            data.sampledata[FORMAT.RCALLS][s] = 12
            data.sampledata[FORMAT.SNVDP][s] = rnp.array([7.0])
        prog.call_sample_genotypes(data)
        prog.sumarise_vcf_record(data)
        data.header = header_of(prog, samples)
        data.banned = [i for i in range(nA) if zero[i] or (i == 0 and mask)]
        return data.format_vcf_record(), data

    first = True
    for pr in E.explore(body, stats=col.stats):
        if pr.exc is not None:
            e = pr.exc.__cause__ or pr.exc
            col.fail(site, "exception", shape=dict(prog="call-pedigree"), witness=dict(exc=repr(e), model=E.model_dict(E.prove(pr.ctx, False).model)), desc="raised %r" % (e,))
            continue
        col.path()
        if first:
            col.reachable(pr.ctx)
            first = False
        line, data = pr.value
        hi, hf, _, _ = decl_from_header(data.header)
        problems = parse_line(line, hi, hf, samples, ploidy, {1}, "AAA") or header_problems(line, data.header, samples) or readback_problems(line, data, samples) or banned_problems(line, data, samples)
        if problems:
            col.fail(site, problems[0][0], shape=dict(prog="call-pedigree"), witness=dict(line=line, problems=[p[1] for p in problems][:4], model=E.model_dict(E.prove(pr.ctx, False).model)), desc=problems[0][1])
        else:
            col.ok("call-pedigree record re-parsed: declared keys (incl. PEDERR), cardinalities, GT form, recounted summaries, numeric read-back (--report %s)" % (list(REPORTS[c["report"]]),))

# ------------------------------------------------------------------ replay: the same drivers on the real modules


def replay(v):
    """re-run the driver with the real modules substituted for the shadow ones (the drivers only use module attributes)"""
    import importlib
    import warnings

    c = v["config"]
    w = v.get("witness") or {}
    m = w.get("model") or v.get("model") or {}
    warnings.simplefilter("ignore")
    if c["group"] == "summary":
        return _replay_summary(c, m)
    real = {"mchap.application.assemble": None, "mchap.application.call": None, "mchap.application.call_exact": None, "mchap.application.call_pedigree": None,
            "mchap.io.vcf.util": None, "mchap.io.vcf.records": None, "mchap.application.baseclass": None, "mchap.io.vcf.formatfields": None,
            "mchap.io.vcf.infofields": None, "mchap.io.vcf.columns": None, "mchap.assemble.classes": None, "mchap.calling.classes": None,
            "mchap.application.arguments": None, "mchap.io.loci": None}
    for name in real:
        real[name] = importlib.import_module(name)
    saved_load = E.load
    saved_attrs = []
    for modname, attr in (("mchap.application.assemble", "DenovoMCMC"), ("mchap.application.assemble", "minimum_error_correction"),
                          ("mchap.application.call", "CallingMCMC"), ("mchap.application.call", "minimum_error_correction"),
                          ("mchap.application.call_exact", "minimum_error_correction"), ("mchap.application.call_pedigree", "minimum_error_correction"),
                          ("mchap.application.call_pedigree", "PedigreeCallingMCMC")):
        saved_attrs.append((real[modname], attr, getattr(real[modname], attr)))

    class _Pinned:
        """explore() replacement: one path with the model's values"""

    def fake_fresh_int(ctx, name, lo, hi):
        return z3.IntVal(max(lo, min(hi, int(m.get(name, lo)))))

    saved_fi = E.fresh_int
    E.load = lambda name, keep_init=False: real[name]
    E.fresh_int = fake_fresh_int
    res = {}
    try:
        col = _OneShot()
        {"asm-line": _run_asm_line, "call-line": _run_call_line, "exact-line": _run_exact_line, "ped-line": _run_ped_line, "vcfstr": _run_vcfstr, "gt-text": _run_gt_text}[c["group"]](c, col)
        res = col
    finally:
        E.load = saved_load
        E.fresh_int = saved_fi
        for mod, attr, val in saved_attrs:
            setattr(mod, attr, val)
    if res.fails:
        k, desc, wit = res.fails[0]
        return True, "real modules: %s :: %s" % (desc, (wit or {}).get("line", (wit or {}).get("exc", (wit or {}).get("text", "")))[:300])
    return False, "real modules produce a well-formed line for this record"


def _replay_summary(c, m):
    """the real sumarise_vcf_record on the model's numbers"""
    import warnings
    from mchap.application import baseclass as rbc
    import mchap.io.vcf.formatfields as FORMAT
    import mchap.io.vcf.infofields as INFO
    import mchap.io.vcf.columns as COLUMN

    n_alt = c["n_alt"]
    nA = n_alt + 1
    ploidy = {"s0": 2, "s1": 3, "s2": 4}
    gts = {}
    for s, P in ploidy.items():
        if s == "s2":
            gts[s] = rnp.array([0, 0, min(1, n_alt), -1])
        else:
            g = [int(m.get("%s_%d" % (s, i), -1)) for i in range(P)]
            if s == "s0" and c.get("first") is not None:
                g[0], g[1] = c["first"]
            gts[s] = rnp.array(g)
    acp = {s: rnp.array([float(m.get("acp_%s_%d" % (s, a), 0.25 * (a + 1))) for a in range(nA)]) for s in ploidy}
    aop = {s: rnp.array([float(m.get("aop_%s_%d" % (s, a), 0.5)) for a in range(nA)]) for s in ploidy}
    prog = rbc.program.__new__(rbc.program)
    infof = list(INFO.DEFAULT_FIELDS) + [INFO.ACP, INFO.AFP, INFO.AOP, INFO.AOPSUM]
    data = rbc.LocusAssemblyData(locus=_Locus0(), samples=list(ploidy), sample_bams={}, sample_ploidy=dict(ploidy), sample_inbreeding={}, read_calls={}, read_dists={}, read_counts={},
                                 infofields=infof, formatfields=list(FORMAT.DEFAULT_FIELDS), columndata={COLUMN.FILTER: [], COLUMN.ALT: ["C"] * n_alt, COLUMN.REF: "A"},
                                 infodata={}, sampledata={f: {} for f in FORMAT.ALL_FIELDS})
    for s in ploidy:
        data.sampledata[FORMAT.GT][s] = gts[s]
        data.sampledata[FORMAT.ACP][s] = acp[s]
        data.sampledata[FORMAT.AFP][s] = acp[s] / ploidy[s]
        data.sampledata[FORMAT.AOP][s] = aop[s]
        data.sampledata[FORMAT.DP][s] = int(m.get("dp_%s" % s, 3))
        data.sampledata[FORMAT.RCOUNT][s] = int(m.get("rc_%s" % s, 4))
        data.sampledata[FORMAT.MCI][s] = 0
    try:
        with warnings.catch_warnings():
            warnings.simplefilter("ignore")
            prog.sumarise_vcf_record(data)
    except Exception as e:
        return True, "real sumarise_vcf_record raised %r" % (e,)
    info = data.infodata
    allv = [int(x) for s in gts for x in gts[s]]
    cnt = [sum(1 for x in allv if x == a) for a in range(nA)]
    bad = []
    if [int(x) for x in info[INFO.AC]] != cnt[1:] or int(info[INFO.AN]) != sum(cnt) or int(info[INFO.UAN]) != sum(1 for x in cnt if x) or int(info[INFO.NS]) != sum(1 for s in gts if (gts[s] >= 0).any()):
        bad.append("AC/AN/UAN/NS %s/%s/%s/%s vs recount %s" % (list(info[INFO.AC]), info[INFO.AN], info[INFO.UAN], info[INFO.NS], cnt))
    sacp = sum(acp.values())
    if rnp.abs(rnp.asarray(info[INFO.ACP]) - sacp).max() > 1e-9:
        bad.append("INFO ACP %s vs sum of sample ACP %s" % (list(info[INFO.ACP]), sacp.tolist()))
    if rnp.abs(rnp.asarray(info[INFO.AFP]) - sacp / 9.0).max() > 1e-9:
        bad.append("INFO AFP %s vs sum(ACP)/sum(ploidy) %s (ploidies 2,3,4)" % (rnp.round(info[INFO.AFP], 5).tolist(), rnp.round(sacp / 9.0, 5).tolist()))
    pn = rnp.ones(nA)
    for s in aop:
        pn = pn * (1 - aop[s])
    if rnp.abs(rnp.asarray(info[INFO.AOP]) - (1 - pn)).max() > 1e-9:
        bad.append("INFO AOP %s vs 1-prod(1-p) %s" % (list(info[INFO.AOP]), (1 - pn).tolist()))
    return bool(bad), "; ".join(bad) if bad else "summary fields agree with the recount on the real code"


class _OneShot:
    """minimal Collector for the replay"""

    def __init__(self):
        self.fails = []
        self.stats = E.Stats()

    def path(self, n=1):
        pass

    def reachable(self, ctx):
        return True

    def ok(self, desc=None):
        pass

    def fail(self, site, kind, shape=None, witness=None, desc=None, model=None):
        self.fails.append((kind, desc, witness))

    def check(self, *a, **k):
        return True


def validate(seed):
    """vcfstr / record formatting: shadow-loaded vs real on random values"""
    import random
    from mchap.io.vcf import util as ru

    E.use_summaries(True)
    E.reset_modules()
    E.cfg.concrete_ints = True
    E.cfg.concrete_floats = True
    su = E.load("mchap.io.vcf.util")
    rnd = random.Random(seed)
    n = 0
    for _ in range(30):
        x = rnd.choice([rnp.array([rnd.random() for _ in range(3)]), rnp.array([1.0, 0.0, float("nan")]), rnp.array([rnd.randint(0, 9) for _ in range(4)]),
                        rnd.random(), float("nan"), None, "", "PASS", [1, 2], rnp.array([])])
        assert su.vcfstr(x) == ru.vcfstr(x), x
        n += 1
    E.cfg.concrete_floats = False
    return n
