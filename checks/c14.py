"""C14 -- posterior summaries are exact functionals of the retained trace."""
import collections
import itertools
import math
from fractions import Fraction

import numpy as rnp
import z3

from nbsym import engine as E
from oracle import models as M

ID = "C14"
TITLE = "trace.posterior()/mode/support/allele frequencies/G array/incongruence are the functionals of the empirical distribution of the steps retained after exactly the requested burn-in, independent of within-genotype order"
TECHNIQUE = 'symbolic probabilities over fixed genotype lists discharged by z3; plus solver-driven exhaustive enumeration of bounded traces (byte-keyed multiset code realises symbolic values) against an exact-rational oracle'
ENCODED = ["mchap.assemble.classes.GenotypeMultiTrace.__post_init__", "mchap.assemble.classes.GenotypeMultiTrace.burn", "mchap.assemble.classes.GenotypeMultiTrace.posterior",
           "mchap.assemble.classes.GenotypeMultiTrace.replicate_incongruence", "mchap.assemble.classes.PosteriorGenotypeDistribution.mode_genotype_support",
           "mchap.assemble.classes.PosteriorGenotypeDistribution.allele_frequencies", "mchap.assemble.classes.GenotypeSupportDistribution.mode_genotype",
           "mchap.calling.classes.GenotypeAllelesMultiTrace.burn", "mchap.calling.classes.GenotypeAllelesMultiTrace.posterior",
           "mchap.calling.classes.GenotypeAllelesMultiTrace.posterior_frequencies", "mchap.calling.classes._posterior_frequencies",
           "mchap.calling.classes.GenotypeAllelesMultiTrace.replicate_incongruence", "mchap.calling.classes.PosteriorGenotypeAllelesDistribution.mode",
           "mchap.calling.classes.PosteriorGenotypeAllelesDistribution.as_array", "mchap.calling.utils.posterior_as_array",
           "mchap.mset.unique_counts", "mchap.mset.unique", "mchap.mset.count", "mchap.encoding.integer.sequence.sort"]
STUBS = []
ASSUMES = ["the multiset layer keys on ndarray.tobytes() (a C boundary): trace entries, burn-in and row orders are integer variables the solver enumerates exhaustively inside the bound (realised_at: tobytes); the verdict is per realised trace against an independent exact-rational empirical-distribution oracle",
           "call traces are stored sorted by the sampler (calling.mcmc.compound_step sorts; checked in C02); assemble traces are fed in arbitrary row order"]
BOUNDS = {"quick": "call traces: 2 chains x 2 steps x ploidy 2 x 3 alleles, burn 0..1; assemble traces: 2 chains x 2 steps x ploidy 2 x 1 SNV (2 alleles) x 2 row orders, and 1 chain x 2 steps x ploidy 2 x 2 SNVs",
          "thorough": "call traces 2 chains x 3 steps x ploidy 2 x 3 alleles and 1 x 3 x ploidy 3 x 2; assemble 2 x 3 steps x 1 SNV with 3 alleles, 1 x 3 x 2 SNVs; burn 0..2"}
OUTSIDE = "longer traces; decimal rendering"
TASKS_PER_CHILD = 2
LEVEL_TEXT = ("Solver-driven exhaustive enumeration of a bounded trace space (the byte-keyed multiset code realises symbolic values), each realised trace checked against an exact-rational oracle; "
              "the jitted frequency loop is executed on the same traces. Weaker than the symbolic checks: stated in evidence.")


def configs(tier):
    out = []
    # call-pedigree: every individual's summaries come from its own slice of the padded pedigree trace (mixed ploidies), with and
    # without a masked reference (relabelling of the sampler's allele indices)
    for masked in (False, True):
        out.append(dict(kind="prog-wiring", group="wiring", prog="call-pedigree", order=3, masked=masked))
    # posterior-level functionals with SYMBOLIC probabilities over a concrete genotype list (no tobytes on the probabilities)
    for P, A in (((3, 2), (2, 3)) if tier == "quick" else ((3, 2), (2, 3), (4, 2), (3, 3))):
        out.append(dict(kind="post", which="call", P=P, A=A))
    for name in (("tet2", "dupes") if tier == "quick" else ("tet2", "dupes", "dip2", "mixed")):
        out.append(dict(kind="post", which="asm", scenario=name))
    if tier == "quick":
        for g0 in M.genotypes(3, 2):
            out.append(dict(kind="call", chains=2, steps=2, P=2, A=3, burns=[0, 1], first=list(g0)))
        for g0 in range(4):
            out.append(dict(kind="asm", chains=2, steps=2, P=2, B=1, A=2, burns=[0, 1], first=g0))
        for g0 in range(16):
            out.append(dict(kind="asm", chains=1, steps=2, P=2, B=2, A=2, burns=[0, 1], first=g0))
    else:
        for g0 in M.genotypes(3, 2):
            for g1 in M.genotypes(3, 2):
                out.append(dict(kind="call", chains=2, steps=3, P=2, A=3, burns=[0, 1, 2], first=list(g0), second=list(g1)))
        for g0 in M.genotypes(2, 3):
            out.append(dict(kind="call", chains=1, steps=3, P=3, A=2, burns=[0, 1, 2], first=list(g0)))
        for g0 in range(9):
            for g1 in range(9):
                out.append(dict(kind="asm", chains=2, steps=3, P=2, B=1, A=3, burns=[0, 2], first=g0, second=g1))
        for g0 in range(16):
            out.append(dict(kind="asm", chains=1, steps=3, P=2, B=2, A=2, burns=[0, 1, 2], first=g0))
    return out


def weight(c):
    return 5 if c["kind"] == "post" else 1


def run_config(c, col):
    E.use_summaries(True)
    E.reset_modules()
    E.cfg.concrete_ints = True
    if c["kind"] == "prog-wiring":
        from checks import wiring

        return wiring.run(c, col)
    E.cfg.concrete_floats = True
    import warnings

    warnings.simplefilter("ignore")
    prof = E.Profile()
    with prof:
        if c["kind"] == "post":
            E.cfg.concrete_floats = False
            _run_post(c, col)
        else:
            (_run_call if c["kind"] == "call" else _run_asm)(c, col)
    col.functions |= set(prof.names())
    E.cfg.concrete_floats = False


# ------------------------------------------------------------------ oracles (exact rationals)


def _empirical(rows):
    cnt = collections.Counter(rows)
    n = sum(cnt.values())
    return {g: Fraction(k, n) for g, k in cnt.items()}


def _support_mode(dist, support_of):
    sup = collections.defaultdict(Fraction)
    for g, p in dist.items():
        sup[support_of(g)] += p
    best = max(sup.values())
    return sup, best


def _eq(a, b):
    return abs(float(a) - float(b)) < 1e-12


# ------------------------------------------------------------------ call traces


def _drive_call(cc, g, burn, hist, A):
    """the operations under test on a call trace (shared by the symbolic run on the shadow module and the replay on the real one)"""
    ch, st = g.shape[:2]
    trace = cc.GenotypeAllelesMultiTrace(g, rnp.zeros((ch, st)), A)
    # history: the summaries must be functionals of the retained steps whatever was asked of the objects before
    if hist & 1:  # the un-burnt trace is queried first
        trace.posterior().mode(genotype_support=True)
        trace.posterior_frequencies()
        trace.replicate_incongruence(threshold=0.6)
    if hist & 2 and burn >= 1:  # burn-in removed in two stages, and everything asked twice
        tb = trace.burn(1)
        tb.posterior()
        tb = tb.burn(burn - 1)
        tb.posterior().as_array(A)
        tb.posterior_frequencies()
    else:
        tb = trace.burn(burn)
    post = tb.posterior()
    return dict(post_g=[tuple(int(a) for a in r) for r in post.genotypes], post_p=[float(x) for x in post.probabilities],
                mode=post.mode(), mode_s=post.mode(genotype_support=True), arr=post.as_array(A), freqs=tb.posterior_frequencies(),
                inc=tb.replicate_incongruence(threshold=0.6), g=g, burn=burn, hist=hist)


def _drive_asm(ac, g, burn, hist):
    ch, st = g.shape[:2]
    trace = ac.GenotypeMultiTrace(g, rnp.zeros((ch, st)))
    if hist & 1:  # the un-burnt trace is queried first
        trace.posterior().mode_genotype_support().mode_genotype()
        trace.posterior().allele_frequencies(dosage=True)
        trace.replicate_incongruence(threshold=0.6)
    if hist & 2 and burn >= 1:  # burn-in removed in two stages, and everything asked twice
        tb = trace.burn(1)
        tb.posterior()
        tb = tb.burn(burn - 1)
        tb.posterior().allele_frequencies()
    else:
        tb = trace.burn(burn)
    post = tb.posterior()
    sup = post.mode_genotype_support()
    return dict(post_g=[tuple(tuple(int(a) for a in h) for h in gg) for gg in post.genotypes], post_p=[float(x) for x in post.probabilities],
                sup_g=[tuple(tuple(int(a) for a in h) for h in gg) for gg in sup.genotypes], sup_p=[float(x) for x in sup.probabilities],
                mode=sup.mode_genotype(), af=post.allele_frequencies(), afd=post.allele_frequencies(dosage=True),
                inc=tb.replicate_incongruence(threshold=0.6), g=g, burn=burn, hist=hist)


def _run_call(c, col):
    cc = E.load("mchap.calling.classes")
    site = "mchap.calling.classes.GenotypeAllelesMultiTrace"
    ch, st, P, A = c["chains"], c["steps"], c["P"], c["A"]
    genos = M.genotypes(A, P)

    def body(ctx):
        idx = []
        for k in range(ch * st):
            if k == 0:
                idx.append(genos.index(tuple(c["first"])))
            elif k == 1 and "second" in c:
                idx.append(genos.index(tuple(c["second"])))
            else:
                idx.append(int(E.SymInt(E.fresh_int(ctx, "t%d" % k, 0, len(genos) - 1))))
        burn = int(E.SymInt(E.fresh_int(ctx, "burn", min(c["burns"]), max(c["burns"]))))
        g = rnp.array([genos[i] for i in idx], dtype=rnp.int8).reshape(ch, st, P)
        hist = int(E.SymInt(E.fresh_int(ctx, "hist", 0, 3)))
        res = _drive_call(cc, g, burn, hist, A)
        return res

    first = True
    for pr in E.explore(body, stats=col.stats):
        if pr.exc is not None:
            col.fail(site, "exception", witness=dict(exc=repr(pr.exc), model=E.model_dict(E.prove(pr.ctx, False).model)), desc="raised %r" % (pr.exc,))
            continue
        col.path()
        if first:
            col.reachable(pr.ctx)
            first = False
        r = pr.value
        problems = _check_call(c, r)
        if problems:
            col.fail(site, problems[0][0], witness=dict(trace=r["g"].tolist(), burn=r["burn"], hist=r["hist"], problems=[p[1] for p in problems][:3]), desc=problems[0][1])
        else:
            col.ok("call trace summaries == empirical-distribution oracle (trace and burn-in solver-enumerated)")


def _check_call(c, r):
    ch, st, P, A = c["chains"], c["steps"], c["P"], c["A"]
    g, burn = r["g"], r["burn"]
    rows = [tuple(int(a) for a in g[i, s]) for i in range(ch) for s in range(burn, st)]
    dist = _empirical(rows)
    problems = []
    got = dict(zip(r["post_g"], r["post_p"]))
    if set(got) != set(dist) or len(r["post_g"]) != len(dist) or any(not _eq(got[k], dist[k]) for k in dist):
        problems.append(("posterior", "posterior() %s != empirical %s" % (got, {k: float(v) for k, v in dist.items()})))
    mg, mp = r["mode"]
    if not _eq(mp, max(dist.values())) or not _eq(dist.get(tuple(int(a) for a in mg), -1), mp):
        problems.append(("mode", "mode() is not a maximiser with its probability"))
    sg, sp, ssp = r["mode_s"]
    sup, best = _support_mode(dist, lambda x: tuple(sorted(set(x))))
    sg = tuple(int(a) for a in sg)
    if not _eq(ssp, best) or not _eq(sup[tuple(sorted(set(sg)))], best) or not _eq(sp, dist.get(sg, -1)) or \
            not _eq(sp, max(p for x, p in dist.items() if tuple(sorted(set(x))) == tuple(sorted(set(sg))))):
        problems.append(("mode-support", "mode(genotype_support=True) != (best genotype of the best support, its prob, support prob)"))
    order = M.vcf_order(A, P)
    arr = [float(x) for x in r["arr"]]
    if len(arr) != len(order) or any(not _eq(arr[i], dist.get(gg, 0)) for i, gg in enumerate(order)):
        problems.append(("g-array", "as_array != probabilities in VCF genotype order"))
    fr, cn, oc = r["freqs"]
    for a in range(A):
        wc = sum(p * x.count(a) for x, p in dist.items())
        wo = sum(p for x, p in dist.items() if a in x)
        if not (_eq(cn[a], wc) and _eq(fr[a], wc / P) and _eq(oc[a], wo)):
            problems.append(("allele-frequencies", "posterior_frequencies()[%d] = %s/%s/%s expected %s/%s/%s" % (a, fr[a], cn[a], oc[a], float(wc / P), float(wc), float(wo))))
            break
    # incongruence: per-chain best supports reaching the threshold
    sets = []
    for i in range(ch):
        d = _empirical([tuple(int(a) for a in g[i, s]) for s in range(burn, st)])
        sup, best = _support_mode(d, lambda x: tuple(sorted(set(x))))
        if best >= Fraction(6, 10):
            # the mode genotype of the best support (ties: any) -- use its allele multiset as the class does
            cands = [x for x, p in d.items() if sup[tuple(sorted(set(x)))] == best]
            top = max(d[x] for x in cands)
            sets.append([x for x in cands if d[x] == top])
    want = set()
    for combo in itertools.product(*sets) if sets else [()]:
        distinct = set(combo)
        if len(distinct) > 1:
            want.add(2 if len(set(a for x in combo for a in x)) > P else 1)
        else:
            want.add(0)
    if int(r["inc"]) not in want:
        problems.append(("incongruence", "replicate_incongruence = %s expected one of %s" % (r["inc"], sorted(want))))
    return problems


# ------------------------------------------------------------------ assemble traces


def _run_asm(c, col):
    ac = E.load("mchap.assemble.classes")
    site = "mchap.assemble.classes.GenotypeMultiTrace"
    ch, st, P, B, A = c["chains"], c["steps"], c["P"], c["B"], c["A"]
    haps = list(itertools.product(range(A), repeat=B))
    ordered = list(itertools.product(range(len(haps)), repeat=P))  # ordered genotypes (row order matters to the input only)

    def body(ctx):
        idx = []
        for k in range(ch * st):
            if k == 0:
                idx.append(c["first"] % len(ordered))
            elif k == 1 and "second" in c:
                idx.append(c["second"] % len(ordered))
            else:
                idx.append(int(E.SymInt(E.fresh_int(ctx, "t%d" % k, 0, len(ordered) - 1))))
        burn = int(E.SymInt(E.fresh_int(ctx, "burn", min(c["burns"]), max(c["burns"]))))
        g = rnp.array([[haps[h] for h in ordered[i]] for i in idx], dtype=rnp.int8).reshape(ch, st, P, B)
        hist = int(E.SymInt(E.fresh_int(ctx, "hist", 0, 3)))
        res = _drive_asm(ac, g, burn, hist)
        return res

    first = True
    for pr in E.explore(body, stats=col.stats):
        if pr.exc is not None:
            col.fail(site, "exception", witness=dict(exc=repr(pr.exc), model=E.model_dict(E.prove(pr.ctx, False).model)), desc="raised %r" % (pr.exc,))
            continue
        col.path()
        if first:
            col.reachable(pr.ctx)
            first = False
        r = pr.value
        problems = _check_asm(c, r)
        if problems:
            col.fail(site, problems[0][0], witness=dict(trace=r["g"].tolist(), burn=r["burn"], hist=r["hist"], problems=[p[1] for p in problems][:3]), desc=problems[0][1])
        else:
            col.ok("assemble trace summaries == empirical distribution of sorted genotypes (trace, row order and burn-in solver-enumerated)")


def _check_asm(c, r):
    ch, st, P = c["chains"], c["steps"], c["P"]
    g, burn = r["g"], r["burn"]

    def canon(x):
        return tuple(sorted(tuple(int(a) for a in h) for h in x))

    rows = [canon(g[i, s]) for i in range(ch) for s in range(burn, st)]
    dist = _empirical(rows)
    problems = []
    got = {canon(k): v for k, v in zip(r["post_g"], r["post_p"])}
    if len(r["post_g"]) != len(dist) or set(got) != set(dist) or any(not _eq(got[k], dist[k]) for k in dist):
        problems.append(("posterior", "posterior() != empirical distribution of the retained (order-normalised) genotypes"))
    sup, best = _support_mode(dist, lambda x: tuple(sorted(set(x))))
    sgot = {canon(k): v for k, v in zip(r["sup_g"], r["sup_p"])}
    if sgot:
        s0 = tuple(sorted(set(next(iter(sgot)))))
        wantset = {x: p for x, p in dist.items() if tuple(sorted(set(x))) == s0}
        if not _eq(sup[s0], best) or set(sgot) != set(wantset) or any(not _eq(sgot[k], wantset[k]) for k in wantset):
            problems.append(("mode-support", "mode_genotype_support() is not the best-supported allele set with its genotypes"))
        mg, mp = r["mode"]
        if not wantset:
            problems.append(("mode-support", "mode_genotype_support() reports genotypes that do not occur among the retained steps"))
        elif not _eq(mp, max(wantset.values())) or not _eq(wantset.get(canon(mg), -1), mp):
            problems.append(("mode", "mode_genotype() is not the most probable genotype of the support"))
    for (uh, uf, uo), dosage in ((r["af"], False), (r["afd"], True)):
        seen = set()
        for h, f_, o_ in zip(uh, uf, uo):
            h = tuple(int(a) for a in h)
            seen.add(h)
            wf = sum(p * x.count(h) for x, p in dist.items())
            wo = sum(p for x, p in dist.items() if h in x)
            if not (_eq(f_, wf if dosage else wf / P) and _eq(o_, wo)):
                problems.append(("allele-frequencies", "allele_frequencies(dosage=%s) wrong for %s" % (dosage, h)))
        if seen != {h for x in dist for h in x}:
            problems.append(("allele-frequencies", "allele_frequencies lists the wrong haplotypes"))
    sets = []
    for i in range(ch):
        d = _empirical([canon(g[i, s]) for s in range(burn, st)])
        sp, b = _support_mode(d, lambda x: tuple(sorted(set(x))))
        if b >= Fraction(6, 10):
            sets.append([k for k, v in sp.items() if v == b])
    want = set()
    for combo in itertools.product(*sets) if sets else [()]:
        if len(set(combo)) > 1:
            # the class compares "alleles" = unique haplotypes of the mode support; > ploidy distinct haplotypes => 2
            want.add(2 if len(set(h for s_ in combo for h in s_)) > len(combo[0]) else 1)
        else:
            want.add(0)
    if int(r["inc"]) not in want:
        problems.append(("incongruence", "replicate_incongruence = %s expected one of %s" % (r["inc"], sorted(want))))
    return problems


# ------------------------------------------------------------------ symbolic probabilities


def _run_post(c, col):
    """mode / mode-support / allele frequencies as functionals of ANY probability vector over a fixed genotype list"""
    if c["which"] == "call":
        cc = E.load("mchap.calling.classes")
        genos = [tuple(g) for g in M.genotypes(c["A"], c["P"])]
        site = "mchap.calling.classes.PosteriorGenotypeAllelesDistribution.mode"
        support_of = lambda g: tuple(sorted(set(g)))
    else:
        from checks import c13

        ac = E.load("mchap.assemble.classes")
        genos = [tuple(tuple(h) for h in g) for g in c13.SCENARIOS[c["scenario"]][0]]
        site = "mchap.assemble.classes.PosteriorGenotypeDistribution.mode_genotype_support"
        support_of = lambda g: tuple(sorted(set(g)))

    def body(ctx):
        ps = [z3.Real("p%d" % i) for i in range(len(genos) - 1)]
        ps.append(1 - (z3.Sum(ps) if len(ps) > 1 else ps[0]))
        for p in ps:
            ctx.assume(p >= 0)
        if c["which"] == "call":
            post = cc.PosteriorGenotypeAllelesDistribution(rnp.array(genos, dtype=rnp.int8), E.real_array(ps))
            g, gp, sp = post.mode(genotype_support=True)
            g = tuple(int(a) for a in g)
            g0, gp0 = post.mode()
            return ps, g, gp, sp, tuple(int(a) for a in g0), gp0
        post = ac.PosteriorGenotypeDistribution(rnp.array(genos, dtype=rnp.int8), E.real_array(ps))
        sup = post.mode_genotype_support()
        g, gp = sup.mode_genotype()
        g = tuple(tuple(int(a) for a in h) for h in g)
        g0, gp0 = post.mode()
        return ps, g, gp, sup.probabilities.sum(), tuple(tuple(int(a) for a in h) for h in g0), gp0

    first = True
    for pr in E.explore(body, stats=col.stats):
        if pr.exc is not None:
            col.fail(site, "exception", witness=dict(exc=repr(pr.exc)), desc="raised %r" % (pr.exc,))
            continue
        col.path()
        ctx = pr.ctx
        if first:
            col.reachable(ctx)
            first = False
        ps, g, gp, sp, g0, gp0 = pr.value
        prob = {}
        for gg, p in zip(genos, ps):
            prob[gg] = prob.get(gg, z3.RealVal(0)) + p  # duplicated genotype rows add up
        sups = {}
        for gg, p in zip(genos, ps):
            sups.setdefault(support_of(gg), []).append(p)
        tot = {k: z3.Sum(v) if len(v) > 1 else v[0] for k, v in sups.items()}
        mine = support_of(g)
        w = dict(mode_support_genotype=g, mode=g0)
        col.check(ctx, z3.And([tot[mine] >= t for t in tot.values()] + [E.real_term(sp) == tot[mine]]), site, "mode-support", witness=w,
                  desc="the reported support has maximal total probability and SPM is that total (symbolic probabilities)")
        same = [p for gg, p in zip(genos, ps) if support_of(gg) == mine]
        col.check(ctx, z3.And([E.real_term(gp) >= p for p in same] + [z3.Or([E.real_term(gp) == p for gg, p in zip(genos, ps) if gg == g])]), site, "mode-within-support", witness=w,
                  desc="the reported genotype is the most probable genotype of that support and GPM is its probability")
        col.check(ctx, z3.And([E.real_term(gp0) >= p for p in ps] + [z3.Or([E.real_term(gp0) == p for gg, p in zip(genos, ps) if gg == g0])]), site, "mode", witness=w,
                  desc="mode() is a maximiser with its probability")


# ------------------------------------------------------------------ replay (the same computation on the real classes)


def replay(v):
    import warnings

    c = v["config"]
    if c["kind"] == "prog-wiring":
        from checks import wiring

        return wiring.replay_real(v, wiring.run)
    w = v["witness"]
    warnings.simplefilter("ignore")
    if c["kind"] == "post":
        return _replay_post(v)
    g = rnp.array(w["trace"], dtype=rnp.int8)
    burn = w["burn"]
    try:
        if c["kind"] == "call":
            from mchap.calling import classes as rcc

            r = _drive_call(rcc, g, burn, int(w.get("hist", 0)), c["A"])
            problems = _check_call(c, r)
        else:
            from mchap.assemble import classes as rac

            r = _drive_asm(rac, g, burn, int(w.get("hist", 0)))
            problems = _check_asm(c, r)
    except Exception as e:
        return v["kind"] == "exception", "real classes raised %r on trace %s burn %d" % (e, g.tolist(), burn)
    return bool(problems), "trace=%s burn=%d history=%s: %s" % (g.tolist(), burn, w.get("hist", 0), [p[1] for p in problems][:2])


def _replay_post(v):
    c = v["config"]
    m = v.get("model") or {}
    if c["which"] == "call":
        from mchap.calling import classes as rcc

        genos = [tuple(g) for g in M.genotypes(c["A"], c["P"])]
    else:
        from checks import c13
        from mchap.assemble import classes as rac

        genos = [tuple(tuple(h) for h in g) for g in c13.SCENARIOS[c["scenario"]][0]]
    ps = [float(m.get("p%d" % i, 0.0)) for i in range(len(genos) - 1)]
    ps.append(1.0 - sum(ps))
    support_of = lambda g: tuple(sorted(set(g)))
    tot = {}
    for gg, p in zip(genos, ps):
        tot[support_of(gg)] = tot.get(support_of(gg), 0.0) + p
    if c["which"] == "call":
        post = rcc.PosteriorGenotypeAllelesDistribution(rnp.array(genos, dtype=rnp.int8), rnp.array(ps))
        g, gp, sp = post.mode(genotype_support=True)
        g = tuple(int(a) for a in g)
    else:
        post = rac.PosteriorGenotypeDistribution(rnp.array(genos, dtype=rnp.int8), rnp.array(ps))
        sup = post.mode_genotype_support()
        g, gp = sup.mode_genotype()
        g = tuple(tuple(int(a) for a in h) for h in g)
        sp = sup.probabilities.sum()
    best = max(tot.values())
    bad = tot[support_of(g)] < best - 1e-9 or abs(sp - tot[support_of(g)]) > 1e-9
    return bad, "probabilities %s over %s: reported genotype %s (GPM %.4f, SPM %.4f) but the best support has total %.4f" % (
        [round(p, 4) for p in ps], genos, g, gp, sp, best)


def validate(seed):
    """shadow-loaded classes vs real classes on random traces"""
    import random
    from mchap.calling import classes as rcc

    E.use_summaries(True)
    E.reset_modules()
    E.cfg.concrete_ints = True
    E.cfg.concrete_floats = True
    cc = E.load("mchap.calling.classes")
    rnd = random.Random(seed)
    n = 0
    for _ in range(10):
        ch, st, P, A = rnd.randint(1, 3), rnd.randint(2, 5), rnd.randint(2, 3), rnd.randint(2, 4)
        g = rnp.array([[sorted(rnd.randrange(A) for _ in range(P)) for _ in range(st)] for _ in range(ch)], dtype=rnp.int8)
        b = rnd.randint(0, st - 1)
        a = rcc.GenotypeAllelesMultiTrace(g, rnp.zeros((ch, st)), A).burn(b)
        s = cc.GenotypeAllelesMultiTrace(g, rnp.zeros((ch, st)), A).burn(b)
        assert rnp.allclose(a.posterior().as_array(A), s.posterior().as_array(A))
        for x, y in zip(a.posterior_frequencies(), s.posterior_frequencies()):
            assert rnp.allclose(x, y)
        n += 1
    E.cfg.concrete_floats = False
    return n
