"""C05 -- genotype priors are proper distributions and mutually consistent."""
import itertools

import numpy as rnp
import z3

from nbsym import engine as E
from oracle import models as M

ID = "C05"
TITLE = "call/assemble genotype priors sum to one, equal the (Dirichlet-)multinomial oracle, allele prior is the exact conditional"
ENCODED = [
    "mchap.calling.prior.log_genotype_prior", "mchap.calling.prior.log_genotype_allele_prior",
    "mchap.calling.prior.calculate_alphas", "mchap.assemble.prior.log_genotype_prior",
    "mchap.assemble.prior.log_dirichlet_multinomial_pmf", "mchap.assemble.prior.log_genotype_null_prior",
    "mchap.jitutils.ln_equivalent_permutations", "mchap.calling.utils.allelic_dosage", "mchap.calling.utils.count_allele",
]
STUBS = []
ASSUMES = ["inbreeding F in (0,1) symbolic or exactly 0; frequencies > 0 symbolic summing to one, or with one entry exactly 0",
           "numba's lgamma(0) = +inf (Python's math.lgamma raises); the zero-frequency obligations rely on it and are replayed on the jitted code"]
BOUNDS = {
    "quick": "ploidy 2..4 x alleles 2..3 and ploidy 8, 12, 13 x 2 alleles; assemble prior: ploidy <=4 and 12, symbolic number of haplotypes U",
    "thorough": "ploidy 2..6 x alleles 2..4 and ploidy 8..24 x 2 alleles; assemble prior: ploidy <=6, 8, 12, 13, symbolic U",
}


def configs(tier):
    out = []
    P = (2, 3, 4) if tier == "quick" else (2, 3, 4, 5, 6)
    A = (2, 3) if tier == "quick" else (2, 3, 4)
    for p in P:
        for a in A:
            if tier != "quick" and p >= 6 and a >= 4:
                continue
            for inbred in (True, False):
                for fmode in ("flat", "sym", "zero"):
                    out.append(dict(kind="call", ploidy=p, alleles=a, inbred=inbred, freqs=fmode))
        for inbred in (True, False):
            out.append(dict(kind="assemble", ploidy=p, inbred=inbred))
    # high ploidies with two alleles (pooled samples reach them): cheap -- ploidy + 1 genotypes -- and they cross any
    # small-argument fast path / lookup table inside the factorial and permutation helpers
    for p in ((8, 12, 13) if tier == "quick" else (8, 12, 13, 16, 20, 24)):
        for inbred in (True, False):
            for fmode in ("flat", "sym"):
                out.append(dict(kind="call", ploidy=p, alleles=2, inbred=inbred, freqs=fmode))
    for p in ((12,) if tier == "quick" else (8, 12, 13)):
        for inbred in (True, False):
            out.append(dict(kind="assemble", ploidy=p, inbred=inbred))
    # the K the assemble prior is evaluated with: the sampler must hand every move ln(number of possible haplotypes), also for
    # loci with >= 2**63 of them (shared with C01's orchestration group)
    from checks import c01

    for nal in c01.ORCH_WIDE_NAMES:
        out.append(dict(kind="orch", group="orch", nal=nal, ploidy=2))
    return out


def weight(c):
    return c["ploidy"] ** c.get("alleles", 2)


def _setup(ctx, c):
    F = E.fresh_real(ctx, "F", 0, 1) if c["inbred"] else None
    nA = c["alleles"]
    if c["freqs"] == "flat":
        fz = [z3.RealVal(1) / nA] * nA
        farr = None
    elif c["freqs"] == "sym":
        fz = E.simplex(ctx, "f", nA)
        farr = E.real_array(fz)
    else:  # last allele has frequency exactly zero
        fz = (E.simplex(ctx, "f", nA - 1) if nA > 1 else []) + [0]
        farr = E.real_array([t if z3.is_expr(t) else 0.0 for t in fz])
    return F, fz, farr


def run_config(c, col):
    E.use_summaries(True)
    E.reset_modules()
    if c["kind"] == "orch":
        from checks import c01

        return c01._run_orch(c, col)
    if c["kind"] == "assemble":
        return _run_assemble(c, col)
    cp = E.load("mchap.calling.prior")
    nA, P = c["alleles"], c["ploidy"]
    genos = M.genotypes(nA, P)

    def body(ctx):
        F, fz, farr = _setup(ctx, c)
        Fv = E.SymReal(F) if F is not None else 0
        vals = {}
        for g in genos:
            lp = cp.log_genotype_prior(E.np.array(list(g)), nA, inbreeding=Fv, frequencies=farr)
            vals[g] = E.exp_term(lp)
        cond = {}
        for g in genos:
            for k in range(P):
                if k > 0 and g[k] == g[k - 1]:
                    continue
                if c["freqs"] == "zero" and g[k] == nA - 1:
                    continue  # conditional given an impossible state is undefined
                if c["freqs"] == "zero" and (nA - 1) in g:
                    continue
                la = cp.log_genotype_allele_prior(E.np.array(list(g)), k, nA, inbreeding=Fv, frequencies=farr)
                cond[(g, k)] = E.exp_term(la)
        return F, fz, vals, cond

    with E.Profile() as prof:
        first = True
        for pr in E.explore(body, stats=col.stats):
            if pr.exc is not None:
                raise pr.exc
            col.path()
            ctx = pr.ctx
            F, fz, vals, cond = pr.value
            if first:
                col.reachable(ctx)
                first = False
            shape = dict(inbred=c["inbred"], freqs=c["freqs"])
            col.check(ctx, z3.Sum(list(vals.values())) == 1, "mchap.calling.prior.log_genotype_prior", "sum-to-one",
                      shape=shape, witness=dict(genotypes=genos), desc="sum_g exp(log_genotype_prior(g)) == 1 [P=%d A=%d %s %s]" % (P, nA, c["freqs"], "F" if c["inbred"] else "F=0"))
            for g in genos:
                col.check(ctx, vals[g] == M.genotype_prior(g, fz, F), "mchap.calling.prior.log_genotype_prior", "pmf-vs-oracle",
                          shape=shape, witness=dict(genotype=g), desc="prior(%s) == oracle %s pmf" % (g, "DM" if c["inbred"] else "multinomial"))
            for (g, k), v in cond.items():
                num = M.genotype_prior(g, fz, F) / M.perms(g)
                den = 0
                for b in range(nA):
                    g2 = tuple(sorted(g[:k] + (b,) + g[k + 1:]))
                    den = den + M.genotype_prior(g2, fz, F) / M.perms(g2)
                col.check(ctx, v * den == num, "mchap.calling.prior.log_genotype_allele_prior", "allele-conditional",
                          shape=shape, witness=dict(genotype=g, k=k), desc="allele prior(g=%s,k=%d) == exact conditional of genotype prior" % (g, k))
    col.functions |= set(prof.names())


def _dosages(P):
    out = set()

    def rec(rem, mx, cur):
        if rem == 0:
            out.add(tuple(cur))
            return
        for d in range(min(rem, mx), 0, -1):
            rec(rem - d, d, cur + [d])

    rec(P, P, [])
    return sorted(out)


def _run_assemble(c, col):
    ap = E.load("mchap.assemble.prior")
    cp = E.load("mchap.calling.prior")
    P = c["ploidy"]

    def body(ctx):
        F = E.fresh_real(ctx, "F", 0, 1) if c["inbred"] else None
        Fv = E.SymReal(F) if F is not None else 0
        U = E.fresh_real(ctx, "U", 1, None, lo_strict=False)
        res = []
        for part in _dosages(P):
            dosage = E.np.array(list(part) + [0] * (P - len(part)))
            la = ap.log_genotype_prior(dosage, E.np.log(E.SymReal(U)), Fv)
            g = []
            for i, d in enumerate(part):
                g += [i] * d
            lc = cp.log_genotype_prior(E.np.array(g), E.SymReal(U), inbreeding=Fv, frequencies=None)
            res.append((part, tuple(g), E.exp_term(la), E.exp_term(lc)))
        return F, U, res

    with E.Profile() as prof:
        first = True
        for pr in E.explore(body, stats=col.stats):
            if pr.exc is not None:
                raise pr.exc
            col.path()
            F, U, res = pr.value
            if first:
                col.reachable(pr.ctx)
                first = False
            for part, g, va, vc in res:
                shape = dict(inbred=c["inbred"])
                col.check(pr.ctx, va == vc, "mchap.assemble.prior.log_genotype_prior", "assemble-vs-call-flat", shape=shape,
                          witness=dict(dosage=part), desc="assemble prior(dosage=%s, U) == call prior(flat over U haplotypes)" % (part,))
                flat = [z3.RealVal(1) / U] * len(part)
                col.check(pr.ctx, va == M.genotype_prior(g, {i: 1 / U for i in range(len(part))}, F), "mchap.assemble.prior.log_genotype_prior",
                          "pmf-vs-oracle", shape=shape, witness=dict(dosage=part), desc="assemble prior(dosage=%s, U) == oracle pmf with f=1/U" % (part,))
    col.functions |= set(prof.names())


# ------------------------------------------------------------------ replay on the real code


def _real_inputs(v):
    c = v["config"]
    m = v.get("model") or {}
    F = float(m.get("F", 0.3)) if c.get("inbred") else 0.0
    return c, m, F


def replay(v):
    import math
    from mchap.calling import prior as rp
    from mchap.assemble import prior as ra

    if v["config"]["kind"] == "orch":
        from checks import c01

        return c01._replay_orch(v)
    c, m, F = _real_inputs(v)
    if c["kind"] == "assemble":
        U = float(m.get("U", 4.0))
        part = v["witness"]["dosage"]
        P = c["ploidy"]
        dosage = rnp.array(list(part) + [0] * (P - len(part)))
        a = ra.log_genotype_prior(dosage, math.log(U), F)
        g = []
        for i, d in enumerate(part):
            g += [i] * d
        # oracle numerically
        val = _num_prior(tuple(g), [1.0 / U] * len(part), F if c["inbred"] else None)
        b = rp.log_genotype_prior(rnp.array(g), U, F, None) if v["kind"] == "assemble-vs-call-flat" else math.log(val)
        bad = abs(math.exp(a) - math.exp(b)) > 1e-6 * max(1e-300, abs(math.exp(b)))
        return bad, "assemble prior=%r other=%r (U=%r F=%r dosage=%r)" % (math.exp(a), math.exp(b), U, F, part)
    nA, P = c["alleles"], c["ploidy"]
    if c["freqs"] == "flat":
        f = [1.0 / nA] * nA
        farr = None
    else:
        n_sym = nA if c["freqs"] == "sym" else nA - 1
        f = [float(m.get("f%d" % i, 1.0 / n_sym)) for i in range(n_sym - 1)]
        f.append(1.0 - sum(f))
        if c["freqs"] == "zero":
            f.append(0.0)
        farr = rnp.array(f)
    Fo = F if c["inbred"] else None
    if v["kind"] == "sum-to-one":
        tot = sum(math.exp(rp.log_genotype_prior(rnp.array(g), nA, F, farr)) for g in M.genotypes(nA, P))
        return abs(tot - 1) > 1e-6, "sum of priors = %r (F=%r f=%r)" % (tot, F, f)
    g = tuple(v["witness"]["genotype"])
    if v["kind"] == "pmf-vs-oracle":
        a = math.exp(rp.log_genotype_prior(rnp.array(g), nA, F, farr))
        b = _num_prior(g, f, Fo)
        return abs(a - b) > 1e-6 * max(abs(b), 1e-12), "prior(%s)=%r oracle=%r (F=%r f=%r)" % (g, a, b, F, f)
    if v["kind"] == "allele-conditional":
        k = v["witness"]["k"]
        a = math.exp(rp.log_genotype_allele_prior(rnp.array(g), k, nA, F, farr))
        num = _num_prior(g, f, Fo) / M.perms(g)
        den = 0.0
        for b_ in range(nA):
            g2 = tuple(sorted(g[:k] + (b_,) + g[k + 1:]))
            den += _num_prior(g2, f, Fo) / M.perms(g2)
        return abs(a - num / den) > 1e-6 * max(num / den, 1e-12), "allele prior=%r exact conditional=%r (g=%s k=%d F=%r f=%r)" % (a, num / den, g, k, F, f)
    return False, "unknown kind"


def _num_prior(g, f, F):
    import math

    r = float(M.perms(g))
    if F is None:
        for a in g:
            r *= f[a]
        return r
    s = (1 - F) / F
    for a, d in M.counts(g).items():
        for i in range(d):
            r *= f[a] * s + i
    for i in range(len(g)):
        r /= s + i
    return r


def validate(seed):
    """engine vs real jitted code on concrete inputs"""
    import math
    import random
    from mchap.calling import prior as rp
    from mchap.assemble import prior as ra

    E.use_summaries(True)
    E.reset_modules()
    cp = E.load("mchap.calling.prior")
    ap = E.load("mchap.assemble.prior")
    rnd = random.Random(seed)
    n = 0
    for _ in range(12):
        nA = rnd.randint(2, 4)
        P = rnd.randint(2, 5)
        g = sorted(rnd.randrange(nA) for _ in range(P))
        F = rnd.choice([0.0, round(rnd.uniform(0.05, 0.9), 3)])
        f = [rnd.uniform(0.1, 1) for _ in range(nA)]
        f = [x / sum(f) for x in f]
        farr = rnd.choice([None, rnp.array(f)])
        real = rp.log_genotype_prior(rnp.array(g), nA, F, farr)

        def body(ctx):
            fa = None if farr is None else E.real_array([E.symfloat(repr(x)) for x in f])
            return E.to_float(cp.log_genotype_prior(E.np.array(g), nA, inbreeding=E.symfloat(repr(F)) if F else 0, frequencies=fa))

        vals = [pr.value for pr in E.explore(body)]
        assert len(vals) == 1 and abs(vals[0] - real) < 1e-9 * max(1, abs(real)), (g, F, f, vals, real)
        k = rnd.randrange(P)
        real = rp.log_genotype_allele_prior(rnp.array(g), k, nA, F, farr)

        def body2(ctx):
            fa = None if farr is None else E.real_array([E.symfloat(repr(x)) for x in f])
            return E.to_float(cp.log_genotype_allele_prior(E.np.array(g), k, nA, inbreeding=E.symfloat(repr(F)) if F else 0, frequencies=fa))

        vals = [pr.value for pr in E.explore(body2)]
        assert len(vals) == 1 and abs(vals[0] - real) < 1e-9 * max(1, abs(real)), (g, F, vals, real)
        n += 2
        dos = rnd.choice(_dosages(P))
        dosage = list(dos) + [0] * (P - len(dos))
        lu = math.log(rnd.randint(len(dos), 64))
        real = ra.log_genotype_prior(rnp.array(dosage), lu, F)

        def body3(ctx):
            return E.to_float(ap.log_genotype_prior(E.np.array(dosage), E.symfloat(repr(lu)), E.symfloat(repr(F)) if F else 0))

        vals = [pr.value for pr in E.explore(body3)]
        assert len(vals) == 1 and abs(vals[0] - real) < 1e-9 * max(1, abs(real)), (dosage, lu, F, vals, real)
        n += 1
    return n
