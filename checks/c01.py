"""C01 -- every assemble move leaves the tempered posterior invariant (detailed balance,
multiset dependence, exchange move, orchestration)."""
import collections
import itertools

import numpy as rnp
import z3

from nbsym import engine as E
from oracle import models as M

ID = "C01"
TITLE = "[+ wiring of fit()/_mcmc/_denovo_assembler with symbolic inbreeding] base_step / interval_step (recombination, dosage) / chain swap satisfy detailed balance w.r.t. (L*prior)^T on unordered genotypes; kernels depend on the genotype as a multiset; orchestration passes each chain its own temperature"
ENCODED = [
    "mchap.assemble.mutation.base_step", "mchap.assemble.structural.interval_step",
    "mchap.assemble.structural.recombination_step_options", "mchap.assemble.structural.recombination_step_n_options",
    "mchap.assemble.structural.dosage_step_options", "mchap.assemble.structural.dosage_step_n_options",
    "mchap.assemble.structural.haplotype_segment_labels", "mchap.assemble.structural._label_haplotypes",
    "mchap.assemble.structural._interval_inverse_mask", "mchap.jitutils.structural_change",
    "mchap.jitutils.get_haplotype_dosage", "mchap.jitutils.count_haplotype_copies", "mchap.jitutils.array_equal",
    "mchap.assemble.prior.log_genotype_prior", "mchap.assemble.tempering.chain_swap_acceptance",
    "mchap.assemble.tempering.chain_swap_step", "mchap.assemble.mcmc._denovo_assembler",
]
STUBS = ["log_likelihood_cached / log_likelihood_structural_change_cached -> ln L(multiset) with one positive real variable per genotype multiset (the read model is C04/C09)",
         "random_choice -> captures the probability vector and forces each index in turn",
         "np.random.rand -> solver-chosen u in [0,1); orchestration: compound steps / chain_swap_step replaced by recorders"]
ASSUMES = ["L(X) > 0 for every genotype (CLI refuses a zero error rate)", "inverse temperature T symbolic in (0,1]; F symbolic in (0,1) or exactly 0",
           "the target's prior factor is the repo's own assemble prior, which C05 proves equal to the Dirichlet-multinomial oracle",
           "x^T modelled by fresh positive variables per atom (multiplicative homomorphism only; sound over-approximation)"]
BOUNDS = {
    "quick": "all genotypes of ploidy 2 with SNV alleles [2,2] and [2,3], ploidy 3 with [2,2]; every (h,j,allele), every interval, both structural step types; exchange with symbolic temperatures",
    "thorough": "adds ploidy 3 [2,3], [2,2,2]; ploidy 4 [2,2], [2,3]",
}
OUTSIDE = "larger ploidy / SNV counts; the read model (C04); float rounding; ergodicity"
WIRING = "orchestration and class-wiring groups: _denovo_assembler -> compound steps / exchange, and DenovoMCMC.fit/_mcmc -> _homozygosity_probabilities / _denovo_assembler, are run with recorders bound through the real callees' signatures: every call must carry the sampler's own symbolic inbreeding, log_unique_haplotypes, reads, counts, non-fixed sites, step probabilities, cache threshold and the temperature ladder sorted ascending"
TASKS_PER_CHILD = 4

QUICK = [(2, [2, 2]), (2, [2, 3]), (3, [2, 2])]
# (ploidy 4 with three bi-allelic SNVs -- 330 genotypes -- was tried: it alone needs > 25 min on 16 cores and is left out; ploidy 6 with
# two bi-allelic SNVs was half of the tier's cost (tier > 45 min on the loaded sandbox) and was sized out as well)
THOROUGH = QUICK + [(3, [2, 3]), (3, [2, 2, 2]), (4, [2, 2]), (4, [2, 3])]
CHUNK = 6


def _haps(nal):
    return list(itertools.product(*[range(a) for a in nal]))


def _genos(P, nal):
    return list(itertools.combinations_with_replacement(_haps(nal), P))


def configs(tier):
    out = []
    for P, nal in (QUICK if tier == "quick" else THOROUGH):
        n = len(_genos(P, nal))
        for inbred in (True, False):
            for group in ("base", "rec", "dos"):
                if P == 6 and group == "base" and inbred:
                    pass
                for lo in range(0, n, CHUNK):
                    out.append(dict(group=group, P=P, nal=nal, inbred=inbred, lo=lo, hi=min(n, lo + CHUNK)))
    out.append(dict(group="swap"))
    out.append(dict(group="orch"))
    for nal in ORCH_WIDE_NAMES:  # loci with >= 2**63 possible haplotypes: the size of the haplotype space reaches every move as its logarithm
        out.append(dict(group="orch", nal=nal))
    out.append(dict(group="class-wiring", cls="denovo"))  # DenovoMCMC.fit/_mcmc -> _homozygosity_probabilities / _denovo_assembler
    out.append(dict(group="cli-attrs", prog="assemble"))  # argv -> program attributes (inbreeding, temperatures, step probabilities, thresholds, seed)
    return out


def weight(c):
    if c["group"] in ("swap", "orch", "class-wiring", "cli-attrs"):
        return 1
    return c["P"] ** 3 * len(c["nal"]) * (3 if c["group"] != "base" else 1) * (2 if c["inbred"] else 1)


def key_of(g):
    return tuple(sorted(tuple(int(v) for v in row) for row in g))


def lname(key):
    return "L_" + "_".join("".join(map(str, r)) for r in key)


def llvar(g):
    return z3.Real(lname(key_of(g)))


def dosage_of(g):
    c = collections.Counter(tuple(int(v) for v in r) for r in g)
    d = sorted(c.values(), reverse=True)
    return rnp.array(d + [0] * (len(g) - len(d)))


def perms_of(g):
    return M.perms(key_of(g))


class Harness:
    def __init__(self):
        E.use_summaries(True)
        E.reset_modules()
        E.cfg.concrete_ints = True
        self.mut = E.load("mchap.assemble.mutation")
        self.st = E.load("mchap.assemble.structural")
        self.prior = E.load("mchap.assemble.prior")
        self.ju = E.load("mchap.jitutils")
        self.cap = {}
        ju = self.ju
        cap = self.cap

        def stub_llk_cached(reads, genotype, read_counts=None, cache=None):
            v = llvar(genotype)
            E.Ctx.cur.assume(v > 0)
            cap.setdefault("llk_calls", []).append(key_of(genotype))
            return E.np.log(E.SymReal(v)), cache

        def stub_llk_sc(reads, genotype, haplotype_indices, interval=None, read_counts=None, cache=None):
            g = genotype.copy()
            ju.structural_change(g, haplotype_indices, interval)
            v = llvar(g)
            E.Ctx.cur.assume(v > 0)
            return E.np.log(E.SymReal(v)), cache

        def stub_choice(probs):
            cap["p"] = probs.copy()
            return cap["force"]

        self.mut.log_likelihood_cached = stub_llk_cached
        self.st.log_likelihood_structural_change_cached = stub_llk_sc
        self.mut.random_choice = stub_choice
        self.st.random_choice = stub_choice

    def llk(self, g):
        v = llvar(g)
        E.Ctx.cur.assume(v > 0)
        return E.np.log(E.SymReal(v))

    def pi(self, g, lu, Fv, Ts):
        """(L(g) * prior(g))^T as a z3 term"""
        pr = self.prior.log_genotype_prior(dosage_of(g), lu, Fv)
        return E.exp_term((self.llk(g) + pr) * Ts)

    def base_kernel(self, x, h, j, nal, lu, Fv, Ts, force):
        g = x.copy()
        self.cap["force"] = force
        self.cap.pop("p", None)
        llk_out, _ = self.mut.base_step(g, None, self.llk(x), h, j, nal[j], lu, inbreeding=Fv, temp=Ts)
        return self.cap["p"], g, llk_out

    def interval_kernel(self, x, iv, step_type, lu, Fv, Ts):
        """dict multiset-key -> list of probability terms; plus the stay probability and carried llks"""
        out = collections.defaultdict(list)
        g = x.copy()
        self.cap["force"] = 10 ** 6
        self.cap.pop("p", None)
        self.st.interval_step(g, None, self.llk(x), lu, inbreeding=Fv, interval=iv, step_type=step_type, temp=Ts)
        if "p" not in self.cap:
            return out, None, []
        n = len(self.cap["p"]) - 1
        stay = self.cap["p"][n]
        carried = []
        for k in range(n):
            g = x.copy()
            self.cap["force"] = k
            llk_out, _ = self.st.interval_step(g, None, self.llk(x), lu, inbreeding=Fv, interval=iv, step_type=step_type, temp=Ts)
            out[key_of(g)].append(self.cap["p"][k])
            carried.append((g, llk_out))
        return out, stay, carried


def _setup(ctx, c, tmode="sym"):
    if tmode == "sym":
        T = E.fresh_real(ctx, "T", 0, 1, hi_strict=False)
        Ts = E.SymReal(T)
    else:
        Ts = 1
    Fv = E.SymReal(E.fresh_real(ctx, "F", 0, 1)) if c["inbred"] else 0
    lu = E.np.log(E.np.array(c["nal"], dtype=float)).sum()
    return Ts, Fv, lu


def _sumterms(ts):
    if not ts:
        return z3.RealVal(0)
    r = E.real_term(ts[0])
    for t in ts[1:]:
        r = r + E.real_term(t)
    return r


def run_config(c, col):
    if c.get("group") in ("class-wiring", "loop-wiring", "cli-attrs"):
        from checks import wiring

        E.use_summaries(True)
        return {"class-wiring": wiring.run_class, "loop-wiring": wiring.run_loop, "cli-attrs": wiring.run_cli_attrs}[c["group"]](c, col)
    if c["group"] == "swap":
        return _run_swap(c, col)
    if c["group"] == "orch":
        return _run_orch(c, col)
    H = Harness()
    P, nal = c["P"], c["nal"]
    B = len(nal)
    genos = _genos(P, nal)[c["lo"]:c["hi"]]
    shape0 = dict(group=c["group"], inbred=c["inbred"])
    prof = E.Profile()
    first = [True]

    def once(ctx):
        if first[0]:
            col.reachable(ctx)
            first[0] = False

    def check_with_exact_witness(body_fn, emit):
        """run body under symbolic T; obligations that come back sat are re-run with T = 1 to obtain an
        exact (non over-approximated) witness when one exists"""
        for tmode in ("sym",):
            for pr in E.explore(lambda ctx: body_fn(ctx, tmode), stats=col.stats):
                if pr.exc is not None:
                    col.fail("mchap.assemble." + ("mutation.base_step" if c["group"] == "base" else "structural.interval_step"), "exception",
                             shape=shape0, witness=dict(exc=repr(pr.exc), info=getattr(pr.ctx, "notes", {})), desc="raised %r" % (pr.exc,))
                    continue
                col.path()
                once(pr.ctx)
                emit(pr.ctx, pr.value, tmode)

    with prof:
        if c["group"] == "base":
            site = "mchap.assemble.mutation.base_step"
            for G in genos:
                for h in range(P):
                    if h > 0 and G[h] == G[h - 1]:
                        continue
                    for j in range(B):
                        def body(ctx, tmode, G=G, h=h, j=j):
                            Ts, Fv, lu = _setup(ctx, c, tmode)
                            x = rnp.array(G, dtype=rnp.int8)
                            res = []
                            px0 = None
                            for i in range(nal[j]):
                                if i == G[h][j]:
                                    continue
                                px, y, llk_y = H.base_kernel(x, h, j, nal, lu, Fv, Ts, i)
                                py, back, llk_b = H.base_kernel(y, h, j, nal, lu, Fv, Ts, int(x[h, j]))
                                assert (back == x).all()
                                res.append((i, px, y, py, llk_y))
                                px0 = px
                            # equivariance: rotate rows
                            xr = rnp.roll(x, 1, axis=0)
                            pr_, _, _ = H.base_kernel(xr, (h + 1) % P, j, nal, lu, Fv, Ts, int(x[h, j]))
                            return x, Ts, Fv, lu, res, px0, pr_

                        def emit(ctx, val, tmode, G=G, h=h, j=j):
                            x, Ts, Fv, lu, res, px0, pr_ = val
                            pix = H_pi(ctx, H, x, lu, Fv, Ts)
                            w0 = dict(G=G, h=h, j=j)
                            tot = _sumterms(list(px0))
                            col.check(ctx, tot == 1, site, "probabilities-sum", shape=shape0, witness=w0, desc="base_step: probabilities sum to one")
                            col.check(ctx, z3.And([E.real_term(p) >= 0 for p in px0]), site, "probabilities-nonneg", shape=shape0, witness=w0, desc="base_step: probabilities >= 0")
                            for (i, px, y, py, llk_y) in res:
                                piy = H_pi(ctx, H, y, lu, Fv, Ts)
                                lhs = pix * E.real_term(px[i]) * perms_of(y)
                                rhs = piy * E.real_term(py[int(x[h, j])]) * perms_of(x)
                                col.check(ctx, lhs == rhs, site, "detailed-balance", shape=shape0, witness=dict(G=G, h=h, j=j, i=i),
                                          desc="base_step DB: rho(x) p_x[i] == rho(y) p_y[x_hj], rho = (L*prior)^T / perms  [P=%d alleles=%s]" % (P, nal))
                                col.check(ctx, E.exp_term(llk_y) == llvar(y), site, "carried-llk", shape=shape0, witness=dict(G=G, h=h, j=j, i=i),
                                          desc="base_step returns the llk of the new genotype")
                            col.check(ctx, z3.And([E.real_term(a) == E.real_term(b) for a, b in zip(px0, pr_)]), site, "multiset-equivariance", shape=shape0, witness=w0,
                                      desc="base_step kernel unchanged when haplotype rows are rotated (h mapped along)")

                        check_with_exact_witness(body, emit)
        else:
            site = "mchap.assemble.structural.interval_step"
            step_type = 0 if c["group"] == "rec" else 1
            intervals = [(a, b) for a in range(B) for b in range(a + 1, B + 1)]
            for G in genos:
                for iv in intervals:
                    def body(ctx, tmode, G=G, iv=iv):
                        Ts, Fv, lu = _setup(ctx, c, tmode)
                        x = rnp.array(G, dtype=rnp.int8)
                        iva = rnp.array(iv)
                        Kx, stay, carried = H.interval_kernel(x, iva, step_type, lu, Fv, Ts)
                        res = []
                        for ykey, ps in Kx.items():
                            y = rnp.array(ykey, dtype=rnp.int8)
                            Ky, _, _ = H.interval_kernel(y, iva, step_type, lu, Fv, Ts)
                            res.append((ykey, ps, Ky.get(key_of(x), [])))
                        # equivariance under row rotation and a transposition
                        eq = []
                        for xs in (rnp.roll(x, 1, axis=0), x[[1, 0] + list(range(2, P))]):
                            Ks, stay_s, _ = H.interval_kernel(xs, iva, step_type, lu, Fv, Ts)
                            eq.append((Ks, stay_s))
                        return x, Ts, Fv, lu, Kx, stay, carried, res, eq

                    def emit(ctx, val, tmode, G=G, iv=iv):
                        x, Ts, Fv, lu, Kx, stay, carried, res, eq = val
                        w0 = dict(G=G, interval=iv, step_type=step_type)
                        if stay is not None:
                            allp = [p for ps in Kx.values() for p in ps] + [stay]
                            col.check(ctx, _sumterms(allp) == 1, site, "probabilities-sum", shape=shape0, witness=w0, desc="interval_step: probabilities sum to one")
                            col.check(ctx, z3.And([E.real_term(p) >= 0 for p in allp]), site, "probabilities-nonneg", shape=shape0, witness=w0, desc="interval_step: probabilities >= 0")
                        pix = H_pi(ctx, H, x, lu, Fv, Ts)
                        for ykey, ps, back in res:
                            y = rnp.array(ykey, dtype=rnp.int8)
                            if ykey == key_of(x):
                                col.fail(site, "option-equals-current", shape=shape0, witness=dict(w0, Y=ykey), desc="an option reproduces the current genotype")
                                continue
                            piy = H_pi(ctx, H, y, lu, Fv, Ts)
                            col.check(ctx, pix * _sumterms(ps) == piy * _sumterms(back), site, "detailed-balance", shape=shape0, witness=dict(w0, Y=ykey, n_fwd=len(ps), n_back=len(back)),
                                      desc="interval_step(type %d) multiset DB: pi_T(X) K(X->Y) == pi_T(Y) K(Y->X)  [P=%d alleles=%s]" % (step_type, P, nal))
                        for (g2, llk_out) in carried:
                            col.check(ctx, E.exp_term(llk_out) == llvar(g2), site, "carried-llk", shape=shape0, witness=w0, desc="interval_step returns the llk of the new genotype")
                        for (Ks, stay_s) in eq:
                            keys = set(Kx) | set(Ks)
                            cl = [(_sumterms(Kx.get(k, [])) == _sumterms(Ks.get(k, []))) for k in keys]
                            if cl:
                                col.check(ctx, z3.And(cl), site, "multiset-equivariance", shape=shape0, witness=w0,
                                          desc="interval_step kernel (as a map on multisets) unchanged under a permutation of haplotype rows")
                            elif (stay is None) != (stay_s is None):
                                col.fail(site, "multiset-equivariance", shape=shape0, witness=w0, desc="option set differs under row permutation")

                    check_with_exact_witness(body, emit)
    col.functions |= set(prof.names())


def H_pi(ctx, H, g, lu, Fv, Ts):
    E.Ctx.cur = ctx  # pi is built after exploration: allow assume() on the finished path context
    try:
        return H.pi(g, lu, Fv, Ts)
    finally:
        E.Ctx.cur = None


# ------------------------------------------------------------------ exchange move


def _run_swap(c, col):
    E.use_summaries(True)
    E.reset_modules()
    E.cfg.concrete_ints = True
    tp = E.load("mchap.assemble.tempering")
    site = "mchap.assemble.tempering.chain_swap_acceptance"
    prof = E.Profile()
    with prof:
        def body(ctx):
            Ti = E.fresh_real(ctx, "Ti", 0, 1, hi_strict=False)
            Tj = E.fresh_real(ctx, "Tj", 0, 1)
            ctx.assume(Ti > Tj)
            vs = {}
            for n in ("Lx", "Ly", "Px", "Py"):
                vs[n] = E.fresh_real(ctx, n, 0)
            lx, ly = E.np.log(E.SymReal(vs["Lx"])), E.np.log(E.SymReal(vs["Ly"]))
            px, py = E.np.log(E.SymReal(vs["Px"])), E.np.log(E.SymReal(vs["Py"]))
            A_xy = tp.chain_swap_acceptance(lx, px, E.SymReal(Ti), ly, py, E.SymReal(Tj))
            A_yx = tp.chain_swap_acceptance(ly, py, E.SymReal(Ti), lx, px, E.SymReal(Tj))
            pi = lambda l, p, T: E.exp_term((l + p) * E.SymReal(T))
            return A_xy, A_yx, pi(lx, px, Ti), pi(ly, py, Tj), pi(ly, py, Ti), pi(lx, px, Tj)

        first = True
        for pr in E.explore(body, stats=col.stats):
            if pr.exc is not None:
                raise pr.exc
            col.path()
            if first:
                col.reachable(pr.ctx)
                first = False
            A_xy, A_yx, pxi, pyj, pyi, pxj = pr.value
            a, b = E.real_term(A_xy), E.real_term(A_yx)
            col.check(pr.ctx, pxi * pyj * a == pyi * pxj * b, site, "exchange-detailed-balance",
                      desc="pi_Ti(x) pi_Tj(y) A(x,y) == pi_Ti(y) pi_Tj(x) A(y,x) for symbolic Ti > Tj")
            col.check(pr.ctx, z3.And(a >= 0, a <= 1), site, "acceptance-range", desc="0 <= A <= 1")

        # chain_swap_step: priors from the right genotypes, contents and llks swapped together
        pri = E.load("mchap.assemble.prior")
        for (gi, gj) in [(((0, 0), (0, 1)), ((0, 1), (1, 1))), (((0, 0), (0, 0), (1, 1)), ((0, 1), (1, 0), (1, 1)))]:
            for inbred in (True, False):
                def body2(ctx, gi=gi, gj=gj, inbred=inbred):
                    Ti = E.fresh_real(ctx, "Ti", 0, 1, hi_strict=False)
                    Tj = E.fresh_real(ctx, "Tj", 0, 1)
                    ctx.assume(Ti > Tj)
                    Fv = E.SymReal(E.fresh_real(ctx, "F", 0, 1)) if inbred else 0
                    Li, Lj = E.fresh_real(ctx, "Li", 0), E.fresh_real(ctx, "Lj", 0)
                    u = E.fresh_real(ctx, "u", 0, 1, lo_strict=False)
                    tp.np.random = type("R", (), {"rand": staticmethod(lambda: E.SymReal(u))})()
                    a_i = rnp.array(gi, dtype=rnp.int8)
                    a_j = rnp.array(gj, dtype=rnp.int8)
                    lu = E.np.log(E.np.array([2, 2], dtype=float)).sum()
                    li, lj = E.np.log(E.SymReal(Li)), E.np.log(E.SymReal(Lj))
                    ri, rj = tp.chain_swap_step(a_i, li, E.SymReal(Ti), a_j, lj, E.SymReal(Tj), lu, inbreeding=Fv)
                    pi_ = pri.log_genotype_prior(dosage_of(rnp.array(gi)), lu, Fv)
                    pj_ = pri.log_genotype_prior(dosage_of(rnp.array(gj)), lu, Fv)
                    A = tp.chain_swap_acceptance(li, pi_, E.SymReal(Ti), lj, pj_, E.SymReal(Tj))
                    swapped = key_of(a_i) == key_of(gj) and key_of(a_j) == key_of(gi)
                    same = key_of(a_i) == key_of(gi) and key_of(a_j) == key_of(gj)
                    return u, A, swapped, same, ri, rj, Li, Lj

                for pr in E.explore(body2, stats=col.stats):
                    if pr.exc is not None:
                        raise pr.exc
                    col.path()
                    u, A, swapped, same, ri, rj, Li, Lj = pr.value
                    s2 = "mchap.assemble.tempering.chain_swap_step"
                    w = dict(gi=gi, gj=gj, swapped=swapped)
                    if not (swapped or same):
                        col.fail(s2, "swap-contents", witness=w, desc="genotype contents neither swapped nor unchanged")
                        continue
                    a = E.real_term(A)
                    col.check(pr.ctx, (a >= u) if swapped else (a < u), s2, "swap-iff-accepted", witness=w,
                              desc="chain_swap_step swaps exactly when acceptance(priors of the right genotypes) >= u")
                    col.check(pr.ctx, z3.And(E.exp_term(ri) == (Lj if swapped else Li), E.exp_term(rj) == (Li if swapped else Lj)), s2, "swap-llks", witness=w,
                              desc="llks are swapped together with the genotypes")
    tp.np.random = E.NP.random
    col.functions |= set(prof.names())


# ------------------------------------------------------------------ orchestration


def _chain_of(arr):
    """index of the chain whose row of the (n_temps, ploidy, n_base) state array `arr` is a view of"""
    base = arr.base if arr.base is not None else arr
    while base.base is not None:
        base = base.base
    off = arr.__array_interface__["data"][0] - base.__array_interface__["data"][0]
    return off // (arr.size * arr.itemsize)


ORCH_WIDE_NAMES = ["wide2", "wide3", "mixed"]
ORCH_NAL = [2, 3]  # distinctive model parameters: every move and exchange must receive exactly these


def _orch_drive(mc, temps, steps, rand, llk0, fresh_llk, np_shim, inbreeding=0):
    """run mc._denovo_assembler with recording stubs; returns (calls, genotype_trace, llk_trace)"""
    calls = []
    marker = [0]
    reads_obj = rnp.zeros((1, len(ORCH_NAL), 3))
    counts_obj = rnp.array([3])

    def mk(tag):
        real = getattr(mc, tag).compound_step  # still the repository's function: bound before the substitution below
        real = getattr(real, "py_func", real)

        def f(genotype, reads, llk, *a, **k):
            out = fresh_llk(tag)
            marker[0] += 1
            genotype[0, 0] = marker[0]
            import inspect

            # model parameters as the real callee would bind them (its own signature and defaults)
            ba = inspect.signature(real).bind(genotype, reads, llk, *a, **k)
            ba.apply_defaults()
            b = ba.arguments
            calls.append(dict(move=tag, chain=_chain_of(genotype), llk_in=llk, temp=k.get("temp"), llk_out=out, marker=marker[0],
                              inbreeding=b.get("inbreeding"), lu=b.get("log_unique_haplotypes"), same_reads=b.get("reads") is reads_obj,
                              same_counts=b.get("read_counts") is counts_obj,
                              n_alleles=[int(x) for x in b["n_alleles"]] if "n_alleles" in b else None))
            return out, k.get("cache")
        return f

    real_swap = getattr(mc.chain_swap_step, "py_func", mc.chain_swap_step)

    def swap(*a, **k):
        import inspect

        ba = inspect.signature(real_swap).bind(*a, **k)
        ba.apply_defaults()
        b = ba.arguments
        genotype_i, genotype_j = b["genotype_i"], b["genotype_j"]
        oi, oj = fresh_llk("swi"), fresh_llk("swj")
        tmp = genotype_i.copy()
        genotype_i[:] = genotype_j
        genotype_j[:] = tmp
        calls.append(dict(move="swap", ci=_chain_of(genotype_i), cj=_chain_of(genotype_j), llk_i=b["llk_i"], llk_j=b["llk_j"], temp_i=b["temp_i"], temp_j=b["temp_j"], out_i=oi, out_j=oj,
                          inbreeding=b.get("inbreeding"), lu=b.get("log_unique_haplotypes")))
        return oi, oj

    saved = (mc.mutation.compound_step, mc.structural.compound_step, mc.chain_swap_step, mc.random_choice, mc.structural.random_breaks, mc.log_likelihood, mc.np)
    try:
        mc.mutation.compound_step = mk("mutation")
        mc.structural.compound_step = mk("structural")
        mc.chain_swap_step = swap
        mc.random_choice = lambda p: 0
        mc.structural.random_breaks = lambda n_breaks, n_base: rnp.array([[0, n_base]])
        mc.log_likelihood = lambda reads, genotype, read_counts=None: llk0
        mc.np = np_shim(rand)
        fn = getattr(mc._denovo_assembler, "py_func", mc._denovo_assembler)
        g_init = rnp.zeros((2, len(ORCH_NAL)), dtype=rnp.int8)
        g_init[0, 1] = g_init[1, 0] = 1
        gt, lt = fn(genotype=g_init, inbreeding=inbreeding, reads=reads_obj, read_counts=counts_obj,
                    n_alleles=rnp.array(ORCH_NAL, dtype=rnp.int8), steps=steps, break_dist=rnp.array([1.0]),
                    recombination_step_probability=0.5, partial_dosage_step_probability=1.0, dosage_step_probability=1.0,
                    temperatures=rnp.array(temps, dtype=float), return_heated_trace=False, llk_cache_threshold=-1)
    finally:
        (mc.mutation.compound_step, mc.structural.compound_step, mc.chain_swap_step, mc.random_choice, mc.structural.random_breaks, mc.log_likelihood, mc.np) = saved
    return calls, gt, lt


def _orch_verify(calls, temps, steps, gt, lt, llk0, eq, num, inbreeding=None, eqr=None, lu_tol=1e-9):
    """state machine over the recorded calls.  eq(a, b): claim object that llk a == llk b;
    num(x): concrete float of a temperature; eqr(a, b): claim that two plain reals are equal (model parameters).
    Returns (structural error or None, list of claims)"""
    nT = len(temps)
    if inbreeding is not None:
        import math

        lu = sum(math.log(a) for a in ORCH_NAL)  # ln of the number of possible haplotypes (a Python sum: the count itself may exceed 2**63)
        for cd in calls:
            # every move and every exchange works on the same target: same inbreeding, same haplotype-space size, same reads
            if cd.get("inbreeding") is None or cd.get("lu") is None:
                return "move %s does not receive the model parameters (inbreeding / log_unique_haplotypes)" % cd["move"], []
            if not abs(num(cd["lu"]) - lu) <= lu_tol * len(ORCH_NAL):  # (also false for nan)
                return "move %s receives log_unique_haplotypes=%r (expected ln %d = %.6f)" % (cd["move"], num(cd["lu"]), math.prod(ORCH_NAL), lu), []
            if cd["move"] != "swap" and not (cd["same_reads"] and cd["same_counts"]):
                return "move %s does not receive the sampler's reads / read counts" % cd["move"], []
            if cd.get("n_alleles") is not None and cd["n_alleles"] != ORCH_NAL:
                return "move %s receives n_alleles=%r" % (cd["move"], cd["n_alleles"]), []
    claims0 = [eqr(cd["inbreeding"], inbreeding) for cd in calls] if inbreeding is not None else []

    cur = [llk0] * nT
    mark = [None] * nT
    claims = []
    per_step = [[] for _ in range(steps)]
    # split calls into steps: each step has, per chain, >= 3 compound calls (mutation, [rec], pdos, dos) and a swap for t>0
    k = 0
    for step in range(steps):
        for t in range(nT):
            seen = []
            while k < len(calls) and calls[k]["move"] != "swap" and calls[k]["chain"] == t and not (seen and calls[k]["move"] == "mutation"):
                cdict = calls[k]
                if num(cdict["temp"]) != temps[t]:
                    return "chain %d move %s received temperature %r (expected %r)" % (t, cdict["move"], num(cdict["temp"]), temps[t]), claims
                claims.append(eq(cdict["llk_in"], cur[t]))
                cur[t] = cdict["llk_out"]
                mark[t] = cdict["marker"]
                seen.append(cdict["move"])
                k += 1
            if not seen or seen[0] != "mutation" or len(seen) < 3:
                return "chain %d step %d: unexpected move sequence %s" % (t, step, seen), claims
            if t > 0:
                if k >= len(calls) or calls[k]["move"] != "swap":
                    return "missing exchange after chain %d" % t, claims
                s = calls[k]
                k += 1
                if (s["ci"], s["cj"]) != (t, t - 1):
                    return "exchange between chains %r (expected (%d,%d))" % ((s["ci"], s["cj"]), t, t - 1), claims
                if num(s["temp_i"]) != temps[t] or num(s["temp_j"]) != temps[t - 1]:
                    return "exchange temperatures (%r,%r) expected (%r,%r)" % (num(s["temp_i"]), num(s["temp_j"]), temps[t], temps[t - 1]), claims
                claims.append(eq(s["llk_i"], cur[t]))
                claims.append(eq(s["llk_j"], cur[t - 1]))
                cur[t], cur[t - 1] = s["out_i"], s["out_j"]
                mark[t], mark[t - 1] = mark[t - 1], mark[t]
        claims.append(eq(lt[0][step], cur[nT - 1]))
        if int(gt[0][step][0, 0]) != mark[nT - 1]:
            return "trace genotype of step %d is not the cold chain's state (marker %r, expected %r)" % (step, int(gt[0][step][0, 0]), mark[nT - 1]), claims
    if k != len(calls):
        return "unconsumed calls", claims
    return None, claims0 + claims


ORCH_WIDE = {"wide2": [2] * 64, "wide3": [3] * 40 + [2], "mixed": [2] * 60 + [4, 4]}  # >= 2**63 possible haplotypes


def _run_orch(c, col):
    global ORCH_NAL
    saved_nal = ORCH_NAL
    ORCH_NAL = ORCH_WIDE.get(c.get("nal"), [2, 3])
    try:
        return _run_orch_(c, col)
    finally:
        ORCH_NAL = saved_nal


def _run_orch_(c, col):
    E.use_summaries(True)
    E.reset_modules()
    E.cfg.concrete_ints = True
    mc = E.load("mchap.assemble.mcmc")
    site = "mchap.assemble.mcmc._denovo_assembler"
    prof = E.Profile()
    with prof:
        for temps, steps in (([0.25, 1.0], 2), ([0.25, 0.5, 1.0], 1)):
            def body(ctx, temps=temps, steps=steps):
                us = []
                cnt = [0]

                def rand():
                    u = E.fresh_real(ctx, "u%d" % len(us), 0, 1, lo_strict=False)
                    us.append(u)
                    return E.SymReal(u)

                def fresh_llk(tag):
                    cnt[0] += 1
                    v = z3.Real("Lr_%d" % cnt[0])
                    ctx.assume(v > 0)
                    return E.np.log(E.SymReal(v))

                def shim(rand):
                    class S:
                        def __getattr__(self, n):
                            return getattr(E.NP, n)
                    s_ = S()
                    s_.random = type("R", (), {"rand": staticmethod(rand)})()
                    return s_

                L0 = E.fresh_real(ctx, "L0", 0)
                llk0 = E.np.log(E.SymReal(L0))
                F = E.SymReal(E.fresh_real(ctx, "F", 0, 1))
                calls, gt, lt = _orch_drive(mc, temps, steps, rand, llk0, fresh_llk, shim, inbreeding=F)
                return calls, gt, lt, llk0, F

            first = True
            for pr in E.explore(body, stats=col.stats):
                if pr.exc is not None:
                    raise pr.exc
                col.path()
                if first:
                    col.reachable(pr.ctx)
                    first = False
                calls, gt, lt, llk0, F = pr.value
                err, claims = _orch_verify(calls, temps, steps, gt, lt, llk0, lambda a, b: E.exp_term(a) == E.exp_term(b), lambda x: E.to_float(x),
                                           inbreeding=F, eqr=lambda a, b: E.real_term(a) == E.real_term(b))
                w = dict(temps=temps, steps=steps, nal=c.get("nal"))
                if err:
                    col.fail(site, "orchestration", witness=dict(w, why=err), desc=err, model=E.model_dict(E.prove(pr.ctx, False).model))
                else:
                    col.check(pr.ctx, z3.And(claims), site, "orchestration", witness=w,
                              desc="_denovo_assembler: every move of chain t gets temperatures[t] and the llk last stored for t; exchange is (t, t-1) with their temperatures/llks; every move and exchange receives the sampler's inbreeding (symbolic F), log_unique_haplotypes, reads and counts; the trace records the cold chain")
    col.functions |= set(prof.names())


# ------------------------------------------------------------------ replay (py_func with patched module globals)


def _real_kernel_base(G, h, j, nal, F, T, Lmap, force):
    import math
    from mchap.assemble import mutation as rm

    cap = {}
    g = rnp.array(G, dtype=rnp.int8)
    saved = (rm.random_choice, rm.log_likelihood_cached)

    def choice(p):
        cap["p"] = p.copy()
        return force

    def llk_cached(reads, genotype, read_counts=None, cache=None):
        return math.log(Lmap(key_of(genotype))), cache

    rm.random_choice = choice
    rm.log_likelihood_cached = llk_cached
    try:
        lu = float(rnp.log(rnp.array(nal, dtype=float)).sum())
        out, _ = rm.base_step.py_func(g, None, math.log(Lmap(key_of(G))), h, j, nal[j], lu, inbreeding=F, temp=T)
    finally:
        rm.random_choice, rm.log_likelihood_cached = saved
    return cap["p"], g, out


def _real_kernel_interval(G, iv, step_type, nal, F, T, Lmap):
    import math
    from mchap.assemble import structural as rs
    from mchap import jitutils as rj

    saved = (rs.random_choice, rs.log_likelihood_structural_change_cached)
    cap = {}

    def llk_sc(reads, genotype, haplotype_indices, interval=None, read_counts=None, cache=None):
        g = genotype.copy()
        rj.structural_change(g, haplotype_indices, interval)
        return math.log(Lmap(key_of(g))), cache

    rs.log_likelihood_structural_change_cached = llk_sc
    out = collections.defaultdict(float)
    try:
        lu = float(rnp.log(rnp.array(nal, dtype=float)).sum())

        def run(force):
            g = rnp.array(G, dtype=rnp.int8)
            cap.pop("p", None)

            def choice(p):
                cap["p"] = p.copy()
                return force

            rs.random_choice = choice
            l, _ = rs.interval_step.py_func(g, None, math.log(Lmap(key_of(G))), lu, inbreeding=F, interval=rnp.array(iv), step_type=step_type, temp=T)
            return g, l

        run(10 ** 6)
        if "p" not in cap:
            return out, None, []
        n = len(cap["p"]) - 1
        stay = float(cap["p"][n])
        carried = []
        for k in range(n):
            g, l = run(k)
            out[key_of(g)] += float(cap["p"][k])
            carried.append((key_of(g), l))
    finally:
        rs.random_choice, rs.log_likelihood_structural_change_cached = saved
    return out, stay, carried


def _real_pi(G, nal, F, T, Lmap):
    import math
    from mchap.assemble import prior as rp

    lu = float(rnp.log(rnp.array(nal, dtype=float)).sum())
    pr = rp.log_genotype_prior(dosage_of(rnp.array(G)).astype(rnp.int8), lu, F)
    return math.exp((math.log(Lmap(key_of(G))) + pr) * T)


def replay(v):
    import math

    if v["config"].get("group") in ("class-wiring", "loop-wiring", "cli-attrs"):
        from checks import wiring

        return wiring.replay_real(v, {"class-wiring": wiring.run_class, "loop-wiring": wiring.run_loop, "cli-attrs": wiring.run_cli_attrs}[v["config"]["group"]])
    c = v["config"]
    m = v.get("model") or {}
    if c["group"] in ("swap", "orch"):
        return _replay_swap(v)
    F = float(m.get("F", 0.3)) if c["inbred"] else 0.0
    T = float(m.get("T", 1.0))
    nal = c["nal"]

    def Lmap(key):
        return float(m.get(lname(key), 1.0))

    w = v["witness"]
    G = tuple(tuple(r) for r in w["G"])
    k = v["kind"]
    if c["group"] == "base":
        h, j = w["h"], w["j"]
        if k in ("probabilities-sum", "probabilities-nonneg", "multiset-equivariance"):
            i0 = [a for a in range(nal[j]) if a != G[h][j]][0]
            p, _, _ = _real_kernel_base(G, h, j, nal, F, T, Lmap, i0)
            if k == "probabilities-sum":
                return abs(p.sum() - 1) > 1e-6, "sum p = %r" % p.sum()
            if k == "probabilities-nonneg":
                return bool((p < -1e-9).any()), "p = %s" % p
            Gr = tuple(rnp.roll(rnp.array(G), 1, axis=0).tolist())
            p2, _, _ = _real_kernel_base(Gr, (h + 1) % c["P"], j, nal, F, T, Lmap, i0)
            return bool(rnp.abs(p - p2).max() > 1e-6), "p=%s rotated p=%s" % (p, p2)
        i = w["i"]
        px, y, out = _real_kernel_base(G, h, j, nal, F, T, Lmap, i)
        Y = tuple(tuple(int(a) for a in r) for r in y)
        if k == "carried-llk":
            return abs(out - math.log(Lmap(key_of(Y)))) > 1e-9, "returned llk %r vs L(new) %r" % (out, math.log(Lmap(key_of(Y))))
        py, _, _ = _real_kernel_base(Y, h, j, nal, F, T, Lmap, G[h][j])
        lhs = _real_pi(G, nal, F, T, Lmap) * px[i] * perms_of(Y)
        rhs = _real_pi(Y, nal, F, T, Lmap) * py[G[h][j]] * perms_of(G)
        bad = abs(lhs - rhs) > 1e-6 * max(abs(lhs), abs(rhs), 1e-300)
        return bad, "base_step DB lhs=%r rhs=%r (G=%s h=%d j=%d i=%d F=%r T=%r L=%s)" % (lhs, rhs, G, h, j, i, F, T, {kk: vv for kk, vv in m.items() if kk.startswith("L_")})
    iv = tuple(w["interval"])
    st = w["step_type"]
    Kx, stay, carried = _real_kernel_interval(G, iv, st, nal, F, T, Lmap)
    if k == "probabilities-sum":
        tot = sum(Kx.values()) + (stay or 0)
        return abs(tot - 1) > 1e-6, "sum = %r" % tot
    if k == "probabilities-nonneg":
        return any(p < -1e-9 for p in list(Kx.values()) + [stay or 0]), "probs %s stay %s" % (dict(Kx), stay)
    if k == "carried-llk":
        bad = [(kk, l) for kk, l in carried if abs(l - math.log(Lmap(kk))) > 1e-9]
        return bool(bad), "carried llk mismatches: %s" % bad[:2]
    if k == "option-equals-current":
        return key_of(G) in Kx, "options %s" % list(Kx)
    if k == "multiset-equivariance":
        for Gs in (tuple(rnp.roll(rnp.array(G), 1, axis=0).tolist()), tuple(rnp.array(G)[[1, 0] + list(range(2, c["P"]))].tolist())):
            Ks, stay_s, _ = _real_kernel_interval(Gs, iv, st, nal, F, T, Lmap)
            for kk in set(Kx) | set(Ks):
                if abs(Kx.get(kk, 0.0) - Ks.get(kk, 0.0)) > 1e-6:
                    return True, "K(x->%s)=%r but after row permutation %r" % (kk, Kx.get(kk, 0.0), Ks.get(kk, 0.0))
        return False, "equivariant on real code"
    Y = tuple(tuple(r) for r in w["Y"])
    Ky, _, _ = _real_kernel_interval(Y, iv, st, nal, F, T, Lmap)
    lhs = _real_pi(G, nal, F, T, Lmap) * Kx.get(key_of(Y), 0.0)
    rhs = _real_pi(Y, nal, F, T, Lmap) * Ky.get(key_of(G), 0.0)
    bad = abs(lhs - rhs) > 1e-6 * max(abs(lhs), abs(rhs), 1e-300)
    return bad, "interval_step(type %d) DB lhs=%r rhs=%r (X=%s Y=%s interval=%s F=%r T=%r)" % (st, lhs, rhs, G, Y, iv, F, T)


def alt_models(v, rnd):
    """concrete points consistent with the harness assumptions (used only to confirm a solver `sat`)"""
    m = v.get("model") or {}
    for _ in range(6):
        m2 = {}
        for k, val in m.items():
            if k.startswith("pow!") or k.startswith("expc!"):
                continue
            if k in ("T", "Ti"):
                m2[k] = rnd.choice([1.0, 0.75, 0.5])
            elif k == "Tj":
                m2[k] = rnd.choice([0.125, 0.25, 0.375])
            elif k == "F":
                m2[k] = rnd.choice([0.125, 0.25, 0.5, 0.75])
            elif k[0] in "LP":
                m2[k] = rnd.choice([0.125, 0.25, 0.5, 1.0, 2.0, 3.0, 5.0])
            else:
                m2[k] = val
        yield m2


def _replay_swap(v):
    import math
    from mchap.assemble import tempering as rt

    m = v.get("model") or {}
    k = v["kind"]
    if k in ("exchange-detailed-balance", "acceptance-range"):
        Ti, Tj = float(m.get("Ti", 1.0)), float(m.get("Tj", 0.5))
        lx, ly, px, py = (math.log(float(m.get(n, 1.0))) for n in ("Lx", "Ly", "Px", "Py"))
        a = rt.chain_swap_acceptance(lx, px, Ti, ly, py, Tj)
        b = rt.chain_swap_acceptance(ly, py, Ti, lx, px, Tj)
        if k == "acceptance-range":
            return not (0 <= a <= 1), "A=%r" % a
        lhs = math.exp((lx + px) * Ti + (ly + py) * Tj) * a
        rhs = math.exp((ly + py) * Ti + (lx + px) * Tj) * b
        return abs(lhs - rhs) > 1e-6 * max(lhs, rhs), "exchange DB lhs=%r rhs=%r Ti=%r Tj=%r" % (lhs, rhs, Ti, Tj)
    if k in ("swap-iff-accepted", "swap-llks", "swap-contents"):
        from mchap.assemble import prior as rp

        w = v["witness"]
        Ti, Tj = float(m.get("Ti", 1.0)), float(m.get("Tj", 0.5))
        F = float(m.get("F", 0.0)) if "F" in m else 0.0
        Li, Lj, u = float(m.get("Li", 1.0)), float(m.get("Lj", 2.0)), float(m.get("u", 0.5))
        gi, gj = rnp.array(w["gi"], dtype=rnp.int8), rnp.array(w["gj"], dtype=rnp.int8)
        saved = rt.np.random.rand
        lu = math.log(4.0)
        try:
            import numpy

            class R:
                rand = staticmethod(lambda: u)

            real_np = rt.np
            real_acc = rt.chain_swap_acceptance
            shim = type("NPShim", (), {"__getattr__": lambda s, n: getattr(real_np, n)})()
            shim.random = R
            rt.np = shim
            # the dispatcher of chain_swap_acceptance cannot be compiled while `np` is the shim: run its Python body
            rt.chain_swap_acceptance = getattr(real_acc, "py_func", real_acc)
            a_i, a_j = gi.copy(), gj.copy()
            ri, rj_ = rt.chain_swap_step.py_func(a_i, math.log(Li), Ti, a_j, math.log(Lj), Tj, lu, inbreeding=F)
        finally:
            rt.np = real_np
            rt.chain_swap_acceptance = real_acc
        pi_ = rp.log_genotype_prior(dosage_of(gi).astype(rnp.int8), lu, F)
        pj_ = rp.log_genotype_prior(dosage_of(gj).astype(rnp.int8), lu, F)
        A = rt.chain_swap_acceptance(math.log(Li), pi_, Ti, math.log(Lj), pj_, Tj)
        swapped = key_of(a_i) == key_of(gj) and key_of(a_j) == key_of(gi)
        if k == "swap-iff-accepted":
            return swapped != (A >= u), "swapped=%r A=%r u=%r" % (swapped, A, u)
        want = (math.log(Lj), math.log(Li)) if swapped else (math.log(Li), math.log(Lj))
        return abs(ri - want[0]) > 1e-9 or abs(rj_ - want[1]) > 1e-9, "returned llks %r want %r" % ((ri, rj_), want)
    return _replay_orch(v)


def _replay_orch(v):
    """run the real _denovo_assembler.py_func with the same recording stubs and concrete rand() values"""
    from mchap.assemble import mcmc as rm

    m = v.get("model") or {}
    temps, steps = v["witness"]["temps"], v["witness"]["steps"]
    global ORCH_NAL
    saved_nal = ORCH_NAL
    ORCH_NAL = ORCH_WIDE.get(v["witness"].get("nal") or v["config"].get("nal"), [2, 3])
    try:
        return _replay_orch_(v, m, temps, steps)
    finally:
        ORCH_NAL = saved_nal


def _replay_orch_(v, m, temps, steps):
    from mchap.assemble import mcmc as rm

    ui = [0]
    cnt = [0]

    def rand():
        ui[0] += 1
        return float(m.get("u%d" % (ui[0] - 1), 0.0))

    def fresh(tag):
        cnt[0] += 1
        return float(cnt[0])

    real_np = rm.np

    def shim(rand):
        class S:
            def __getattr__(self, n):
                return getattr(real_np, n)
        s_ = S()
        s_.random = type("R", (), {"rand": staticmethod(rand)})()
        return s_

    F = float(m.get("F", 0.375)) or 0.375
    calls, gt, lt = _orch_drive(rm, temps, steps, rand, 0.5, fresh, shim, inbreeding=F)
    err, claims = _orch_verify(calls, temps, steps, gt, lt, 0.5, lambda a, b: a == b, float, inbreeding=F, eqr=lambda a, b: float(a) == float(b),
                               lu_tol=5e-3)  # py_func: numpy's log of an int8 array is float16 (numba computes float64)
    if err:
        return True, err
    for cd in calls:
        if cd.get("inbreeding") is not None and float(cd["inbreeding"]) != F:
            return True, "%s of chain %s receives inbreeding=%r although the sampler runs with inbreeding=%r" % (cd["move"], cd.get("chain", cd.get("ci")), float(cd["inbreeding"]), F)
    if not all(claims):
        return True, "carried llk mismatch in call sequence (claim %d of %d false)" % (claims.index(False), len(claims))
    return False, "orchestration wiring as expected on the real code"


def validate(seed):
    """engine vs real py_func/jitted code on concrete inputs: probability vectors of base_step and interval_step"""
    import math
    import random

    rnd = random.Random(seed)
    H = Harness()
    n = 0
    for _ in range(6):
        P, nal = rnd.choice(THOROUGH[:6])
        G = rnd.choice(_genos(P, nal))
        F = rnd.choice([0.0, 0.25])
        T = rnd.choice([1.0, 0.5])
        Ls = {}

        def Lmap(key):
            if key not in Ls:
                Ls[key] = rnd.randint(1, 9) / 8.0
            return Ls[key]

        h, j = rnd.randrange(P), rnd.randrange(len(nal))
        i = rnd.choice([a for a in range(nal[j]) if a != G[h][j]])
        real_p, _, _ = _real_kernel_base(G, h, j, nal, F, T, Lmap, i)

        def body(ctx):
            x = rnp.array(G, dtype=rnp.int8)
            lu = E.np.log(E.np.array(nal, dtype=float)).sum()
            for key, val in list(Ls.items()):
                ctx.assume(z3.Real(lname(key)) == z3.RealVal(repr(val)))
            px, _, _ = H.base_kernel(x, h, j, nal, lu, E.symfloat(repr(F)) if F else 0, E.symfloat(repr(T)) if T != 1.0 else 1, i)
            return px

        # every L used must be pinned: run once to discover, then again
        for _round in range(2):
            vals = [pr for pr in E.explore(body)]
            for kk in set(H.cap.get("llk_calls", [])):
                Lmap(kk)
        assert len(vals) == 1 and vals[0].exc is None, vals
        env = {lname(kk): vv for kk, vv in Ls.items()}
        got = E.to_float_array(vals[0].value, env)
        assert rnp.abs(got - real_p).max() < 1e-9, (G, h, j, F, T, got, real_p)
        n += 1
    return n
