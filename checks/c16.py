"""C16 -- input allele filtering and prior-frequency options do what they say."""
import itertools
import re

import numpy as rnp
import z3

from nbsym import engine as E

ID = "C16"
TITLE = "--filter-input-haplotypes grammar is unambiguous and applies the documented comparison; failing REF is masked not removed; --prior-frequencies are the INFO values normalised over retained alleles (Float and Integer tags); masked/zero alleles never called; NOA/AF0 short-circuit"
ENCODED = ["mchap.io.filter_alleles.parse_allele_filter", "mchap.io.filter_alleles.apply_allele_filter", "mchap.io.loci.LocusPrior.from_variant_record",
           "mchap.io.loci.LocusPrior.encode_haplotypes", "mchap.application.call.program.call_sample_genotypes",
           "mchap.application.call_exact.program.call_sample_genotypes", "mchap.application.call_pedigree.program.call_sample_genotypes",
           "mchap.calling.classes.GenotypeAllelesMultiTrace.relabel", "mchap.calling.classes.GenotypeAllelesMultiTrace.posterior_frequencies",
           "mchap.calling.classes.PosteriorGenotypeAllelesDistribution.as_array"]
STUBS = ["pysam.VariantRecord -> duck-typed record (ref, alts, info mapping, header.info[field].number/type); Integer-typed INFO fields yield ints as pysam does",
         "CallingMCMC -> object whose fit() returns a real GenotypeAllelesMultiTrace over the unmasked alleles (trace chosen by the solver)",
         "the filter regex literal is read from the source and translated to a z3 regular expression (\\w taken as [A-Za-z0-9_])"]
ASSUMES = ["INFO values symbolic reals >= 0 (Float tags) or symbolic ints in 0..3 (Integer tags); filter threshold symbolic"]
BOUNDS = {"quick": "<= 2 ALT alleles, R- and A-length filter fields, all 7 accepted operator spellings; regex strings up to length 7; call masking with <= 3 alleles, ploidy 2",
          "thorough": "<= 3 ALT alleles; regex strings up to length 9"}
OUTSIDE = "pysam's own parsing of INFO values; decimal rendering of AFPRIOR"
TASKS_PER_CHILD = 3
OPS = ["=", "==", ">", ">=", "<", "<=", "!="]
DOCUMENTED = ["=", ">", "<", ">=", "<=", "!="]


def configs(tier):
    out = [dict(group="regex", maxlen=7 if tier == "quick" else 9)]
    for nalt in ((1, 2) if tier == "quick" else (1, 2, 3)):
        for kind in ("Float", "Integer"):
            out.append(dict(group="freq", nalt=nalt, kind=kind))
        for length in ("R", "A"):
            for op in OPS:
                out.append(dict(group="filter", nalt=nalt, length=length, op=op))
    for op in OPS:  # a record without ALT: the reference's own value decides (R-length field)
        out.append(dict(group="filter", nalt=0, length="R", op=op))
    for prog in ("call", "call_exact", "call_pedigree"):
        out.append(dict(group="invalid", prog=prog))
    for nA in (2, 3):
        out.append(dict(group="callmask", nA=nA))
    # call-exact (real exact code, with and without --prior-frequencies) and call-pedigree: same masking clauses at record level
    # (drivers shared with C07)
    for nA in (2, 3):
        out.append(dict(group="exact-line", nA=nA, report=2))
        out.append(dict(group="ped-line", nA=nA, report=3))
    return out


def weight(c):
    return c.get("nalt", 1) + (5 if c["group"] == "callmask" else 0)


def run_config(c, col):
    E.use_summaries(True)
    E.reset_modules()
    E.cfg.concrete_ints = True
    prof = E.Profile()
    # the programs run with warnings.simplefilter("error", RuntimeWarning) (mchap/application/baseclass.py): an unguarded 0/0 in the
    # plain-numpy record handling aborts the run.  Modelled for the record-level groups (no jitted code is executed in them).
    E.cfg.fp_error = c["group"] in ("freq", "filter", "invalid")
    try:
        _dispatch(c, col, prof)
    finally:
        E.cfg.fp_error = False
    col.functions |= set(prof.names())


def _dispatch(c, col, prof):
    with prof:
        if c["group"] in ("exact-line", "ped-line"):
            from checks import c07
            import warnings

            warnings.simplefilter("ignore")
            E.cfg.concrete_floats = True
            try:
                (c07._run_exact_line if c["group"] == "exact-line" else c07._run_ped_line)(c, col)
            finally:
                E.cfg.concrete_floats = False
        else:
            globals()["_run_" + c["group"]](c, col)


# ------------------------------------------------------------------ the regex


def _source_pattern():
    import ast
    import os

    src = open(os.path.join(E.repo_root(), "mchap/io/filter_alleles.py")).read()
    import warnings

    with warnings.catch_warnings():
        warnings.simplefilter("ignore")
        tree = ast.parse(src)
    for node in ast.walk(tree):
        if isinstance(node, ast.Assign) and getattr(node.targets[0], "id", None) == "pattern":
            return ast.literal_eval(node.value)
    raise RuntimeError("pattern literal not found")


def _to_z3(pattern):
    """translate the (small) regex dialect used by the filter pattern; returns (z3 regex, [group regexes])"""
    try:
        import re._parser as sre
        import re._constants as C
    except ImportError:  # pragma: no cover
        import sre_parse as sre
        import sre_constants as C
    groups = {}

    WORD = z3.Union(z3.Range("a", "z"), z3.Range("A", "Z"), z3.Range("0", "9"), z3.Re("_"))
    DIGIT = z3.Range("0", "9")

    def seq(items):
        rs = [one(op, av) for op, av in items]
        rs = [r for r in rs if r is not None]
        if not rs:
            return z3.Re("")
        return z3.Concat(*rs) if len(rs) > 1 else rs[0]

    def one(op, av):
        if op is C.LITERAL:
            return z3.Re(chr(av))
        if op is C.AT:
            return None  # ^ and $: whole-string match is imposed by InRe on the full string
        if op is C.IN:
            alts = []
            for o, a in av:
                if o is C.LITERAL:
                    alts.append(z3.Re(chr(a)))
                elif o is C.CATEGORY and a is C.CATEGORY_WORD:
                    alts.append(WORD)
                elif o is C.CATEGORY and a is C.CATEGORY_DIGIT:
                    alts.append(DIGIT)
                elif o is C.RANGE:
                    alts.append(z3.Range(chr(a[0]), chr(a[1])))
                else:
                    raise NotImplementedError((o, a))
            return z3.Union(*alts) if len(alts) > 1 else alts[0]
        if op is C.SUBPATTERN:
            gid, _, _, p = av
            r = seq(p)
            groups[gid] = r
            return r
        if op is C.BRANCH:
            alts = [seq(p) for p in av[1]]
            return z3.Union(*alts)
        if op in (C.MAX_REPEAT, C.MIN_REPEAT):
            lo, hi, p = av
            r = seq(p)
            if lo == 0 and hi == C.MAXREPEAT:
                return z3.Star(r)
            if lo == 1 and hi == C.MAXREPEAT:
                return z3.Plus(r)
            if lo == 0 and hi == 1:
                return z3.Option(r)
            raise NotImplementedError((lo, hi))
        raise NotImplementedError(op)

    parsed = sre.parse(pattern)
    full = seq(list(parsed))
    return full, [groups[i] for i in sorted(groups)]


def _run_regex(c, col):
    fa = E.load("mchap.io.filter_alleles")
    site = "mchap.io.filter_alleles.parse_allele_filter"
    pattern = _source_pattern()
    full, groups = _to_z3(pattern)
    if len(groups) != 3:
        col.fail(site, "regex-shape", witness=dict(pattern=pattern), desc="pattern does not have three groups")
        return
    gf, go, gv = groups
    L = c["maxlen"]

    def body(ctx):
        return True

    for pr in E.explore(body, stats=col.stats):
        col.path()
        ctx = pr.ctx
        s = z3.String("s")
        f1, o1, v1, f2, o2, v2 = [z3.String(n) for n in ("f1", "o1", "v1", "f2", "o2", "v2")]
        base = [z3.Length(s) <= L]
        col.reachable(ctx)
        # 1. unique decomposition of every accepted string
        amb = [s == z3.Concat(f1, o1, v1), s == z3.Concat(f2, o2, v2), z3.InRe(f1, gf), z3.InRe(o1, go), z3.InRe(v1, gv),
               z3.InRe(f2, gf), z3.InRe(o2, go), z3.InRe(v2, gv), z3.Or(f1 != f2, o1 != o2, v1 != v2)]
        col.check(ctx, z3.Not(z3.And(base + amb)), site, "grammar-ambiguity", witness=dict(pattern=pattern, maxlen=L), timeout=120000,
                  desc="no string (len <= %d) has two decompositions field/operator/value under the filter pattern" % L)
        # 2. the language is exactly field operator value
        col.check(ctx, z3.Implies(z3.And(base + [z3.InRe(s, full)]), z3.InRe(s, z3.Concat(gf, go, gv))), site, "grammar-language", witness=dict(pattern=pattern), timeout=120000,
                  desc="accepted strings are exactly <field><operator><value>")
        # 3. the operator group accepts every documented operator
        for op in DOCUMENTED:
            col.check(ctx, z3.InRe(z3.StringVal(op), go), site, "operator-accepted", witness=dict(op=op), desc="documented operator %r is accepted by the pattern" % op)
    # 4. parse_allele_filter on each spelling returns the documented comparison (semantics checked on symbolic numbers)
    for op in OPS + ["<>"]:
        def body2(ctx, op=op):
            x = E.fresh_real(ctx, "x")
            t = E.fresh_int(ctx, "t", 0, 9)
            field, func, value = fa.parse_allele_filter("AB_1" + op + str(int(E.SymInt(t))))
            r = func(rnp.array([E.SymReal(x)], dtype=object), value)
            return x, int(E.SymInt(t)), field, bool(r[0]), value

        for pr in E.explore(body2, stats=col.stats):
            col.path()
            if pr.exc is not None:
                if op == "<>" and isinstance(pr.exc, ValueError):
                    col.ok("'<>' is rejected with a ValueError")
                else:
                    col.fail(site, "operator-rejected", witness=dict(op=op, exc=repr(pr.exc)), desc="operator %r raised %r" % (op, pr.exc))
                continue
            x, t, field, r, value = pr.value
            sem = {"=": x == t, "==": x == t, ">": x > t, ">=": x >= t, "<": x < t, "<=": x <= t, "!=": x != t}.get(op)
            if sem is None or field != "AB_1" or value != t:
                col.fail(site, "operator-semantics", witness=dict(op=op, field=field, value=value), desc="unexpected parse result for %r" % op)
                continue
            col.check(pr.ctx, sem if r else z3.Not(sem), site, "operator-semantics", witness=dict(op=op, t=t), desc="operator %r compares the INFO value with the threshold as documented" % op)


# ------------------------------------------------------------------ stub record


class _Meta:
    def __init__(self, number, type_):
        self.number = number
        self.type = type_


class _Info(dict):
    pass


class _Header:
    def __init__(self, info):
        self.info = info


class _Record:
    def __init__(self, ref, alts, info, meta):
        self.ref = ref
        self.alts = tuple(alts) if alts else None
        self.info = _Info(info)
        self.header = _Header(meta)
        self.chrom = "chr1"
        self.start = 10
        self.stop = 10 + len(ref)
        self.id = "loc"


SEQS = ["AAA", "ACA", "AAT", "GAA"]


def _vals(ctx, kind, name, n):
    out, raw = [], []
    for i in range(n):
        if kind == "Float":
            v = E.fresh_real(ctx, "%s%d" % (name, i), 0, None, lo_strict=False)
            out.append(E.SymReal(v))
        else:
            v = E.fresh_int(ctx, "%s%d" % (name, i), 0, 3)
            out.append(E.SymInt(v))
        raw.append(v)
    return tuple(out), raw


def _run_freq(c, col):
    lo = E.load("mchap.io.loci")
    site = "mchap.io.loci.LocusPrior.from_variant_record"
    n = c["nalt"] + 1

    def body(ctx):
        vals, raw = _vals(ctx, c["kind"], "af", n)
        if c["kind"] == "Integer":
            vals = tuple(int(v) for v in vals)  # pysam hands Integer fields over as python ints
        rec = _Record(SEQS[0], SEQS[1:n], {"AFX": vals}, {"AFX": _Meta("R", c["kind"])})
        lp = lo.LocusPrior.from_variant_record(rec, frequency_tag="AFX")
        return raw, lp

    first = True
    for pr in E.explore(body, stats=col.stats):
        if pr.exc is not None:
            col.fail(site, "exception", shape=dict(kind=c["kind"], exc=type(pr.exc).__name__), witness=dict(exc=repr(pr.exc), nalt=c["nalt"]),
                     desc="from_variant_record raised %r for a %s-typed frequency tag" % (pr.exc, c["kind"]), model=E.model_dict(E.prove(pr.ctx, False).model))
            continue
        col.path()
        ctx = pr.ctx
        if first:
            col.reachable(ctx)
            first = False
        raw, lp = pr.value
        tot = z3.Sum([z3.ToReal(r) if z3.is_int(r) else r for r in raw])
        fr = lp.frequencies
        cl = []
        for i in range(n):
            r = z3.ToReal(raw[i]) if z3.is_int(raw[i]) else raw[i]
            v = E._toreal(E._z(fr[i]))
            isnan = v.nan if v.nan is not None else z3.BoolVal(False)
            cl.append(z3.If(tot > 0, z3.And(z3.Not(isnan), v.e * tot == r), isnan))
        col.check(ctx, z3.And(cl), site, "frequencies-normalised", shape=dict(kind=c["kind"]), witness=dict(nalt=c["nalt"]),
                  desc="prior frequencies == INFO values / their sum (NaN when all are zero) [%s tag, %d ALT]" % (c["kind"], c["nalt"]))


def _run_filter(c, col):
    lo = E.load("mchap.io.loci")
    site = "mchap.io.loci.LocusPrior.from_variant_record"
    nalt = c["nalt"]
    n = nalt + 1
    nobs = n if c["length"] == "R" else nalt

    def body(ctx):
        obs, raw = _vals(ctx, "Float", "x", nobs)
        fr, fraw = _vals(ctx, "Float", "af", n)
        t = E.fresh_int(ctx, "t", 0, 3)
        tv = int(E.SymInt(t))
        rec = _Record(SEQS[0], SEQS[1:n], {"FLT": obs, "AFX": fr}, {"FLT": _Meta(c["length"], "Float"), "AFX": _Meta("R", "Float")})
        lp = lo.LocusPrior.from_variant_record(rec, frequency_tag="AFX", allele_filter="FLT%s%d" % (c["op"], tv))
        return raw, fraw, tv, lp

    first = True
    for pr in E.explore(body, stats=col.stats):
        if pr.exc is not None:
            col.fail(site, "exception", shape=dict(op=c["op"]), witness=dict(exc=repr(pr.exc)), desc="raised %r" % (pr.exc,), model=E.model_dict(E.prove(pr.ctx, False).model))
            continue
        col.path()
        ctx = pr.ctx
        if first:
            col.reachable(ctx)
            first = False
        raw, fraw, tv, lp = pr.value
        op = c["op"]

        def passes(x):
            return {"=": x == tv, "==": x == tv, ">": x > tv, ">=": x >= tv, "<": x < tv, "<=": x <= tv, "!=": x != tv}[op]

        if c["length"] == "R":
            keep = [passes(x) for x in raw]
        else:
            keep = [z3.BoolVal(True)] + [passes(x) for x in raw]
        alts_out = list(lp.alts)
        kept_alt = [SEQS[i] in alts_out for i in range(1, n)]
        cl = [(keep[i] if kept_alt[i - 1] else z3.Not(keep[i])) for i in range(1, n)]
        cl.append(z3.Not(keep[0]) if lp.mask_reference_allele else keep[0])
        w = dict(op=op, length=c["length"], alts=alts_out, masked=bool(lp.mask_reference_allele), t=tv)
        if alts_out != [SEQS[i] for i in range(1, n) if kept_alt[i - 1]]:
            col.fail(site, "alt-order", witness=w, desc="retained ALT alleles reordered")
        col.check(ctx, z3.And(cl), site, "filter-semantics", shape=dict(op=op, length=c["length"]), witness=w,
                  desc="exactly the ALT alleles failing FLT%s<t> are removed; a failing REF is kept and masked [%s-length]" % (op, c["length"]))
        # frequencies: tag values over retained alleles with masked ref forced to zero, normalised
        idxs = [0] + [i for i in range(1, n) if kept_alt[i - 1]]
        vals = [(z3.RealVal(0) if (i == 0 and lp.mask_reference_allele) else fraw[i]) for i in idxs]
        tot = z3.Sum(vals) if len(vals) > 1 else vals[0]
        fr = lp.frequencies
        if len(fr) != len(idxs):
            col.fail(site, "frequency-length", witness=w, desc="frequencies length != retained alleles")
            continue
        cl2 = []
        for j in range(len(idxs)):
            v = E._toreal(E._z(fr[j]))
            isnan = v.nan if v.nan is not None else z3.BoolVal(False)
            cl2.append(z3.If(tot > 0, z3.And(z3.Not(isnan), v.e * tot == vals[j]), isnan))
        col.check(ctx, z3.And(cl2), site, "frequencies-normalised", shape=dict(op=op, length=c["length"]), witness=w,
                  desc="AFPRIOR == tag values normalised over the retained alleles (masked REF = 0; all-zero -> NaN)")


# ------------------------------------------------------------------ application level


class _Locus:
    def __init__(self, haps, freqs, mask):
        self._h = haps
        self.frequencies = freqs
        self.mask_reference_allele = mask
        self.sequence = "AAA"
        self.alts = tuple(SEQS[1: len(haps)])

    def encode_haplotypes(self):
        return self._h


def _data(mods, P, nA, locus, report=()):
    bc, FORMAT, INFO, COLUMN = mods
    fields = [FORMAT.GT, FORMAT.GQ, FORMAT.GPM, FORMAT.SPM, FORMAT.SQ, FORMAT.MCI, FORMAT.ACP, FORMAT.AFP, FORMAT.AOP, FORMAT.GP, FORMAT.GL, FORMAT.MEC, FORMAT.MECP]
    ff = [FORMAT.GT, FORMAT.GQ, FORMAT.GPM, FORMAT.SPM, FORMAT.SQ] + [getattr(FORMAT, r) for r in report]
    return bc.LocusAssemblyData(
        locus=locus, samples=["s"], sample_bams={"s": "x.bam"}, sample_ploidy={"s": P}, sample_inbreeding={"s": 0},
        read_calls={"s": rnp.zeros((1, 1), dtype=int)}, read_dists={"s": rnp.zeros((1, 1, 2))}, read_counts={"s": rnp.ones(1, dtype=int)},
        infofields=[], formatfields=ff, columndata={COLUMN.REF: None, COLUMN.ALT: None, COLUMN.FILTER: []}, infodata={}, sampledata={f: {} for f in fields}), ff


def _mods():
    import warnings

    bc = E.load("mchap.application.baseclass")
    warnings.simplefilter("ignore")
    return bc, E.load("mchap.io.vcf.formatfields"), E.load("mchap.io.vcf.infofields"), E.load("mchap.io.vcf.columns")


def _run_invalid(c, col):
    """records with no usable allele: NOA / AF0 filter and missing calls, no exception"""
    mods = _mods()
    bc, FORMAT, INFO, COLUMN = mods
    mod = E.load("mchap.application." + c["prog"])
    site = "mchap.application.%s.program.call_sample_genotypes" % c["prog"]
    cases = [("NOA", rnp.zeros((1, 1), dtype=rnp.int8), rnp.array([float("nan")]), True),   # only allele is the masked reference
             ("AF0", rnp.array([[0], [1]], dtype=rnp.int8), rnp.array([float("nan"), float("nan")]), False),  # all-zero prior
             ("NOA", rnp.array([[0], [1]], dtype=rnp.int8), rnp.array([float("nan"), float("nan")]), True)]
    for want, haps, freqs, mask in cases:
        def body(ctx):
            prog = mod.program.__new__(mod.program)
            prog.info_fields = []
            data, ff = _data(mods, 2, len(haps), _Locus(haps, E.sarray(freqs, float), mask))
            prog.format_fields = ff
            return prog.call_sample_genotypes(data)

        for pr in E.explore(body, stats=col.stats):
            w = dict(case=want, n_alleles=len(haps), mask=mask)
            if pr.exc is not None:
                col.fail(site, "invalid-record-raises", shape=dict(prog=c["prog"]), witness=dict(w, exc=repr(pr.exc.__cause__ or pr.exc)), desc="record without usable alleles aborted the run")
                continue
            col.path()
            col.reachable(pr.ctx)
            out = pr.value
            flt = list(out.columndata[COLUMN.FILTER])
            gt = [int(a) for a in out.sampledata[FORMAT.GT]["s"]]
            if not ({"NOA", "AF0"} & set(flt)) or gt != [-1, -1]:
                col.fail(site, "invalid-record-output", shape=dict(prog=c["prog"]), witness=dict(w, filter=flt, GT=gt), desc="expected NOA/AF0 filter and missing GT")
            else:
                col.ok("record without usable alleles -> %s filter, GT all missing, no exception [%s]" % (flt, c["prog"]))


def _run_callmask(c, col):
    """call.py: masked / zero-prior alleles are removed before sampling and relabelled afterwards"""
    mods = _mods()
    bc, FORMAT, INFO, COLUMN = mods
    call = E.load("mchap.application.call")
    cc = E.load("mchap.calling.classes")
    call.qual_of_prob = lambda p: 0
    call.minimum_error_correction = lambda calls, haps: rnp.zeros(1)
    site = "mchap.application.call.program.call_sample_genotypes"
    nA, P = c["nA"], 2
    haps = rnp.arange(nA).reshape(nA, 1).astype(rnp.int8)
    for zero in itertools.product((False, True), repeat=nA):
        for mask in (False, True):
            if all(zero) or (mask and all(z for z in zero[1:])):
                continue

            def body(ctx, zero=zero, mask=mask):
                fs = []
                for i in range(nA):
                    if zero[i] or (i == 0 and mask):
                        fs.append(0.0)
                    else:
                        fs.append(E.SymReal(E.fresh_real(ctx, "f%d" % i, 0, 1)))
                captured = {}

                class FakeMCMC:
                    def __init__(self, **kw):
                        captured.update(kw)

                    def fit(self, reads, read_counts):
                        n = len(captured["haplotypes"])
                        # solver-chosen trace over the unmasked alleles: 1 chain x 2 steps x ploidy
                        g = rnp.zeros((1, 2, P), dtype=rnp.int8)
                        for s in range(2):
                            a = int(E.SymInt(E.fresh_int(ctx, "g%d_0" % s, 0, n - 1)))
                            b = int(E.SymInt(E.fresh_int(ctx, "g%d_1" % s, 0, n - 1)))
                            g[0, s] = sorted((a, b))
                        return cc.GenotypeAllelesMultiTrace(g, rnp.zeros((1, 2)), n)

                call.CallingMCMC = FakeMCMC
                prog = call.program.__new__(call.program)
                prog.info_fields = []
                data, ff = _data(mods, P, nA, _Locus(haps, E.real_array(fs), mask), report=("AFP", "GP"))
                prog.format_fields = ff
                for k, v in dict(mcmc_steps=2, mcmc_chains=1, random_seed=1, mcmc_burn=0, mcmc_incongruence_threshold=0.6).items():
                    setattr(prog, k, v)
                out = prog.call_sample_genotypes(data)
                return out, captured

            for pr in E.explore(body, stats=col.stats):
                w = dict(zero=list(zero), mask=mask, nA=nA)
                if pr.exc is not None:
                    col.fail(site, "exception", shape=dict(last_masked=bool(zero[-1])), witness=dict(w, exc=repr(pr.exc.__cause__ or pr.exc)), desc="call_sample_genotypes raised %r" % (pr.exc.__cause__ or pr.exc,))
                    continue
                col.path()
                out, cap = pr.value
                banned = {i for i in range(nA) if zero[i] or (i == 0 and mask)}
                gt = [int(a) for a in out.sampledata[FORMAT.GT]["s"]]
                afp = out.sampledata[FORMAT.AFP]["s"]
                gp = out.sampledata[FORMAT.GP]["s"]
                import math

                problems = []
                if set(gt) & banned:
                    problems.append("GT uses a masked/zero-prior allele")
                if len(cap["haplotypes"]) != nA - len(banned):
                    problems.append("sampler received masked alleles")
                if len(afp) != nA:
                    problems.append("AFP length %d != %d alleles" % (len(afp), nA))
                elif any(E.to_float(afp[i]) != 0 for i in banned):
                    problems.append("non-zero AFP for a masked allele")
                if len(gp) != math.comb(nA + P - 1, P):
                    problems.append("GP length %d" % len(gp))
                if problems:
                    col.fail(site, "masked-allele-called", shape=dict(last_masked=bool(zero[-1]), what=problems[0].split(" ")[0]), witness=dict(w, GT=gt, problems=problems, model=E.model_dict(E.prove(pr.ctx, False).model)),
                             desc="; ".join(problems))
                else:
                    col.ok("masked / zero-prior alleles never reach the sampler, never appear in GT, have AFP 0; AFP/GP keep R/G length")


# ------------------------------------------------------------------ replay


def replay(v):
    """(record-level groups run as the programs do: RuntimeWarning is an error, mchap/application/baseclass.py sets that filter)"""
    import warnings

    with warnings.catch_warnings():
        if v["config"]["group"] in ("freq", "filter", "invalid"):
            warnings.simplefilter("error", RuntimeWarning)
        return _replay(v)


def _replay(v):
    c = v["config"]
    k = v["kind"]
    m = v.get("model") or {}
    w = v.get("witness") or {}
    g = c["group"]
    if g in ("exact-line", "ped-line"):
        from checks import c07

        return c07.replay(v)
    if g == "regex":
        return _replay_regex(v)
    if g in ("freq", "filter"):
        from mchap.io.loci import LocusPrior

        n = c["nalt"] + 1
        if g == "freq":
            if c["kind"] == "Integer":
                vals = tuple(int(m.get("af%d" % i, 1)) for i in range(n))
            else:
                vals = tuple(float(m.get("af%d" % i, 0.5)) for i in range(n))
            rec = _Record(SEQS[0], SEQS[1:n], {"AFX": vals}, {"AFX": _Meta("R", c["kind"])})
            try:
                lp = LocusPrior.from_variant_record(rec, frequency_tag="AFX")
            except Exception as e:
                return k == "exception", "real from_variant_record raised %r for %s tag values %s" % (e, c["kind"], vals)
            tot = float(sum(vals))
            want = [x / tot for x in vals] if tot > 0 else [float("nan")] * n
            bad = any((a != a) != (b != b) or (a == a and abs(a - b) > 1e-9) for a, b in zip(lp.frequencies, want))
            return (k != "exception") and bad, "frequencies %s want %s" % (list(lp.frequencies), want)
        nobs = n if c["length"] == "R" else c["nalt"]
        obs = tuple(float(m.get("x%d" % i, 1.0)) for i in range(nobs))
        fr = tuple(float(m.get("af%d" % i, 0.5)) for i in range(n))
        tv = int(w.get("t", m.get("t", 1)))
        rec = _Record(SEQS[0], SEQS[1:n], {"FLT": obs, "AFX": fr}, {"FLT": _Meta(c["length"], "Float"), "AFX": _Meta("R", "Float")})
        try:
            lp = LocusPrior.from_variant_record(rec, frequency_tag="AFX", allele_filter="FLT%s%d" % (c["op"], tv))
        except Exception as e:
            return k == "exception", "raised %r" % (e,)
        import operator as O

        f = {"=": O.eq, "==": O.eq, ">": O.gt, ">=": O.ge, "<": O.lt, "<=": O.le, "!=": O.ne}[c["op"]]
        keep = [f(x, tv) for x in obs] if c["length"] == "R" else [True] + [f(x, tv) for x in obs]
        want_alts = [SEQS[i] for i in range(1, n) if keep[i]]
        want_mask = not keep[0]
        idxs = [0] + [i for i in range(1, n) if keep[i]]
        vals = [0.0 if (i == 0 and want_mask) else fr[i] for i in idxs]
        tot = sum(vals)
        wantf = [x / tot for x in vals] if tot > 0 else [float("nan")] * len(vals)
        bad = list(lp.alts) != want_alts or bool(lp.mask_reference_allele) != want_mask or len(lp.frequencies) != len(wantf) or any(
            (a != a) != (b != b) or (a == a and abs(a - b) > 1e-9) for a, b in zip(lp.frequencies, wantf))
        return bad, "alts=%s mask=%s freqs=%s ; want alts=%s mask=%s freqs=%s (obs=%s t=%d)" % (list(lp.alts), lp.mask_reference_allele, list(lp.frequencies), want_alts, want_mask, wantf, obs, tv)
    if g == "invalid":
        return _replay_invalid(v)
    if g == "callmask":
        return _replay_callmask(v)
    return False, "kind?"


def _replay_regex(v):
    from mchap.io.filter_alleles import parse_allele_filter

    k = v["kind"]
    m = v.get("model") or {}
    w = v.get("witness") or {}
    if k in ("grammar-ambiguity", "grammar-language"):
        s = str(m.get("s", "")).strip('"')
        try:
            r = parse_allele_filter(s)
        except Exception as e:
            return False, "string %r rejected (%r)" % (s, e)
        pattern = _source_pattern()
        n = 0
        for i in range(1, len(s)):
            for j in range(i + 1, len(s) + 1):
                if re.fullmatch(r"\w+", s[:i]) and s[i:j] in ("=", ">", "<", "==", "!=", ">=", "<=", "<>") and re.fullmatch(r"\d*[.,]?\d*", s[j:]):
                    n += 1
        return n != 1, "string %r has %d decompositions; parsed as %r" % (s, n, r)
    if k == "operator-accepted":
        try:
            parse_allele_filter("AB" + w["op"] + "1")
            return False, "accepted"
        except Exception as e:
            return True, "documented operator %r rejected: %r" % (w["op"], e)
    if k in ("operator-semantics", "operator-rejected"):
        import operator as O

        op = w["op"]
        try:
            field, func, value = parse_allele_filter("AB_1" + op + str(w.get("t", 2)))
        except Exception as e:
            return op != "<>", "operator %r raised %r" % (op, e)
        f = {"=": O.eq, "==": O.eq, ">": O.gt, ">=": O.ge, "<": O.lt, "<=": O.le, "!=": O.ne}.get(op)
        x = float(m.get("x", 1.5))
        bad = f is None or any(bool(func(rnp.array([xx]), value)[0]) != f(xx, value) for xx in (x, value - 1, value, value + 1))
        return bad, "operator %r -> %s" % (op, getattr(func, "__name__", func))
    return False, "kind?"


def _real_mods():
    import mchap.io.vcf.formatfields as FORMAT
    import mchap.io.vcf.infofields as INFO
    import mchap.io.vcf.columns as COLUMN
    from mchap.application import baseclass as bc

    return bc, FORMAT, INFO, COLUMN


def _replay_invalid(v):
    import importlib
    import warnings

    c = v["config"]
    w = v["witness"]
    mods = _real_mods()
    bc, FORMAT, INFO, COLUMN = mods
    mod = importlib.import_module("mchap.application." + c["prog"])
    nA = w["n_alleles"]
    haps = rnp.arange(nA).reshape(nA, 1).astype(rnp.int8)
    prog = mod.program.__new__(mod.program)
    prog.info_fields = []
    data, ff = _data(mods, 2, nA, _Locus(haps, rnp.full(nA, rnp.nan), w["mask"]))
    prog.format_fields = ff
    try:
        with warnings.catch_warnings():
            warnings.simplefilter("ignore")
            out = prog.call_sample_genotypes(data)
    except Exception as e:
        return True, "real %s raised %r on a record without usable alleles" % (c["prog"], e.__cause__ or e)
    flt = list(out.columndata[COLUMN.FILTER])
    gt = [int(a) for a in out.sampledata[FORMAT.GT]["s"]]
    return not ({"NOA", "AF0"} & set(flt)) or gt != [-1, -1], "filter=%s GT=%s" % (flt, gt)


def _replay_callmask(v):
    import math
    import warnings
    from mchap.application import call as rcall
    from mchap.calling import classes as rcc

    c = v["config"]
    w = v["witness"]
    m = w.get("model") or v.get("model") or {}
    mods = _real_mods()
    bc, FORMAT, INFO, COLUMN = mods
    nA, P = c["nA"], 2
    zero, mask = w["zero"], w["mask"]
    haps = rnp.arange(nA).reshape(nA, 1).astype(rnp.int8)
    fs = rnp.array([0.0 if (zero[i] or (i == 0 and mask)) else float(m.get("f%d" % i, 0.3)) for i in range(nA)])
    captured = {}

    class FakeMCMC:
        def __init__(self, **kw):
            captured.update(kw)

        def fit(self, reads, read_counts):
            n = len(captured["haplotypes"])
            g = rnp.zeros((1, 2, P), dtype=rnp.int8)
            for s in range(2):
                g[0, s] = sorted((min(n - 1, int(m.get("g%d_0" % s, 0))), min(n - 1, int(m.get("g%d_1" % s, 0)))))
            return rcc.GenotypeAllelesMultiTrace(g, rnp.zeros((1, 2)), n)

    saved = (rcall.CallingMCMC, rcall.minimum_error_correction)
    rcall.CallingMCMC = FakeMCMC
    rcall.minimum_error_correction = lambda calls, haps: rnp.zeros(1)
    try:
        prog = rcall.program.__new__(rcall.program)
        prog.info_fields = []
        data, ff = _data(mods, P, nA, _Locus(haps, fs, mask), report=("AFP", "GP"))
        prog.format_fields = ff
        for k_, v_ in dict(mcmc_steps=2, mcmc_chains=1, random_seed=1, mcmc_burn=0, mcmc_incongruence_threshold=0.6).items():
            setattr(prog, k_, v_)
        with warnings.catch_warnings():
            warnings.simplefilter("ignore")
            out = prog.call_sample_genotypes(data)
    except Exception as e:
        return v["kind"] == "exception", "real call raised %r (zero=%s mask=%s)" % (e.__cause__ or e, zero, mask)
    finally:
        rcall.CallingMCMC, rcall.minimum_error_correction = saved
    banned = {i for i in range(nA) if zero[i] or (i == 0 and mask)}
    gt = [int(a) for a in out.sampledata[FORMAT.GT]["s"]]
    afp = out.sampledata[FORMAT.AFP]["s"]
    gp = out.sampledata[FORMAT.GP]["s"]
    problems = []
    if set(gt) & banned:
        problems.append("GT %s uses masked allele" % gt)
    if len(afp) != nA:
        problems.append("AFP has %d entries for %d alleles" % (len(afp), nA))
    elif any(afp[i] != 0 for i in banned):
        problems.append("AFP non-zero for masked allele")
    if len(gp) != math.comb(nA + P - 1, P):
        problems.append("GP has %d entries, expected %d" % (len(gp), math.comb(nA + P - 1, P)))
    return bool(problems), "; ".join(problems) + " (prior=%s mask=%s)" % (fs.tolist(), mask)


def validate(seed):
    """the repo's own filter/prior test vectors through engine and real code"""
    import random
    from mchap.io.loci import LocusPrior as RLP

    E.use_summaries(True)
    E.reset_modules()
    E.cfg.concrete_ints = True
    lo = E.load("mchap.io.loci")
    rnd = random.Random(seed)
    n = 0
    for _ in range(10):
        nalt = rnd.randint(1, 3)
        fr = tuple(rnd.randint(0, 4) / 4.0 for _ in range(nalt + 1))
        obs = tuple(float(rnd.randint(0, 3)) for _ in range(nalt + 1))
        op = rnd.choice(OPS)
        t = rnd.randint(0, 3)
        rec = _Record(SEQS[0], SEQS[1:nalt + 1], {"FLT": obs, "AFX": fr}, {"FLT": _Meta("R", "Float"), "AFX": _Meta("R", "Float")})
        want = RLP.from_variant_record(rec, frequency_tag="AFX", allele_filter="FLT%s%d" % (op, t))

        def body(ctx):
            return lo.LocusPrior.from_variant_record(rec, frequency_tag="AFX", allele_filter="FLT%s%d" % (op, t))

        vals = [p for p in E.explore(body)]
        assert len(vals) == 1 and vals[0].exc is None, vals
        got = vals[0].value
        gf = E.to_float_array(got.frequencies)
        assert got.alts == want.alts and bool(got.mask_reference_allele) == bool(want.mask_reference_allele), (got, want)
        assert all((a != a and b != b) or abs(a - b) < 1e-12 for a, b in zip(gf, want.frequencies)), (gf, want.frequencies)
        n += 1
    return n
