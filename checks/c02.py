"""C02 -- the mchap call sampler (Gibbs / MH allele moves) is stationary at the exact posterior."""
import itertools

import numpy as rnp
import z3

from nbsym import engine as E
from oracle import models as M

ID = "C02"
TITLE = "gibbs_options == exact full conditional of L(g)*DM prior(g); mh_options satisfies detailed balance for the same target; compound_step scans every copy once, sorts, returns the final llk"
ENCODED = [
    "mchap.calling.mcmc.gibbs_options", "mchap.calling.mcmc.mh_options", "mchap.calling.mcmc.compound_step",
    "mchap.calling.prior.log_genotype_allele_prior", "mchap.calling.prior.log_genotype_prior", "mchap.calling.prior.calculate_alphas",
    "mchap.calling.utils.count_allele", "mchap.calling.utils.allelic_dosage", "mchap.jitutils.normalise_log_probs (summary, lemma in C17)",
]
STUBS = ["log_likelihood_alleles_cached -> ln L(sorted alleles), one positive real per unordered genotype (the read model is C04/C09)",
         "compound_step harness: np.random.shuffle -> solver-chosen permutation; random_choice -> solver-chosen index; gibbs/mh_options -> recorders"]
ASSUMES = ["L(g) > 0", "frequencies symbolic > 0 summing to 1, flat, or with the last entry exactly 0; F symbolic in (0,1) or exactly 0",
           "target: J(g) = L(g) * oracle (Dirichlet-)multinomial prior, i.e. the distribution call-exact enumerates (C03 ties exact.py to the same oracle)"]
BOUNDS = {"quick": "ploidy 2..3 x 2..3 alleles, all genotypes, all copies, all target alleles",
          "thorough": "ploidy 2..4 x 2..4 alleles, plus ploidy 6 x 2 alleles"}
OUTSIDE = "larger ploidy/alleles; float rounding; ergodicity (class-wiring group: CallingMCMC.fit -> greedy_caller / mcmc_sampler receive the object's symbolic inbreeding, frequencies, counts, step type, once per chain)"


def configs(tier):
    out = []
    shapes = [(2, 2), (2, 3), (3, 2), (3, 3)] if tier == "quick" else [(2, 2), (2, 3), (3, 2), (3, 3), (2, 4), (4, 2), (4, 3), (3, 4), (4, 4), (6, 2)]
    for P, A in shapes:
        for inbred in (True, False):
            for freqs in ("flat", "sym", "zero"):
                for step in ("gibbs", "mh"):
                    genos = M.genotypes(A, P)
                    for lo in range(0, len(genos), 8):
                        out.append(dict(P=P, A=A, inbred=inbred, freqs=freqs, step=step, lo=lo, hi=min(len(genos), lo + 8)))
    for P in (2, 3) if tier == "quick" else (2, 3, 4):
        out.append(dict(step="compound", P=P, A=2))
    for cls in ("calling-gibbs", "calling-mh"):  # CallingMCMC.fit -> greedy_caller / mcmc_sampler
        out.append(dict(group="class-wiring", cls=cls, step="wiring", P=1, A=1))
        out.append(dict(group="refit", cls=cls, step="wiring", P=1, A=1))  # a reused model object: nothing of sample 1 reaches sample 2's sampler
    for same in (False, True):  # mchap call: every sample's sampler is built from that sample's own ploidy / inbreeding / reads (also when two samples share a ploidy)
        out.append(dict(group="prog-wiring", prog="call", order=3, same_ploidy=same, step="wiring", P=1, A=1))
    out.append(dict(group="cli-attrs", prog="call", step="wiring", P=1, A=1))  # argv -> program attributes (inbreeding, chains, steps, burn, seed, prior tag)
    out.append(dict(group="llk-cache", step="wiring", P=1, A=1))  # the memoised likelihood the moves consume (shared with C09)
    for lp in ("calling-loop", "calling-loop-nocache"):  # mcmc_sampler -> compound_step, trace bookkeeping
        out.append(dict(group="loop-wiring", loop=lp, step="wiring", P=1, A=1))
    return out


def weight(c):
    return c["P"] * c["A"] ** 2


def lname(g):
    return "L_" + "_".join(map(str, sorted(int(a) for a in g)))


def llvar(g):
    return z3.Real(lname(g))


def J(g, fz, F):
    g = tuple(sorted(g))
    return llvar(g) * M.genotype_prior(g, fz, F) / M.perms(g)


def _harness():
    E.use_summaries(True)
    E.reset_modules()
    E.cfg.concrete_ints = True
    cm = E.load("mchap.calling.mcmc")

    def stub_llk(reads, read_counts, haplotypes, genotype_alleles, cache=None):
        v = llvar(genotype_alleles)
        E.Ctx.cur.assume(v > 0)
        return E.np.log(E.SymReal(v))

    cm.log_likelihood_alleles_cached = stub_llk
    return cm


def run_config(c, col):
    if c.get("group") == "llk-cache":
        from checks import c09

        E.use_summaries(True)
        E.reset_modules()
        E.cfg.concrete_ints = True
        return c09.run_calling_dict_cache(col)
    if c.get("group") in ("class-wiring", "loop-wiring", "refit", "cli-attrs", "prog-wiring"):
        from checks import wiring

        E.use_summaries(True)
        return {"class-wiring": wiring.run_class, "loop-wiring": wiring.run_loop, "refit": wiring.run_refit, "cli-attrs": wiring.run_cli_attrs, "prog-wiring": wiring.run}[c["group"]](c, col)
    cm = _harness()
    if c["step"] == "compound":
        return _run_compound(c, col, cm)
    P, A = c["P"], c["A"]
    genos = M.genotypes(A, P)[c["lo"]:c["hi"]]
    haps = rnp.zeros((A, 1), dtype=rnp.int8)
    fn = cm.gibbs_options if c["step"] == "gibbs" else cm.mh_options
    site = "mchap.calling.mcmc." + ("gibbs_options" if c["step"] == "gibbs" else "mh_options")
    shape = dict(inbred=c["inbred"], freqs=c["freqs"])
    prof = E.Profile()
    first = True
    with prof:
        for g in genos:
            for k in range(P):
                if k > 0 and g[k] == g[k - 1]:
                    continue
                if c["freqs"] == "zero" and (A - 1) in (g[:k] + g[k + 1:]):
                    continue  # the other copies already carry a zero-prior allele: the conditional is undefined

                def kernel(ga, k, Fv, farr):
                    ga = rnp.array(ga)
                    before = ga.copy()
                    llks = E.np.full(A, E.np.nan)
                    lpr = E.np.full(A, E.np.nan)
                    pr = E.np.full(A, E.np.nan)
                    fn(ga, k, haps, None, None, Fv, llks, lpr, pr, frequencies=farr, llk_cache=None)
                    return pr, bool((ga == before).all()), llks

                def body(ctx, g=g, k=k):
                    F = E.fresh_real(ctx, "F", 0, 1) if c["inbred"] else None
                    Fv = E.SymReal(F) if F is not None else 0
                    if c["freqs"] == "flat":
                        fz = [z3.RealVal(1) / A] * A
                        farr = None
                    elif c["freqs"] == "sym":
                        fz = E.simplex(ctx, "f", A)
                        farr = E.real_array(fz)
                    else:  # the last allele has prior frequency exactly zero
                        fz = (E.simplex(ctx, "f", A - 1) if A > 1 else []) + [0]
                        farr = E.real_array([t if z3.is_expr(t) else 0.0 for t in fz])
                    pr, restored, llks = kernel(g, k, Fv, farr)
                    back = {}
                    if c["step"] == "mh":
                        for a in range(A):
                            if a != g[k] and not (c["freqs"] == "zero" and (a == A - 1 or g[k] == A - 1)):
                                y = list(g)
                                y[k] = a
                                back[a] = kernel(y, k, Fv, farr)[0]
                    return F, fz, pr, restored, llks, back

                for pres in E.explore(body, stats=col.stats):
                    if pres.exc is not None:
                        col.fail(site, "exception", shape=shape, witness=dict(g=g, k=k, exc=repr(pres.exc)), desc="raised %r" % (pres.exc,))
                        continue
                    col.path()
                    ctx = pres.ctx
                    if first:
                        col.reachable(ctx)
                        first = False
                    F, fz, pr, restored, llks, back = pres.value
                    w = dict(g=g, k=k)
                    if not restored:
                        col.fail(site, "array-not-restored", shape=shape, witness=w, desc="genotype_alleles not restored after the call")
                    else:
                        col.ok("genotype array restored (decided on the path)")
                    ps = [E.real_term(p) for p in pr]
                    Js = []
                    for a in range(A):
                        g2 = list(g)
                        g2[k] = a
                        Js.append(J(g2, fz, F))
                    tot = z3.Sum(Js)
                    for a in range(A):
                        g2 = list(g)
                        g2[k] = a
                        col.check(ctx, E.exp_term(llks[a]) == llvar(g2), site, "llks-array", shape=shape, witness=dict(g=g, k=k, a=a), desc="llks_array[a] is the llk of g[k:=a]")
                    if c["step"] == "gibbs":
                        for a in range(A):
                            col.check(ctx, ps[a] * tot == Js[a], site, "gibbs-conditional", shape=shape, witness=dict(g=g, k=k, a=a),
                                      desc="gibbs p[a] == J(g[k:=a]) / sum_b J(g[k:=b]),  J = L * oracle prior / perms  [P=%d A=%d %s %s]" % (P, A, c["freqs"], "F" if c["inbred"] else "F=0"))
                    else:
                        col.check(ctx, z3.Sum(ps) == 1, site, "probabilities-sum", shape=shape, witness=w, desc="mh probabilities sum to one")
                        col.check(ctx, z3.And([p >= 0 for p in ps]), site, "probabilities-nonneg", shape=shape, witness=w, desc="mh probabilities >= 0")
                        for a, pb in back.items():
                            col.check(ctx, Js[g[k]] * ps[a] == Js[a] * E.real_term(pb[g[k]]), site, "detailed-balance", shape=shape, witness=dict(g=g, k=k, a=a),
                                      desc="mh DB: J(x) p_x[a] == J(y) p_y[x_k]  [P=%d A=%d %s %s]" % (P, A, c["freqs"], "F" if c["inbred"] else "F=0"))
    col.functions |= set(prof.names())


def _run_compound(c, col, cm):
    P, A = c["P"], c["A"]
    site = "mchap.calling.mcmc.compound_step"
    prof = E.Profile()
    with prof:
        for step_type in (0, 1):
            def body(ctx):
                visited = []
                perm = [E.fresh_int(ctx, "perm%d" % i, 0, P - 1) for i in range(P)]
                ctx.assume(z3.Distinct(perm))
                choices = [E.fresh_int(ctx, "ch%d" % i, 0, A - 1) for i in range(P)]
                g0 = [E.fresh_int(ctx, "g%d" % i, 0, A - 1) for i in range(P)]
                for i in range(P - 1):
                    ctx.assume(g0[i] <= g0[i + 1])

                def shuffle(arr):
                    for i in range(P):
                        arr[i] = int(E.SymInt(perm[i]))

                class R:
                    pass

                R.shuffle = staticmethod(shuffle)

                class NPs:
                    random = R

                    def __getattr__(self, n):
                        return getattr(E.NP, n)

                cm.np = NPs()
                ga = rnp.array([int(E.SymInt(v)) for v in g0])
                start = ga.copy()
                calls = []

                def rec(genotype_alleles, variable_allele, haplotypes, reads, read_counts, inbreeding, llks_array, lpriors_array, probabilities_array, frequencies=None, llk_cache=None):
                    calls.append((int(variable_allele), genotype_alleles.copy()))
                    for a in range(A):
                        g2 = genotype_alleles.copy()
                        g2[variable_allele] = a
                        llks_array[a] = E.np.log(E.SymReal(llvar(g2)))
                        probabilities_array[a] = 0.5

                cm.gibbs_options = rec if step_type == 0 else None
                cm.mh_options = rec if step_type == 1 else None
                ci = [0]

                def choice(p):
                    ci[0] += 1
                    return int(E.SymInt(choices[ci[0] - 1]))

                cm.random_choice = choice
                out = cm.compound_step(ga, rnp.zeros((A, 1), dtype=rnp.int8), None, None, 0, step_type=step_type)
                return start, calls, ga, out

            first = True
            for pres in E.explore(body, stats=col.stats):
                if pres.exc is not None:
                    raise pres.exc
                col.path()
                if first:
                    col.reachable(pres.ctx)
                    first = False
                start, calls, ga, out = pres.value
                w = dict(start=start.tolist(), visited=[k for k, _ in calls], final=ga.tolist(), step_type=step_type)
                if sorted(k for k, _ in calls) != list(range(P)):
                    col.fail(site, "scan-coverage", witness=w, desc="compound_step did not visit every allele copy exactly once")
                elif list(ga) != sorted(ga):
                    col.fail(site, "not-sorted", witness=w, desc="genotype not sorted after compound_step")
                else:
                    col.ok("compound_step visits each copy once and sorts (decided on the path; permutation and choices solver-enumerated)")
                col.check(pres.ctx, E.exp_term(out) == llvar(ga), site, "returned-llk", witness=w, desc="compound_step returns the llk of the final genotype")
    cm.np = E.NP
    col.functions |= set(prof.names())


# ------------------------------------------------------------------ replay


def _real_kernel(step, g, k, A, F, farr, Lmap):
    import math
    from mchap.calling import mcmc as rm

    saved = rm.log_likelihood_alleles_cached
    rm.log_likelihood_alleles_cached = lambda reads, read_counts, haplotypes, genotype_alleles, cache=None: math.log(Lmap(genotype_alleles))
    try:
        ga = rnp.array(g)
        llks, lpr, pr = rnp.full(A, rnp.nan), rnp.full(A, rnp.nan), rnp.full(A, rnp.nan)
        fn = rm.gibbs_options if step == "gibbs" else rm.mh_options
        fn.py_func(ga, k, rnp.zeros((A, 1), dtype=rnp.int8), None, None, F, llks, lpr, pr, frequencies=farr, llk_cache=None)
    finally:
        rm.log_likelihood_alleles_cached = saved
    return pr, ga, llks


def replay(v):
    import math

    if v["config"].get("group") == "llk-cache":
        from checks import c09

        return c09._replay_wrappers(v)
    if v["config"].get("group") in ("class-wiring", "loop-wiring", "refit", "cli-attrs", "prog-wiring"):
        from checks import wiring

        return wiring.replay_real(v, {"class-wiring": wiring.run_class, "loop-wiring": wiring.run_loop, "refit": wiring.run_refit, "cli-attrs": wiring.run_cli_attrs, "prog-wiring": wiring.run}[v["config"]["group"]])
    c = v["config"]
    m = v.get("model") or {}
    if c["step"] == "compound":
        return _replay_compound(v)
    P, A = c["P"], c["A"]
    F = float(m.get("F", 0.3)) if c["inbred"] else 0.0
    if c["freqs"] == "flat":
        f = [1.0 / A] * A
        farr = None
    elif c["freqs"] == "sym":
        f = [float(m.get("f%d" % i, 1.0 / A)) for i in range(A - 1)]
        f.append(1 - sum(f))
        farr = rnp.array(f)
    else:
        f = [float(m.get("f%d" % i, 1.0 / (A - 1))) for i in range(A - 2)]
        f.append(1 - sum(f))
        f.append(0.0)
        farr = rnp.array(f)

    def Lmap(g):
        return float(m.get(lname(g), 1.0))

    from checks.c05 import _num_prior

    def Jn(g):
        g = tuple(sorted(int(a) for a in g))
        return Lmap(g) * _num_prior(g, f, F if c["inbred"] else None) / M.perms(g)

    w = v["witness"]
    g, k = list(w["g"]), w["k"]
    pr, ga, llks = _real_kernel(c["step"], g, k, A, F, farr, Lmap)
    kind = v["kind"]
    if kind == "array-not-restored":
        return list(ga) != g, "array after call %s" % ga
    if kind == "llks-array":
        a = w["a"]
        g2 = list(g)
        g2[k] = a
        return abs(llks[a] - math.log(Lmap(g2))) > 1e-9, "llks[a]=%r want %r" % (llks[a], math.log(Lmap(g2)))
    Js = []
    for a in range(A):
        g2 = list(g)
        g2[k] = a
        Js.append(Jn(g2))
    if kind == "gibbs-conditional":
        a = w["a"]
        want = Js[a] / sum(Js)
        return abs(pr[a] - want) > 1e-6 * max(want, 1e-12), "gibbs p[%d]=%r exact conditional=%r (g=%s k=%d F=%r f=%s)" % (a, pr[a], want, g, k, F, f)
    if kind == "probabilities-sum":
        return abs(pr.sum() - 1) > 1e-6, "sum=%r" % pr.sum()
    if kind == "probabilities-nonneg":
        return bool((pr < -1e-9).any()), "p=%s" % pr
    if kind == "detailed-balance":
        a = w["a"]
        y = list(g)
        y[k] = a
        pb, _, _ = _real_kernel("mh", y, k, A, F, farr, Lmap)
        lhs, rhs = Js[g[k]] * pr[a], Js[a] * pb[g[k]]
        return abs(lhs - rhs) > 1e-6 * max(lhs, rhs, 1e-300), "mh DB lhs=%r rhs=%r (g=%s k=%d a=%d F=%r f=%s)" % (lhs, rhs, g, k, a, F, f)
    return False, "kind?"


def _replay_compound(v):
    from mchap.calling import mcmc as rm

    c = v["config"]
    m = v.get("model") or {}
    P, A = c["P"], c["A"]
    w = v["witness"]
    perm = [int(m.get("perm%d" % i, i)) for i in range(P)]
    choices = [int(m.get("ch%d" % i, 0)) for i in range(P)]
    start = rnp.array(w["start"])
    st = w["step_type"]
    saved = (rm.np, rm.gibbs_options, rm.mh_options, rm.random_choice)
    real_np = rm.np
    calls = []
    table = {}

    def llk_of(g):
        key = tuple(sorted(int(a) for a in g))
        return table.setdefault(key, float(len(table) + 1))

    def rec(genotype_alleles, variable_allele, haplotypes, reads, read_counts, inbreeding, llks_array, lpriors_array, probabilities_array, frequencies=None, llk_cache=None):
        calls.append(int(variable_allele))
        for a in range(A):
            g2 = genotype_alleles.copy()
            g2[variable_allele] = a
            llks_array[a] = llk_of(g2)

    class S:
        def __getattr__(self, n):
            return getattr(real_np, n)

    s_ = S()

    def shuffle(arr):
        arr[:] = perm

    s_.random = type("R", (), {"shuffle": staticmethod(shuffle)})
    ci = [0]

    def choice(p):
        ci[0] += 1
        return choices[ci[0] - 1]

    try:
        rm.np = s_
        rm.gibbs_options = rec
        rm.mh_options = rec
        rm.random_choice = choice
        ga = start.copy()
        out = rm.compound_step.py_func(ga, rnp.zeros((A, 1), dtype=rnp.int8), None, None, 0, step_type=st)
    finally:
        rm.np, rm.gibbs_options, rm.mh_options, rm.random_choice = saved
    if v["kind"] == "scan-coverage":
        return sorted(calls) != list(range(P)), "visited %s" % calls
    if v["kind"] == "not-sorted":
        return list(ga) != sorted(ga), "final %s" % ga
    return out != llk_of(ga), "returned %r, llk of final genotype %r" % (out, llk_of(ga))


def validate(seed):
    import random

    rnd = random.Random(seed)
    cm = _harness()
    n = 0
    for _ in range(8):
        P, A = rnd.randint(2, 4), rnd.randint(2, 4)
        g = sorted(rnd.randrange(A) for _ in range(P))
        k = rnd.randrange(P)
        F = rnd.choice([0.0, 0.125])
        f = [rnd.randint(1, 8) for _ in range(A)]
        f = [x / sum(f) for x in f]
        farr = rnd.choice([None, rnp.array(f)])
        step = rnd.choice(["gibbs", "mh"])
        Ls = {}

        def Lmap(gg):
            key = tuple(sorted(int(a) for a in gg))
            return Ls.setdefault(key, rnd.randint(1, 9) / 8.0)

        real_p, _, _ = _real_kernel(step, g, k, A, F, farr, Lmap)

        def body(ctx):
            for key, val in Ls.items():
                ctx.assume(z3.Real(lname(key)) == z3.RealVal(repr(val)))
            ga = rnp.array(g)
            llks, lpr, pr = E.np.full(A, E.np.nan), E.np.full(A, E.np.nan), E.np.full(A, E.np.nan)
            fa = None if farr is None else E.real_array([E.SymReal(z3.RealVal(E.Fraction(x).limit_denominator(10 ** 9))) for x in f])
            (cm.gibbs_options if step == "gibbs" else cm.mh_options)(ga, k, rnp.zeros((A, 1), dtype=rnp.int8), None, None, E.symfloat(repr(F)) if F else 0, llks, lpr, pr, frequencies=fa, llk_cache=None)
            return pr

        vals = [p for p in E.explore(body)]
        assert len(vals) == 1 and vals[0].exc is None, vals
        got = E.to_float_array(vals[0].value, {lname(kk): vv for kk, vv in Ls.items()})
        assert rnp.abs(got - real_p).max() < 1e-7, (g, k, F, step, got, real_p)
        n += 1
    return n
