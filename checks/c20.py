"""C20 -- atomize emits the per-SNV projection of every haplotype record."""
import itertools

import numpy as rnp
import z3

from nbsym import engine as E

ID = "C20"
TITLE = "atomize: one line per SNVPOS at POS+SNVPOS-1, REF/ALT bases numbered by first appearance, phased GT projected per site, PS = POS, AC/ACP/DS marginalised; every record shape assemble/call/call-exact can emit is accepted"
TECHNIQUE = "solver-driven exhaustive enumeration of bounded haplotype records through the repo's shadow-loaded atomize code (numpy-unicode/pandas realise symbolic values) against an independent projection oracle"
ENCODED = ["mchap.application.atomize.format_vcf_snv_block", "mchap.application.atomize.get_haplotype_snvs", "mchap.application.atomize.get_haplotype_snv_indices",
           "mchap.application.atomize.format_snv_alleles", "mchap.application.atomize.get_sample_snv_GT", "mchap.application.atomize.get_sample_snv_ACP",
           "mchap.application.atomize.get_sample_snv_depth", "mchap.application.atomize.get_sample_snv_PQ", "mchap.application.atomize.format_allele_floats"]
STUBS = ["pysam.VariantRecord -> duck-typed record (ref, alts or None, info[SNVPOS], samples mapping with GT tuples incl. None, optional ACP/AFP/SNVDP, SQ)"]
ASSUMES = ["atomize's string handling (numpy unicode arrays, np.char, pandas) is compiled code: every symbolic record parameter (bases, number of ALT, GT entries, presence of optional fields) is an integer variable that the solver enumerates exhaustively inside the bound; the verdict is per realised record against an independent projection oracle (weaker, enumerative mode: stated in evidence)",
           "listed haplotypes are pairwise distinct (as in any VCF record)"]
BOUNDS = {"quick": "records with 0..2 ALT haplotypes over 2 SNV sites (bases from {A,C,G} / {A,C}), 2 samples (one diploid with every GT incl. '.', one fixed triploid), ACP / AFP / neither, SNVDP present or not; the second sample named like each of the nine fixed VCF columns (columns compared by position)",
          "thorough": "adds 3 ALT haplotypes, 3 sites, a second fully enumerated sample"}
OUTSIDE = "pandas to_csv text rendering; header lines; larger records (the float text of AC / ACP / DS is realised for counts k/8 up to 125)"
TASKS_PER_CHILD = 4
LEVEL_TEXT = ("Bounded symbolic execution where it applies, otherwise solver-driven exhaustive enumeration: atomize operates on numpy unicode arrays and pandas (C code), so each symbolic record parameter is "
              "concretised by the solver; all records inside the bound are enumerated through the solver and compared with an independent oracle. Not a proof beyond the bound.")


def configs(tier):
    out = []
    for n_alt in ((0, 1, 2) if tier == "quick" else (0, 1, 2, 3)):
        for opt in ("ACP", "AFP", "none"):
            for dp in (True, False):
                for s1 in (("A", "C", "G")[: min(3, n_alt + 1)] if n_alt else ("A",)):
                    out.append(dict(n_alt=n_alt, opt=opt, dp=dp, ref0=s1, sites=2))
    # sample names are free text (BAM SM tags): also the names of the fixed VCF columns
    for name in FIXED_COLS:
        out.append(dict(n_alt=1, opt="ACP", dp=True, ref0="A", sites=2, name=name))
    # the counts atomize prints (AC / ACP / DS) for many samples: every value k/8 in a range must read back as itself
    for lo in range(0, 1001, 250 if tier == "quick" else 125):
        out.append(dict(group="floats", lo=lo, hi=min(1000, lo + (250 if tier == "quick" else 125) - 1)))
    return out


FIXED_COLS = ["CHROM", "POS", "ID", "REF", "ALT", "QUAL", "FILTER", "INFO", "FORMAT"]


def weight(c):
    return 4 ** c["n_alt"] if "n_alt" in c else 20


class _Samples(dict):
    pass


class _Rec:
    def __init__(self, ref, alts, snvpos, samples, pos=101, contig="chr1", rid="loc1"):
        self.ref = ref
        self.alts = tuple(alts) if alts else None
        self.info = {"SNVPOS": tuple(snvpos) if snvpos else (None,)}
        self.samples = _Samples(samples)
        self.pos = pos
        self.contig = contig
        self.id = rid


def _build(c, pick):
    """pick(name, lo, hi) -> int.  Returns the record and its plain description"""
    n_alt, sites = c["n_alt"], c["sites"]
    # haplotype strings of length 4 with SNVs at (1-based) positions 2 and 4
    snvpos = [2, 4][:sites]
    alpha = [("A", "C", "G"), ("A", "C")]
    haps = []
    for h in range(n_alt + 1):
        chars = ["T", "T", "T", "T"]
        for k, p in enumerate(snvpos):
            if h == 0 and k == 0:
                chars[p - 1] = c["ref0"]
            else:
                chars[p - 1] = alpha[k][pick("b%d_%d" % (h, k), 0, len(alpha[k]) - 1)]
        haps.append("".join(chars))
    gts = {}
    gts["s2" if c.get("name") else "s1"] = tuple((None if v < 0 else v) for v in (pick("g0", -1, n_alt), pick("g1", -1, n_alt)))
    gts[c.get("name", "s2")] = (0, min(1, n_alt), n_alt)
    samples = {}
    for s, gt in gts.items():
        d = {"GT": gt, "SQ": 60}
        ploidy = len(gt)
        cnt = [sum(1 for a in gt if a == h) for h in range(n_alt + 1)]
        if c["opt"] == "ACP":
            d["ACP"] = tuple(float(x) for x in cnt)
        elif c["opt"] == "AFP":
            d["AFP"] = tuple(x / ploidy for x in cnt)
        if c["dp"]:
            d["SNVDP"] = tuple(5 + k for k in range(sites))
        samples[s] = d
    return haps, snvpos, samples


def _oracle(haps, snvpos, samples, pos):
    """expected per-site projection (independent of atomize)"""
    lines = []
    for k, p in enumerate(snvpos):
        bases = [h[p - 1] for h in haps]
        order = []
        for b in bases:
            if b not in order:
                order.append(b)
        idx = [order.index(b) for b in bases]
        ln = dict(pos=pos + p - 1, ref=bases[0], alts=order[1:], gts={}, ac=[0] * (len(order) - 1), ps=pos)
        for s, d in samples.items():
            ln["gts"][s] = "|".join("." if a is None else str(idx[a]) for a in d["GT"])
            for a in d["GT"]:
                if a is not None and idx[a] > 0:
                    ln["ac"][idx[a] - 1] += 1
        lines.append(ln)
    return lines


def _run_floats(c, col):
    """format_allele_floats (AC / ACP / DS text): values k/8 for k in [lo, hi] (0 .. 125, incl. every multiple of ten) rendered in
    R- and A-length rows next to 0, 10 and a fractional value must read back as the value rounded to 3 decimals"""
    at = E.load("mchap.application.atomize")
    site = "mchap.application.atomize.format_allele_floats"

    def body(ctx):
        k = E.enum_int(ctx, "k", c["lo"], c["hi"])
        v = k / 8.0
        arr = rnp.array([[v, 0.0, 10.0], [20.0, v, 0.125]])
        out_r = at.format_allele_floats(arr, rnp.array([2, 2]), length="R")
        out_a = at.format_allele_floats(arr, rnp.array([2, 1]), length="A")
        return k, arr, [str(x) for x in rnp.asarray(out_r).ravel()], [str(x) for x in rnp.asarray(out_a).ravel()]

    first = True
    for pr in E.explore(body, stats=col.stats):
        if pr.exc is not None:
            col.fail(site, "exception", shape=dict(group="floats"), witness=dict(exc=repr(pr.exc)), desc="raised %r" % (pr.exc,))
            continue
        col.path()
        if first:
            col.reachable(pr.ctx)
            first = False
        k, arr, out_r, out_a = pr.value
        bad = None
        for row, txt, n in ((0, out_r[0], 3), (1, out_r[1], 3), (0, out_a[0], 2), (1, out_a[1], 1)):
            toks = txt.split(",")
            want = [round(float(x), 3) for x in arr[row][:n]]
            if len(toks) != n or any(t in ("", ".") or abs(float(t) - w) > 1e-9 for t, w in zip(toks, want)):
                bad = (want, txt)
                break
        if bad:
            col.fail(site, "float-text", shape=dict(group="floats"), witness=dict(values=bad[0], text=bad[1], model=dict(k=k)), desc="format_allele_floats renders %s as %r" % bad)
        else:
            col.ok("format_allele_floats: counts k/8 (0..125) read back as themselves in R- and A-length rows")


def run_config(c, col):
    E.use_summaries(True)
    E.reset_modules()
    E.cfg.concrete_ints = True
    E.cfg.concrete_floats = True
    import warnings

    warnings.simplefilter("ignore")
    if c.get("group") == "floats":
        prof = E.Profile()
        with prof:
            _run_floats(c, col)
        col.functions |= set(prof.names())
        E.cfg.concrete_floats = False
        return
    at = E.load("mchap.application.atomize")
    site = "mchap.application.atomize.format_vcf_snv_block"
    prof = E.Profile()

    def body(ctx):
        def pick(name, lo, hi):
            return int(E.SymInt(E.fresh_int(ctx, name, lo, hi)))

        haps, snvpos, samples = _build(c, pick)
        if len(set(haps)) != len(haps):
            raise E.PathAbort()
        rec = _Rec(haps[0], haps[1:], snvpos, samples)
        block = at.format_vcf_snv_block(rec)
        return haps, snvpos, samples, block

    with prof:
        first = True
        for pr in E.explore(body, stats=col.stats):
            if pr.exc is not None:
                m = E.model_dict(E.prove(pr.ctx, False).model)
                col.fail(site, "record-rejected", shape=dict(n_alt=c["n_alt"], exc=type(pr.exc).__name__), witness=dict(exc=repr(pr.exc), model=m),
                         desc="atomize raised %r on a record shape the callers can produce" % (pr.exc,), model=m)
                continue
            col.path()
            if first:
                col.reachable(pr.ctx)
                first = False
            haps, snvpos, samples, block = pr.value
            problems = _compare(c, haps, snvpos, samples, block)
            w = dict(haps=haps, snvpos=snvpos, gts={s: list(d["GT"]) for s, d in samples.items()})
            if problems:
                col.fail(site, problems[0][0], shape=dict(n_alt=c["n_alt"]), witness=dict(w, problems=[p[1] for p in problems][:3], model=E.model_dict(E.prove(pr.ctx, False).model)),
                         desc=problems[0][1])
            else:
                col.ok("atomize block == independent per-site projection (record solver-enumerated)")
    col.functions |= set(prof.names())


def _compare(c, haps, snvpos, samples, block):
    want = _oracle(haps, snvpos, samples, 101)
    problems = []
    # columns by POSITION (a sample may be named like a fixed column): nine fixed columns, then one per sample in the record's order
    names = list(samples)
    rows = []
    if block is not None:
        cols = [str(x) for x in block.columns]
        if cols[:9] != FIXED_COLS or cols[9:] != names:
            problems.append(("columns", "block columns %s, expected the nine fixed columns followed by the samples %s" % (cols, names)))
            return problems
        for i in range(len(block)):
            vals = list(block.iloc[i].values)
            row = dict(zip(FIXED_COLS, vals[:9]))
            row.update({("sample", k): v for k, v in zip(names, vals[9:])})
            rows.append(row)
    try:
        by_pos = {int(r["POS"]): r for r in rows}
    except (TypeError, ValueError):
        problems.append(("columns", "POS column holds %r" % ([r["POS"] for r in rows],)))
        return problems
    if len(by_pos) != len(rows):
        problems.append(("duplicate-lines", "two lines at the same POS"))
    for ln in want:
        r = by_pos.get(ln["pos"])
        if r is None:
            if ln["alts"]:
                problems.append(("missing-line", "no line at POS %d" % ln["pos"]))
            continue  # a site without alternative base may be omitted
        alt = str(r["ALT"])
        alts = [] if alt in (".", "") else alt.split(",")
        if alt == "" and not ln["alts"]:
            problems.append(("empty-alt", "site without alternative base emitted with an empty ALT column (must be omitted or '.')"))
        if str(r["REF"]) != ln["ref"] or alts != ln["alts"]:
            problems.append(("ref-alt", "POS %d REF/ALT %s/%s expected %s/%s" % (ln["pos"], r["REF"], alt, ln["ref"], ",".join(ln["alts"]) or ".")))
        info = dict(kv.split("=") for kv in str(r["INFO"]).split(";"))
        if info.get("PS") != str(ln["ps"]):
            problems.append(("ps", "PS %s expected %s" % (info.get("PS"), ln["ps"])))
        ac = [] if info.get("AC") in (None, ".", "") else [float(x) for x in info["AC"].split(",")]
        if ln["alts"] and ac != [float(x) for x in ln["ac"]]:
            problems.append(("ac", "AC %s expected %s" % (info.get("AC"), ln["ac"])))
        for s, d in samples.items():
            fields = str(r[("sample", s)]).split(":")
            if fields[0] != ln["gts"][s]:
                problems.append(("gt-projection", "sample %s GT %s expected %s at POS %d" % (s, fields[0], ln["gts"][s], ln["pos"])))
            if c["opt"] != "none" and ln["alts"] and all(a is not None for a in d["GT"]):
                # DS = posterior dosage of each alt base: here the posterior is concentrated on GT
                order = [ln["ref"]] + ln["alts"]
                k = snvpos.index(ln["pos"] - 101 + 1)
                wantds = [float(sum(1 for a in d["GT"] if haps[a][snvpos[k] - 1] == b)) for b in ln["alts"]]
                ds = fields[4]
                got = [float(x) if x != "." else None for x in ds.split(",")]
                if got != wantds:
                    problems.append(("ds", "sample %s DS %s expected %s" % (s, ds, wantds)))
    if len(rows) > len(want):
        problems.append(("extra-lines", "more lines than SNVPOS entries"))
    return problems


# ------------------------------------------------------------------ replay


def replay(v):
    import warnings
    from mchap.application import atomize as rat

    c = v["config"]
    if c.get("group") == "floats":
        from checks import wiring

        return wiring.replay_real(v, _run_floats)
    m = (v.get("witness") or {}).get("model") or v.get("model") or {}

    def pick(name, lo, hi):
        return max(lo, min(hi, int(m.get(name, lo))))

    haps, snvpos, samples = _build(c, pick)
    if len(set(haps)) != len(haps):
        return False, "model does not describe distinct haplotypes"
    rec = _Rec(haps[0], haps[1:], snvpos, samples)
    try:
        with warnings.catch_warnings():
            warnings.simplefilter("ignore")
            block = rat.format_vcf_snv_block(rec)
    except Exception as e:
        return v["kind"] == "record-rejected", "real atomize raised %r on REF=%s ALT=%s SNVPOS=%s GT=%s" % (e, haps[0], haps[1:], snvpos, {s: d["GT"] for s, d in samples.items()})
    if v["kind"] == "record-rejected":
        return False, "accepted by the real code"
    problems = _compare(c, haps, snvpos, samples, block)
    return bool(problems), "REF=%s ALT=%s GT=%s: %s" % (haps[0], haps[1:], {s: d["GT"] for s, d in samples.items()}, [p[1] for p in problems][:2])


def validate(seed):
    """a record from the repo's golden assemble output through engine-loaded and real atomize"""
    import warnings
    from mchap.application import atomize as rat

    E.use_summaries(True)
    E.reset_modules()
    E.cfg.concrete_ints = True
    E.cfg.concrete_floats = True
    warnings.simplefilter("ignore")
    at = E.load("mchap.application.atomize")
    n = 0
    for n_alt in (1, 2):
        c = dict(n_alt=n_alt, opt="ACP", dp=True, ref0="A", sites=2)
        vals = {"b1_0": 1, "b1_1": 1, "b2_0": 2, "b2_1": 0, "g0": 0, "g1": n_alt}
        haps, snvpos, samples = _build(c, lambda name, lo, hi: max(lo, min(hi, vals.get(name, lo))))
        rec = _Rec(haps[0], haps[1:], snvpos, samples)
        a = rat.format_vcf_snv_block(rec)
        b = at.format_vcf_snv_block(rec)
        assert a.to_csv(sep="\t") == b.to_csv(sep="\t")
        n += 1
    return n
