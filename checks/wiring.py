"""Per-sample wiring of the four calling programs (used by C10): every sample's sampler / exact kernel must be constructed
and fitted with THAT sample's ploidy, inbreeding, temperatures, reads and counts plus the program-level options, and its
output column must come from its own trace -- for every order of the samples.

The samplers are replaced by recorders that bind each call through the REAL callee's signature (so defaults that silently take
over for a forgotten argument are seen as what they are).  Per-sample inbreeding coefficients are distinct symbolic reals: a
sample that receives another sample's coefficient (or a default) makes the equality claim satisfiable, and the solver's model
is replayed on the real modules."""
import inspect
import itertools
import math

import numpy as rnp
import z3

from nbsym import engine as E

SAMPLES = ["s0", "s1", "s2"]
PLOIDY = {"s0": 2, "s1": 3, "s2": 4}
N_READS = {"s0": 1, "s1": 2, "s2": 3}
TEMPS = {"s0": (1.0,), "s1": (0.5, 1.0), "s2": (0.25, 0.5, 1.0)}
PROGS = ["assemble", "call", "call-exact", "call-exact-gp", "call-pedigree"]
_ENGINE_LOAD = E.load
OPTS = dict(mcmc_steps=7, mcmc_chains=3, mcmc_fix_homozygous=0.875, mcmc_recombination_step_probability=0.25, mcmc_partial_dosage_step_probability=0.375,
            mcmc_dosage_step_probability=0.625, random_seed=11, mcmc_llk_cache_threshold=77, mcmc_burn=2, mcmc_incongruence_threshold=0.6,
            haplotype_posterior_threshold=0.2, precision=3)


def _bind(real, args, kwargs, drop_self=False):
    sig = inspect.signature(getattr(real, "py_func", real))
    ba = sig.bind(*args, **kwargs)
    ba.apply_defaults()
    d = dict(ba.arguments)
    if drop_self:
        d.pop("self", None)
    return d


def rec_class(real_cls, make_trace, log):
    """stand-in for a sampler class: records (constructor arguments, fit arguments) as the real class would bind them"""

    class Rec:
        def __init__(self, *a, **k):
            self.kw = _bind(real_cls.__init__, (self,) + a, k, drop_self=True)

        def fit(self, *a, **k):
            f = _bind(real_cls.fit, (self,) + a, k, drop_self=True)
            log.append((self.kw, f))
            return make_trace(self.kw, f)

    Rec.__name__ = real_cls.__name__
    return Rec


def orig(mod, name):
    """the repository's own attribute `name` of module `mod`, even after an earlier path replaced it by a recorder"""
    store = mod.__dict__.setdefault("__wiring_orig__", {})
    if name not in store:
        store[name] = getattr(mod, name)
    return store[name]


def rec_fn(real_fn, result, log, name):
    def f(*a, **k):
        b = _bind(real_fn, a, k)
        log.append((name, b))
        return result(b)

    return f


class _Locus:
    contig = "chr1"
    start = 100
    stop = 103
    name = "loc"
    sequence = "AAA"
    positions = [101]
    variants = (0,)
    alleles = [("A", "C", "G")]
    alts = ("ACA", "AGA")
    mask_reference_allele = False

    def __init__(self):
        self.frequencies = rnp.array([0.5, 0.25, 0.25])

    def encode_haplotypes(self):
        return rnp.array([[0], [1], [2]], dtype=rnp.int8)

    def count_alleles(self):
        return [3]

    def format_haplotypes(self, haps):
        return ["A%sA" % "ACG"[int(h[0])] for h in haps]


def _is(a, b):
    return a is b


MASKED = [False]


def run(c, col):
    """c: dict(prog=..., order=index of the permutation of SAMPLES[, same_ploidy=True: two samples share a ploidy and differ in everything else]
    [, masked=True (call-pedigree): the locus has its reference allele masked])"""
    global PLOIDY
    saved = PLOIDY
    PLOIDY = {"s0": 2, "s1": 4, "s2": 4} if c.get("same_ploidy") else {"s0": 2, "s1": 3, "s2": 4}
    MASKED[0] = bool(c.get("masked"))
    try:
        return _run(c, col)
    finally:
        PLOIDY = saved
        MASKED[0] = False


def _run(c, col):
    prog_name = c["prog"]
    if E.load is _ENGINE_LOAD:
        E.reset_modules()
    site = "mchap.application.%s.program.call_sample_genotypes" % prog_name.replace("-gp", "").replace("-", "_")
    bc = E.load("mchap.application.baseclass")
    FORMAT = E.load("mchap.io.vcf.formatfields")
    INFO = E.load("mchap.io.vcf.infofields")
    COLUMN = E.load("mchap.io.vcf.columns")
    order = list(itertools.permutations(SAMPLES))[c["order"]]

    def body(ctx):
        F = {s: E.fresh_real(ctx, "F_%s" % s, 0, 1) for s in SAMPLES}
        reads = {s: rnp.full((N_READS[s], 1, 3), 0.1 * (i + 1)) for i, s in enumerate(SAMPLES)}
        counts = {s: rnp.arange(1, N_READS[s] + 1) + 10 * i for i, s in enumerate(SAMPLES)}
        gpm = {"s0": 0.75, "s1": 0.625, "s2": 0.5}  # what each sample's own trace says
        log = []
        samples = list(order)
        fmt = [FORMAT.GT, FORMAT.GPM]
        if prog_name == "call-exact-gp":
            fmt = fmt + [FORMAT.GP]

        def sample_of_reads(r):
            for s in SAMPLES:
                if r is reads[s]:
                    return s
            return None

        if prog_name == "assemble":
            mod = E.load("mchap.application.assemble")
            cl = E.load("mchap.assemble.classes")

            def make_trace(kw, f):
                s = sample_of_reads(f.get("reads"))
                P = PLOIDY.get(s, 2)
                g0 = rnp.zeros((P, 1), dtype=rnp.int8)
                g1 = g0.copy()
                g1[-1, 0] = 1
                p = gpm.get(s, 0.5)
                post = cl.PosteriorGenotypeDistribution(rnp.array([g1, g0]), rnp.array([p, 1 - p]))

                class T:
                    def burn(self, n):
                        log.append(("burn", s, n))
                        return self

                    def posterior(self):
                        return post

                    def replicate_incongruence(self, threshold=0.6):
                        log.append(("incongruence", s, threshold))
                        return 0

                return T()

            mod.DenovoMCMC = rec_class(orig(E.load("mchap.assemble.mcmc"), "DenovoMCMC"), make_trace, log)
            mod.minimum_error_correction = lambda calls, haps: rnp.zeros(1)
            locus = _Locus()
        elif prog_name == "call":
            mod = E.load("mchap.application.call")
            cc = E.load("mchap.calling.classes")

            def make_trace(kw, f):
                s = sample_of_reads(f.get("reads"))
                P = PLOIDY.get(s, 2)
                n = len(kw["haplotypes"])
                steps = 8
                g = rnp.zeros((1, steps, P), dtype=rnp.int8)
                k1 = int(round(gpm.get(s, 0.5) * steps))
                g[0, :k1, -1] = 1  # genotype 0..01 with frequency gpm, 0..0 otherwise
                tr = cc.GenotypeAllelesMultiTrace(g, rnp.zeros((1, steps)), n)
                real_burn = tr.burn

                def burn(nb):
                    log.append(("burn", s, nb))
                    return tr

                tr.burn = burn
                return tr

            mod.CallingMCMC = rec_class(orig(cc, "CallingMCMC"), make_trace, log)
            mod.minimum_error_correction = lambda calls, haps: rnp.zeros(1)
            locus = _Locus()
        elif prog_name.startswith("call-exact"):
            mod = E.load("mchap.application.call_exact")
            ex = E.load("mchap.calling.exact")
            mod.minimum_error_correction = lambda calls, haps: rnp.zeros(1)

            def ngen(b):
                return math.comb(len(b["haplotypes"]) + b["ploidy"] - 1, b["ploidy"])

            def post_of(b):
                s = sample_of_reads(b.get("reads")) if "reads" in b else None
                return s

            state = {}

            def r_llks(b):
                state["s"] = sample_of_reads(b["reads"])
                return rnp.zeros(ngen(b))

            def r_post(b):
                n = math.comb(b["n_alleles"] + b["ploidy"] - 1, b["ploidy"])
                p = rnp.full(n, 0.0)
                q = gpm.get(state.get("s"), 0.5)
                p[1] = q
                p[0] = 1 - q
                return p

            def r_mode(b):
                s = sample_of_reads(b["reads"])
                P = b["ploidy"]
                g = rnp.zeros(P, dtype=int)
                g[-1] = 1
                return (g, 0.0, gpm.get(s, 0.5), 0.9, rnp.full(3, 1 / 3), rnp.full(3, 0.5))

            mod.genotype_likelihoods = rec_fn(orig(ex, "genotype_likelihoods"), r_llks, log, "genotype_likelihoods")
            mod.genotype_posteriors = rec_fn(orig(ex, "genotype_posteriors"), r_post, log, "genotype_posteriors")
            mod.posterior_mode = rec_fn(orig(ex, "posterior_mode"), r_mode, log, "posterior_mode")
            locus = _Locus()
        else:
            mod = E.load("mchap.application.call_pedigree")
            cc = E.load("mchap.calling.classes")
            pcl = E.load("mchap.pedigree.classes")
            mod.minimum_error_correction = lambda calls, haps: rnp.zeros(1)

            def make_trace(kw, f):
                # the REAL trace class over a padded array (-1 beyond each sample's ploidy, as the sampler stores it); alleles are
                # indices into the haplotypes handed to the sampler (the unmasked subset when the reference is masked)
                steps, maxp = 8, max(PLOIDY[s] for s in samples)
                g = rnp.full((1, steps, len(samples), maxp), -1, dtype=rnp.int16)
                for i, s in enumerate(samples):
                    g[0, :, i, : PLOIDY[s]] = 0
                    g[0, : int(round(gpm[s] * steps)), i, PLOIDY[s] - 1] = 1
                tr = pcl.PedigreeAllelesMultiTrace(g, n_allele=len(kw["haplotypes"]))
                cls_ = type(tr)

                class PT(cls_):
                    def burn(self, n):
                        log.append(("burn", None, n))
                        return self

                    def incongruence(self, *a, **k):
                        log.append(("ped-incongruence", k))
                        return rnp.array([0.125 * (i + 1) for i in range(len(samples))])

                return PT(g, n_allele=len(kw["haplotypes"]))

            mod.PedigreeCallingMCMC = rec_class(orig(pcl, "PedigreeCallingMCMC"), make_trace, log)
            locus = _Locus()
            if c.get("masked"):  # reference masked: the sampler sees alleles 1 and 2 only and its trace is relabelled afterwards
                locus.mask_reference_allele = True
                locus.frequencies = rnp.array([0.0, 0.5, 0.5])

        mod.qual_of_prob = lambda p: 0  # Phred scaling (log10) is formatting, not wiring
        if hasattr(mod, "natural_log_to_log10"):
            mod.natural_log_to_log10 = lambda x: x
        prog = mod.program.__new__(mod.program)
        prog.info_fields, prog.format_fields = [], list(fmt)
        for k, v in OPTS.items():
            setattr(prog, k, v)
        prog.samples = samples
        prog.sample_ploidy = dict(PLOIDY)
        prog.sample_inbreeding = {s: E.SymReal(F[s]) for s in SAMPLES}
        prog.sample_mcmc_temperatures = dict(TEMPS)
        if prog_name == "call-pedigree":
            prog.sample_parents = {"s0": (None, None), "s1": ("s0", None), "s2": ("s1", "s0")}
            prog.gamete_ploidy = {"s0": (1, 1), "s1": (1, 2), "s2": (3, 1)}
            prog.gamete_ibd = {"s0": (0.0, 0.0), "s1": (0.0, 0.125), "s2": (0.25, 0.0)}
            prog.gamete_error = {"s0": (0.01, 0.02), "s1": (0.03, 0.04), "s2": (0.05, 0.06)}
        data = prog._locus_data(locus, {s: [] for s in samples})
        for s in samples:
            data.read_calls[s] = rnp.zeros((N_READS[s], 1), dtype=int)
            data.read_dists[s] = reads[s]
            data.read_counts[s] = counts[s]
        leak = None
        if c.get("twice"):
            # history independence: the same locus processed a second time by the same program object must give the same
            # record, and neither the program object nor any module-level container may have been changed by the first pass
            before = snapshot_state(prog)
            prog.call_sample_genotypes(data)
            prog.sumarise_vcf_record(data)
            rec1 = data.format_vcf_record()
            after = snapshot_state(prog)
            if prog_name != "assemble":
                # a DIFFERENT locus in between (reference masked, other prior): whatever it leaves behind must not reach the next one
                other = _Locus()
                other.mask_reference_allele = True
                other.frequencies = rnp.array([0.0, 0.5, 0.5])
                d_o = prog._locus_data(other, {s: [] for s in samples})
                for s in samples:
                    d_o.read_calls[s] = rnp.zeros((N_READS[s], 1), dtype=int)
                    d_o.read_dists[s] = reads[s]
                    d_o.read_counts[s] = counts[s]
                try:
                    prog.call_sample_genotypes(d_o)
                    prog.sumarise_vcf_record(d_o)
                    d_o.format_vcf_record()
                except Exception:  # the in-between locus is not the subject
                    pass
            data2 = prog._locus_data(locus, {s: [] for s in samples})
            for s in samples:
                data2.read_calls[s] = rnp.zeros((N_READS[s], 1), dtype=int)
                data2.read_dists[s] = reads[s]
                data2.read_counts[s] = counts[s]
            prog.call_sample_genotypes(data2)
            prog.sumarise_vcf_record(data2)
            rec2 = data2.format_vcf_record()
            leak = (diff_state(before, after), rec1, rec2)
        else:
            prog.call_sample_genotypes(data)
        out = {s: data.sampledata[FORMAT.GPM].get(s) for s in samples}
        gts = {s: data.sampledata[FORMAT.GT].get(s) for s in samples}
        return F, reads, counts, gpm, log, samples, out, gts, leak

    first = True
    for pr in E.explore(body, stats=col.stats):
        if pr.exc is not None:
            e = pr.exc.__cause__ or pr.exc
            col.fail(site, "exception", shape=dict(prog=prog_name), witness=dict(exc=repr(e), order=list(order)), desc="raised %r" % (e,))
            continue
        col.path()
        if first:
            col.reachable(pr.ctx)
            first = False
        F, reads, counts, gpm, log, samples, out, gts, leak = pr.value
        if leak is not None:
            changed, rec1, rec2 = leak
            if changed:
                col.fail(site, "state-leak", shape=dict(prog=prog_name), witness=dict(prog=prog_name, order=list(order), changed=changed[:4]),
                         desc="processing a locus changed state that outlives it: %s" % "; ".join(changed[:3]))
            elif rec1 != rec2:
                col.fail(site, "history-dependence", shape=dict(prog=prog_name), witness=dict(prog=prog_name, order=list(order), first=rec1[:300], second=rec2[:300]),
                         desc="the same locus processed again by one program object (another locus in between) gives a different record")
            else:
                col.ok("%s: a locus leaves the program object and every module-level container unchanged, and processing it again after a different (reference-masked) locus gives the identical record" % prog_name)
            continue
        err, claims = verify(prog_name, F, reads, counts, gpm, log, samples, out, gts,
                             eqr=lambda a, b: E.real_term(a) == (b if z3.is_expr(b) else z3.RealVal(repr(b))), num=lambda x: E.to_float(x))
        w = dict(prog=prog_name, order=list(order))
        if err:
            col.fail(site, "sample-wiring", shape=dict(prog=prog_name), witness=dict(w, why=err), desc=err, model=E.model_dict(E.prove(pr.ctx, False).model))
        else:
            col.check(pr.ctx, z3.And(claims) if claims else z3.BoolVal(True), site, "sample-wiring", shape=dict(prog=prog_name), witness=w,
                      desc="%s: each sample's sampler / exact kernel receives its own ploidy, inbreeding (distinct symbolic reals), temperatures, reads, counts and the program's options; each column comes from its own trace (sample order %s)" % (prog_name, list(order)))


def _arr_eq(a, b):
    a, b = rnp.asarray(a), rnp.asarray(b)
    return a.shape == b.shape and bool(rnp.all((a == b) | (rnp.isnan(a.astype(float)) & rnp.isnan(b.astype(float)))))


def verify(prog_name, F, reads, counts, gpm, log, samples, out, gts, eqr, num):
    """returns (structural error or None, [claims about symbolic inbreeding])"""
    claims = []

    def sample_of(r):
        for s in SAMPLES:
            if r is reads[s]:
                return s
        return None

    if prog_name in ("assemble", "call"):
        calls = [x for x in log if isinstance(x[0], dict)]
        seen = []
        for kw, f in calls:
            s = sample_of(f.get("reads"))
            if s is None:
                return "a sampler is fitted to reads that are no sample's read matrix", claims
            seen.append(s)
            if f.get("read_counts") is not counts[s]:
                return "sample %s: fit() receives read counts that are not its own" % s, claims
            if kw.get("ploidy") != PLOIDY[s]:
                return "sample %s (ploidy %d): sampler constructed with ploidy %r" % (s, PLOIDY[s], kw.get("ploidy")), claims
            claims.append(eqr(kw.get("inbreeding"), F[s]))
            want = dict(steps=OPTS["mcmc_steps"], chains=OPTS["mcmc_chains"], random_seed=OPTS["random_seed"])
            if prog_name == "assemble":
                want.update(fix_homozygous=OPTS["mcmc_fix_homozygous"], recombination_step_probability=OPTS["mcmc_recombination_step_probability"],
                            partial_dosage_step_probability=OPTS["mcmc_partial_dosage_step_probability"], dosage_step_probability=OPTS["mcmc_dosage_step_probability"],
                            llk_cache_threshold=OPTS["mcmc_llk_cache_threshold"], temperatures=TEMPS[s], n_alleles=[3])
            else:
                if not _arr_eq(kw.get("haplotypes"), [[0], [1], [2]]) or not _arr_eq(kw.get("frequencies"), [0.5, 0.25, 0.25]):
                    return "sample %s: sampler receives haplotypes/frequencies %r / %r" % (s, kw.get("haplotypes"), kw.get("frequencies")), claims
            for k, v in want.items():
                got = kw.get(k)
                same = (list(got) == list(v)) if isinstance(v, (list, tuple)) and got is not None and hasattr(got, "__len__") else (got == v)
                if not same:
                    return "sample %s: sampler option %s=%r (program / sample value is %r)" % (s, k, got, v), claims
        if sorted(seen) != sorted(samples):
            return "samplers were fitted for %s, samples are %s" % (seen, samples), claims
        burns = [x for x in log if x[0] == "burn"]
        if sorted(x[1] for x in burns) != sorted(samples) or any(x[2] != OPTS["mcmc_burn"] for x in burns):
            return "burn-in calls %s (expected one of %d steps per sample)" % (burns, OPTS["mcmc_burn"]), claims
    elif prog_name.startswith("call-exact"):
        gp = prog_name.endswith("-gp")
        names = ["genotype_likelihoods", "genotype_posteriors"] if gp else ["posterior_mode"]
        calls = [x for x in log if x[0] in ("genotype_likelihoods", "genotype_posteriors", "posterior_mode")]
        if [x[0] for x in calls] != names * len(samples):
            return "exact kernels called as %s" % [x[0] for x in calls], claims
        per = len(names)
        for i, s in enumerate(samples):
            for name, b in calls[i * per:(i + 1) * per]:
                if b.get("ploidy") != PLOIDY[s]:
                    return "sample %s (ploidy %d): %s called with ploidy %r" % (s, PLOIDY[s], name, b.get("ploidy")), claims
                if name in ("genotype_likelihoods", "posterior_mode"):
                    if b.get("reads") is not reads[s] or b.get("read_counts") is not counts[s]:
                        return "sample %s: %s receives reads / counts that are not its own" % (s, name), claims
                    if not _arr_eq(b.get("haplotypes"), [[0], [1], [2]]):
                        return "sample %s: %s receives haplotypes %r" % (s, name, b.get("haplotypes")), claims
                if name in ("genotype_posteriors", "posterior_mode"):
                    claims.append(eqr(b.get("inbreeding"), F[s]))
                    if not _arr_eq(b.get("frequencies"), [0.5, 0.25, 0.25]):
                        return "sample %s: %s receives frequencies %r" % (s, name, b.get("frequencies")), claims
                if name == "genotype_posteriors" and b.get("n_alleles") != 3:
                    return "sample %s: genotype_posteriors n_alleles=%r" % (s, b.get("n_alleles")), claims
    else:
        calls = [x for x in log if isinstance(x[0], dict)]
        if len(calls) != 1:
            return "PedigreeCallingMCMC fitted %d times" % len(calls), claims
        kw, f = calls[0]
        idx = {s: i for i, s in enumerate(samples)}
        idx[None] = -1
        parents = {"s0": (None, None), "s1": ("s0", None), "s2": ("s1", "s0")}
        tau = {"s0": (1, 1), "s1": (1, 2), "s2": (3, 1)}
        lam = {"s0": (0.0, 0.0), "s1": (0.0, 0.125), "s2": (0.25, 0.0)}
        err = {"s0": (0.01, 0.02), "s1": (0.03, 0.04), "s2": (0.05, 0.06)}
        if [int(x) for x in kw["sample_ploidy"]] != [PLOIDY[s] for s in samples]:
            return "sample_ploidy %r for samples %s" % (list(kw["sample_ploidy"]), samples), claims
        if [[int(x) for x in r] for r in kw["sample_parents"]] != [[idx[p] for p in parents[s]] for s in samples]:
            return "sample_parents %r for samples %s with parents %s" % (rnp.asarray(kw["sample_parents"]).tolist(), samples, parents), claims
        if [[int(x) for x in r] for r in kw["gamete_tau"]] != [list(tau[s]) for s in samples]:
            return "gamete_tau %r" % (rnp.asarray(kw["gamete_tau"]).tolist(),), claims
        if not _arr_eq(rnp.asarray(kw["gamete_lambda"], dtype=float), [list(lam[s]) for s in samples]) or not _arr_eq(rnp.asarray(kw["gamete_error"], dtype=float), [list(err[s]) for s in samples]):
            return "gamete_lambda / gamete_error rows are not in sample order", claims
        for i, s in enumerate(samples):
            claims.append(eqr(kw["sample_inbreeding"][i], F[s]))
        for k, v in dict(steps=OPTS["mcmc_steps"], chains=OPTS["mcmc_chains"], random_seed=OPTS["random_seed"], annealing=OPTS["mcmc_burn"]).items():
            if kw.get(k) != v:
                return "PedigreeCallingMCMC option %s=%r (program value %r)" % (k, kw.get(k), v), claims
        want_h, want_f = ([[1], [2]], [0.5, 0.5]) if MASKED[0] else ([[0], [1], [2]], [0.5, 0.25, 0.25])
        if not _arr_eq(kw.get("haplotypes"), want_h) or not _arr_eq(kw.get("frequencies"), want_f):
            return "PedigreeCallingMCMC haplotypes/frequencies %r / %r" % (kw.get("haplotypes"), kw.get("frequencies")), claims
        sr, sc = rnp.asarray(f["sample_reads"], dtype=float), rnp.asarray(f["sample_read_counts"])
        for i, s in enumerate(samples):
            n = N_READS[s]
            if not _arr_eq(sr[i, :n], reads[s]) or not rnp.all(rnp.isnan(sr[i, n:])) or [int(x) for x in sc[i, :n]] != [int(x) for x in counts[s]] or any(int(x) != 0 for x in sc[i, n:]):
                return "row %d of the stacked reads / counts is not sample %s's own (NaN / 0 padded) data" % (i, s), claims
        burns = [x for x in log if x[0] == "burn"]
        if [x[2] for x in burns] != [OPTS["mcmc_burn"]]:
            return "pedigree trace burn-in calls %s" % (burns,), claims
    # every column comes from the sample's own trace
    for s in samples:
        if out.get(s) is None or abs(num(out[s]) - gpm[s]) > 1e-9:
            return "column of %s reports GPM=%r, its own trace says %r" % (s, None if out.get(s) is None else num(out[s]), gpm[s]), claims
        if gts.get(s) is None or len(gts[s]) != PLOIDY[s]:
            return "column of %s has a GT of %r entries (ploidy %d)" % (s, None if gts.get(s) is None else len(gts[s]), PLOIDY[s]), claims
        if MASKED[0]:
            # the trace holds indices into the unmasked subset (0 -> allele 1, 1 -> allele 2): P-1 copies of the first and at most one of the second
            g = sorted(int(a) for a in gts[s])
            if g[:-1] != [1] * (PLOIDY[s] - 1) or g[-1] not in (1, 2):
                return "column of %s reports GT %s; its own trace (relabelled to the unmasked alleles 1, 2) only visits %s and %s" % (s, g, [1] * PLOIDY[s], [1] * (PLOIDY[s] - 1) + [2]), claims
    return None, claims


# ====================================================================== sampler classes -> jitted kernels
# (used by C01 / C02 / C18: the kernels those checks verify are only the program's sampler if fit() hands them the object's
# own parameters)

CLASSES = ["denovo", "calling-gibbs", "calling-mh", "pedigree-gibbs", "pedigree-mh", "pedigree-gibbs-flat"]  # -flat: frequencies left at the default (None = flat prior)


def _np_seed_shim(mod, log):
    """mod.np with random.seed recorded (every other attribute is the module's own numpy / facade)"""
    base = orig(mod, "np")

    class R:
        @staticmethod
        def seed(s):
            log.append(("seed_numpy", s))

        def __getattr__(self, k):
            return getattr(base.random, k)

    class S:
        random = R()

        def __getattr__(self, k):
            return getattr(base, k)

    mod.np = S()


def run_class(c, col):
    which = c["cls"]
    if E.load is _ENGINE_LOAD:
        E.reset_modules()  # the recorders replace module attributes: start from freshly loaded shadow modules
    E.cfg.concrete_ints = True

    def body(ctx):
        F = E.fresh_real(ctx, "F", 0, 1)
        log = []
        counts = rnp.array([2, 1, 3])
        if which == "denovo":
            mc = E.load("mchap.assemble.mcmc")
            reads = rnp.full((3, 3, 3), 0.25)
            hp = rnp.zeros((3, 3))
            hp[1, 2] = 0.9375  # the middle site is fixed to allele 2: only sites 0 and 2 reach the sampler

            def r_hom(b):
                return hp

            def r_asm(b):
                n_het = b["reads"].shape[1]
                return rnp.zeros((1, b["steps"], 3, n_het), dtype=rnp.int8), rnp.zeros((1, b["steps"]))

            real_hom, real_asm = orig(mc, "_homozygosity_probabilities"), orig(mc, "_denovo_assembler")
            mc._homozygosity_probabilities = rec_fn(real_hom, r_hom, log, "_homozygosity_probabilities")
            mc._denovo_assembler = rec_fn(real_asm, r_asm, log, "_denovo_assembler")
            mc._read_mean_dist = lambda r: rnp.full((r.shape[1], 3), 1 / 3)
            mc.sample_snv_alleles = lambda dist: rnp.zeros(len(dist), dtype=rnp.int8)
            mc.seed_numba = lambda s: log.append(("seed_numba", s))
            _np_seed_shim(mc, log)
            obj = mc.DenovoMCMC(ploidy=3, n_alleles=[2, 3, 2], inbreeding=E.SymReal(F), steps=5, chains=2, fix_homozygous=0.875, recombination_step_probability=0.25,
                                partial_dosage_step_probability=0.375, dosage_step_probability=0.625, temperatures=(0.5, 0.25, 1.0), random_seed=11, llk_cache_threshold=77, n_intervals=2)
            obj.fit(reads, read_counts=counts)
            return F, log, dict(reads=reads, counts=counts)
        if which.startswith("calling"):
            cc = E.load("mchap.calling.classes")
            reads = rnp.full((3, 2, 2), 0.25)
            haps = rnp.array([[0, 0], [0, 1], [1, 1]], dtype=rnp.int8)
            freqs = rnp.array([0.5, 0.25, 0.25])
            init = rnp.array([0, 1, 2], dtype=rnp.int8)
            real_s, real_g = orig(cc, "mcmc_sampler"), orig(cc, "greedy_caller")
            cc.mcmc_sampler = rec_fn(real_s, lambda b: (rnp.zeros((b["n_steps"], 3), dtype=rnp.int8), rnp.zeros(b["n_steps"])), log, "mcmc_sampler")
            cc.greedy_caller = rec_fn(real_g, lambda b: init, log, "greedy_caller")
            cc.seed_numba = lambda s: log.append(("seed_numba", s))
            _np_seed_shim(cc, log)
            obj = cc.CallingMCMC(ploidy=3, haplotypes=haps, frequencies=freqs, inbreeding=E.SymReal(F), steps=5, chains=2, random_seed=11,
                                 step_type="Gibbs" if which.endswith("gibbs") else "Metropolis-Hastings")
            obj.fit(reads, read_counts=counts)
            return F, log, dict(reads=reads, counts=counts, haps=haps, freqs=freqs, init=init)
        pc = E.load("mchap.pedigree.classes")
        haps = rnp.array([[0, 0], [0, 1], [1, 1]], dtype=rnp.int8)
        freqs = rnp.array([0.5, 0.25, 0.25])
        sreads = rnp.full((3, 2, 2, 2), 0.25)
        scounts = rnp.array([[1, 2], [3, 0], [4, 5]])
        kw = dict(sample_ploidy=rnp.array([2, 4, 3]), sample_parents=rnp.array([[-1, -1], [-1, -1], [0, 1]]), gamete_tau=rnp.array([[1, 1], [2, 2], [1, 2]]),
                  gamete_lambda=rnp.array([[0.0, 0.0], [0.125, 0.0], [0.0, 0.25]]), gamete_error=rnp.array([[0.01, 0.02], [0.03, 0.04], [0.05, 0.06]]))
        real_s, real_g = orig(pc, "mcmc_sampler"), orig(pc, "greedy_caller")
        pc.mcmc_sampler = rec_fn(real_s, lambda b: rnp.zeros((b["n_steps"], 3, 4), dtype=rnp.int16), log, "mcmc_sampler")
        pc.greedy_caller = rec_fn(real_g, lambda b: rnp.zeros(int(b["ploidy"]), dtype=rnp.int8), log, "greedy_caller")
        pc.seed_numba = lambda s: log.append(("seed_numba", s))
        _np_seed_shim(pc, log)
        Fs = [E.SymReal(F), E.SymReal(E.fresh_real(ctx, "F1", 0, 1)), E.SymReal(E.fresh_real(ctx, "F2", 0, 1))]
        flat = which.endswith("-flat")
        obj = pc.PedigreeCallingMCMC(sample_inbreeding=Fs, haplotypes=haps, steps=5, annealing=3, chains=2, random_seed=11,
                                     step_type="Gibbs" if "gibbs" in which else "Metropolis-Hastings", swap_parental_alleles=True, **(kw if flat else dict(kw, frequencies=freqs)))
        obj.fit(sreads, scounts)
        return F, log, dict(kw, sreads=sreads, scounts=scounts, haps=haps, freqs=freqs, Fs=Fs)

    site = {"denovo": "mchap.assemble.mcmc.DenovoMCMC.fit", "calling": "mchap.calling.classes.CallingMCMC.fit", "pedigree": "mchap.pedigree.classes.PedigreeCallingMCMC.fit"}[which.split("-")[0]]
    first = True
    for pr in E.explore(body, stats=col.stats):
        if pr.exc is not None:
            col.fail(site, "exception", shape=dict(cls=which), witness=dict(exc=repr(pr.exc)), desc="raised %r" % (pr.exc,))
            continue
        col.path()
        if first:
            col.reachable(pr.ctx)
            first = False
        F, log, x = pr.value
        err, claims = verify_class(which, F, log, x, eqr=lambda a, b: E.real_term(a) == (b if z3.is_expr(b) else E.real_term(b)), num=lambda v: E.to_float(v))
        if err:
            col.fail(site, "kernel-wiring", shape=dict(cls=which), witness=dict(cls=which, why=err), desc=err, model=E.model_dict(E.prove(pr.ctx, False).model))
        else:
            col.check(pr.ctx, z3.And(claims) if claims else z3.BoolVal(True), site, "kernel-wiring", shape=dict(cls=which), witness=dict(cls=which),
                      desc="%s.fit hands the jitted kernels the object's own parameters (symbolic inbreeding, counts, frequencies / log frequencies, step type, temperatures sorted ascending, probabilities, cache threshold), once per chain" % which)


def verify_class(which, F, log, x, eqr, num):
    claims = []
    calls = [e for e in log if e[0] not in ("seed_numba", "seed_numpy")]
    if which == "denovo":
        hom = [b for n, b in calls if n == "_homozygosity_probabilities"]
        asm = [b for n, b in calls if n == "_denovo_assembler"]
        if len(hom) != 2 or len(asm) != 2:
            return "expected one homozygosity screen and one sampler run per chain (2 chains): %d / %d" % (len(hom), len(asm)), claims
        for b in hom:
            if b["reads"] is not x["reads"] or b["read_counts"] is not x["counts"] or [int(v) for v in b["n_alleles"]] != [2, 3, 2] or b["ploidy"] != 3:
                return "_homozygosity_probabilities does not receive the object's reads / counts / n_alleles / ploidy", claims
            claims.append(eqr(b["inbreeding"], F))
        for b in asm:
            claims.append(eqr(b["inbreeding"], F))
            if b["read_counts"] is not x["counts"]:
                return "_denovo_assembler receives read counts that are not fit()'s", claims
            if b["reads"].shape != (3, 2, 3) or [int(v) for v in b["n_alleles"]] != [2, 2] or b["genotype"].shape != (3, 2):
                return "_denovo_assembler does not receive exactly the non-fixed sites (reads %s, n_alleles %s)" % (b["reads"].shape, list(b["n_alleles"])), claims
            want = dict(steps=5, recombination_step_probability=0.25, partial_dosage_step_probability=0.375, dosage_step_probability=0.625, return_heated_trace=False, llk_cache_threshold=77)
            for k, v in want.items():
                if b[k] != v:
                    return "_denovo_assembler %s=%r (object has %r)" % (k, b[k], v), claims
            if [float(t) for t in b["temperatures"]] != [0.25, 0.5, 1.0]:
                return "_denovo_assembler temperatures %r (expected the object's ladder sorted ascending, ending in 1)" % (list(b["temperatures"]),), claims
            if [float(v) for v in b["break_dist"]] != [0.0, 1.0]:
                return "_denovo_assembler break_dist %r for n_intervals=2" % (list(b["break_dist"]),), claims
    elif which.startswith("calling"):
        gr = [b for n, b in calls if n == "greedy_caller"]
        sm = [b for n, b in calls if n == "mcmc_sampler"]
        if len(gr) != 1 or len(sm) != 2:
            return "expected one greedy initial call and one sampler run per chain: %d / %d" % (len(gr), len(sm)), claims
        for b in gr + sm:
            if b["reads"] is not x["reads"] or b["read_counts"] is not x["counts"] or b["haplotypes"] is not x["haps"]:
                return "kernel does not receive the object's haplotypes / fit()'s reads and counts", claims
            claims.append(eqr(b["inbreeding"], F))
        if gr[0]["ploidy"] != 3:
            return "greedy_caller ploidy %r" % gr[0]["ploidy"], claims
        for b in sm:
            if b["frequencies"] is not x["freqs"] or b["genotype_alleles"] is not x["init"] or b["n_steps"] != 5 or b["step_type"] != (0 if which.endswith("gibbs") else 1):
                return "mcmc_sampler frequencies / initial genotype / n_steps / step_type = %r / %r / %r / %r" % (b["frequencies"], b["genotype_alleles"], b["n_steps"], b["step_type"]), claims
    else:
        gr = [b for n, b in calls if n == "greedy_caller"]
        sm = [b for n, b in calls if n == "mcmc_sampler"]
        if len(gr) != 3 or len(sm) != 2:
            return "expected one greedy call per sample and one sampler run per chain: %d / %d" % (len(gr), len(sm)), claims
        for i, b in enumerate(gr):
            if int(b["ploidy"]) != [2, 4, 3][i] or not _arr_eq(b["reads"], x["sreads"][i]) or not _arr_eq(b["read_counts"], x["scounts"][i]) or b["haplotypes"] is not x["haps"]:
                return "greedy_caller for sample %d does not receive that sample's ploidy / reads / counts" % i, claims
            claims.append(eqr(b["inbreeding"], x["Fs"][i]))
        for b in sm:
            for k in ("sample_ploidy", "sample_parents", "gamete_tau", "gamete_lambda", "gamete_error"):
                if b[k] is not x[k]:
                    return "mcmc_sampler %s is not the object's array" % k, claims
            if b["sample_read_dists"] is not x["sreads"] or b["sample_read_counts"] is not x["scounts"] or b["haplotypes"] is not x["haps"]:
                return "mcmc_sampler does not receive fit()'s reads / counts / the object's haplotypes", claims
            if b["n_steps"] != 5 or b["annealing"] != 3 or b["step_type"] != (0 if "gibbs" in which else 1) or b["swap_parental_alleles"] is not True:
                return "mcmc_sampler n_steps / annealing / step_type / swap = %r / %r / %r / %r" % (b["n_steps"], b["annealing"], b["step_type"], b["swap_parental_alleles"]), claims
            lf = [num(v) for v in b["log_frequencies"]]
            want_f = [1 / 3] * 3 if which.endswith("-flat") else [0.5, 0.25, 0.25]  # no frequencies given: the flat prior 1/n (a proper distribution)
            if any(abs(a - math.log(f)) > 1e-9 for a, f in zip(lf, want_f)) or len(lf) != 3:
                return "mcmc_sampler log_frequencies %r are not the logs of the object's frequencies %r" % (lf, want_f), claims
            g0 = rnp.asarray(b["sample_genotypes"])
            if g0.shape != (3, 4) or [int(v) for v in (g0 >= 0).sum(axis=1)] != [2, 4, 3]:
                return "initial genotypes are not padded per sample ploidy: %r" % (g0.tolist(),), claims
    seeds = [e for e in log if e[0] in ("seed_numba", "seed_numpy")]
    if sorted(seeds) != [("seed_numba", 11), ("seed_numpy", 11)]:
        return "generators seeded %r (expected numpy and numba once each with the object's seed 11)" % (seeds,), claims
    return None, claims


# ====================================================================== command line -> program attributes
CLI_PROGS = {"assemble": "mchap.application.assemble", "call": "mchap.application.call", "call-exact": "mchap.application.call_exact",
             "call-pedigree": "mchap.application.call_pedigree"}
# option -> (values on the command line, attribute of the program object, expected value of that attribute)
_MCMC = [(["--mcmc-chains", "3"], "mcmc_chains", 3), (["--mcmc-steps", "17"], "mcmc_steps", 17), (["--mcmc-burn", "5"], "mcmc_burn", 5),
         (["--mcmc-chain-incongruence-threshold", "0.55"], "mcmc_incongruence_threshold", 0.55)]
CLI_ATTRS = {
    "assemble": _MCMC + [(["--mcmc-fix-homozygous", "0.875"], "mcmc_fix_homozygous", 0.875), (["--mcmc-recombination-step-probability", "0.25"], "mcmc_recombination_step_probability", 0.25),
                         (["--mcmc-partial-dosage-step-probability", "0.375"], "mcmc_partial_dosage_step_probability", 0.375), (["--mcmc-dosage-step-probability", "0.625"], "mcmc_dosage_step_probability", 0.625),
                         (["--mcmc-llk-cache-threshold", "77"], "mcmc_llk_cache_threshold", 77), (["--haplotype-posterior-threshold", "0.3125"], "haplotype_posterior_threshold", 0.3125),
                         (["--inbreeding", "0.125"], "sample_inbreeding", "each:0.125"), (["--mcmc-temperatures", "0.5", "0.25"], "sample_mcmc_temperatures", "each:[0.25, 0.5, 1.0]")],
    "call": _MCMC + [(["--inbreeding", "0.125"], "sample_inbreeding", "each:0.125"), (["--prior-frequencies", "AFP"], "prior_frequencies_tag", "AFP"),
                     (["--filter-input-haplotypes", "AFP>=0.1"], "filter_input_haplotypes", "AFP>=0.1")],
    "call-exact": [(["--inbreeding", "0.125"], "sample_inbreeding", "each:0.125"), (["--prior-frequencies", "AFP"], "prior_frequencies_tag", "AFP"),
                   (["--filter-input-haplotypes", "AFP>=0.1"], "filter_input_haplotypes", "AFP>=0.1")],
    "call-pedigree": _MCMC + [(["--prior-frequencies", "AFP"], "prior_frequencies_tag", "AFP"), (["--gamete-error", "0.0625"], "gamete_error", "each:(0.0625, 0.0625)"),
                              (["--gamete-ibd", "0.03125"], "gamete_ibd", "each:(0.03125, 0.03125)")],
}


# legal boundary values: zero is a value, not "option absent"
CLI_ZERO = {
    "assemble": [(["--mcmc-burn", "0"], "mcmc_burn", 0), (["--haplotype-posterior-threshold", "0"], "haplotype_posterior_threshold", 0.0),
                 (["--mcmc-llk-cache-threshold", "0"], "mcmc_llk_cache_threshold", 0), (["--mcmc-recombination-step-probability", "0"], "mcmc_recombination_step_probability", 0.0),
                 (["--mcmc-partial-dosage-step-probability", "0"], "mcmc_partial_dosage_step_probability", 0.0), (["--mcmc-dosage-step-probability", "0"], "mcmc_dosage_step_probability", 0.0),
                 (["--mcmc-fix-homozygous", "0"], "mcmc_fix_homozygous", 0.0), (["--inbreeding", "0"], "sample_inbreeding", "each:0.0")],
    "call": [(["--mcmc-burn", "0"], "mcmc_burn", 0), (["--inbreeding", "0"], "sample_inbreeding", "each:0.0"), (["--mcmc-chain-incongruence-threshold", "0"], "mcmc_incongruence_threshold", 0.0)],
    "call-exact": [(["--inbreeding", "0"], "sample_inbreeding", "each:0.0")],
    "call-pedigree": [(["--mcmc-burn", "0"], "mcmc_burn", 0), (["--gamete-error", "0"], "gamete_error", "each:(0.0, 0.0)"), (["--gamete-ibd", "0"], "gamete_ibd", "each:(0.0, 0.0)")],
}


def cli_attrs_drive(load, progname, choice):
    """program.cli(<argv>) on the repository's test files with every numeric / string option given a distinctive value (or all
    left out: the parser's defaults are not compared with anything -- no property fixes them); returns (problems, command).  The seed is drawn from {0, 29}: 0 is a legal seed."""
    import contextlib
    import io
    import os

    data = os.path.join(E.repo_root(), "mchap", "tests", "test_io", "data")
    mod = load(CLI_PROGS[progname])
    given = int(choice("given", 0, 2))  # 0: options left out, 1: distinctive values, 2: zeros (legal boundary values)
    table = {0: [], 1: CLI_ATTRS[progname], 2: CLI_ZERO[progname]}[given]
    seed = [None, 0, 29][int(choice("seed", 0, 2))] if progname != "call-exact" else None
    ploidy = [2, 4][int(choice("ploidy", 0, 1))]
    cmd = ["mchap", progname, "--bam"] + [os.path.join(data, "simple.sample%d.bam" % i) for i in (1, 2, 3)] + ["--ploidy", str(ploidy)]
    if progname == "assemble":
        cmd += ["--targets", os.path.join(data, "simple.bed.gz"), "--variants", os.path.join(data, "simple.vcf.gz"), "--reference", os.path.join(data, "simple.fasta")]
    else:
        cmd += ["--haplotypes", os.path.join(data, "simple.output.assemble.vcf")]
    if progname == "call-pedigree":
        cmd += ["--sample-parents", os.path.join(data, "simple.pedigree.132.txt")]
    if seed is not None:
        cmd += ["--mcmc-seed", str(seed)]
    for vals, _, _ in table:
        cmd += vals
    with contextlib.redirect_stdout(io.StringIO()):
        prog = mod.program.cli(cmd)
    bad = []
    for vals, attr, want in table:
        got = getattr(prog, attr)
        if isinstance(want, str) and want.startswith("each:"):
            w = want[5:]
            vs = list(got.values()) if isinstance(got, dict) else list(got)
            if not vs or any(repr(_plainv(x)) != w for x in vs):
                bad.append("%s gives %s=%s (every sample should have %s)" % (" ".join(vals), attr, str(got)[:80], w))
        elif _plainv(got) != want or isinstance(_plainv(got), bool) or (type(_plainv(got)) is not type(want) and not (isinstance(want, float) and isinstance(_plainv(got), (int, float)))):
            bad.append("%s gives %s=%r" % (" ".join(vals), attr, got))
    if seed is not None and (prog.random_seed != seed or isinstance(prog.random_seed, bool)):
        bad.append("--mcmc-seed %d gives random_seed=%r" % (seed, prog.random_seed))
    sp = list(prog.sample_ploidy.values()) if isinstance(prog.sample_ploidy, dict) else list(prog.sample_ploidy)
    if not sp or any(int(x) != ploidy for x in sp):
        bad.append("--ploidy %d gives sample_ploidy=%s" % (ploidy, str(prog.sample_ploidy)[:80]))
    return sorted(set(bad)), cmd


def _plainv(x):
    if isinstance(x, rnp.generic):
        return x.item()
    if isinstance(x, rnp.ndarray):
        return x.tolist()
    if isinstance(x, (list, tuple)):
        return type(x)(_plainv(v) for v in x)
    return x


def run_cli_attrs(c, col):
    if E.load is _ENGINE_LOAD:
        E.reset_modules()
    E.cfg.concrete_ints = True
    E.cfg.concrete_floats = True
    site = "mchap.application.%s.program.cli" % c["prog"].replace("-", "_")
    try:
        def body(ctx):
            return cli_attrs_drive(E.load, c["prog"], lambda name, lo, hi: int(E.SymInt(E.fresh_int(ctx, name, lo, hi))))

        first = True
        for pr in E.explore(body, stats=col.stats):
            if pr.exc is not None:
                col.fail(site, "exception", shape=dict(prog=c["prog"]), witness=dict(exc=repr(pr.exc)), desc="%s raised %r" % (c["prog"], pr.exc), model=E.model_dict(E.prove(pr.ctx, False).model))
                continue
            col.path()
            if first:
                col.reachable(pr.ctx)
                first = False
            bad, cmd = pr.value
            if bad:
                col.fail(site, "cli-attribute", shape=dict(prog=c["prog"]), witness=dict(prog=c["prog"], problems=bad), desc="; ".join(bad)[:300], model=E.model_dict(E.prove(pr.ctx, False).model))
            else:
                col.ok("every option of the command line is the program object's attribute of the same meaning (%s; settings solver-enumerated)" % c["prog"])
    finally:
        E.cfg.concrete_floats = False


# ====================================================================== a model object fitted twice


def _snap(v):
    """value snapshot of a kernel argument (taken when the kernel is called)"""
    if isinstance(v, rnp.ndarray):
        return ("array", v.shape, [_snap(x) for x in v.ravel().tolist()] if v.dtype == object else v.ravel().tolist())
    if isinstance(v, E.Sym):
        return ("sym", str(getattr(v, "e", None) if getattr(v, "e", None) is not None else getattr(v, "lf", v)))
    if hasattr(v, "keys") and hasattr(v, "__getitem__"):
        return ("mapping", sorted((repr(k), repr(v[k])) for k in v.keys()))
    if isinstance(v, (list, tuple)):
        return ("seq", [_snap(x) for x in v])
    return ("value", repr(v))


def _use(b):
    """what a kernel may do with what it is handed: containers it can write to are written to"""
    for k, v in b.items():
        if hasattr(v, "keys") and hasattr(v, "__setitem__"):
            try:
                v[-(len(v) + 7)] = 0.5
            except Exception:
                pass


def run_refit(c, col):
    """one model object fitted to reads A and then to reads B must hand the kernels exactly what a fresh object fitted to B
    hands them: nothing a fit computes may be carried into the next (the public classes are parameterised once and reused)"""
    which = c["cls"]
    if E.load is _ENGINE_LOAD:
        E.reset_modules()
    E.cfg.concrete_ints = True
    site = {"denovo": "mchap.assemble.mcmc.DenovoMCMC.fit", "calling": "mchap.calling.classes.CallingMCMC.fit", "pedigree": "mchap.pedigree.classes.PedigreeCallingMCMC.fit"}[which.split("-")[0]]

    def body(ctx):
        F = E.fresh_real(ctx, "F", 0, 1)
        log = []

        def rec(real_fn, result, name):
            def f(*a, **k):
                b = _bind(real_fn, a, k)
                log.append((name, {kk: _snap(vv) for kk, vv in b.items()}))
                _use(b)
                return result(b)
            return f

        if which == "denovo":
            mc = E.load("mchap.assemble.mcmc")
            hp = rnp.zeros((3, 3))
            hp[1, 2] = 0.9375
            mc._homozygosity_probabilities = rec(orig(mc, "_homozygosity_probabilities"), lambda b: hp, "_homozygosity_probabilities")
            mc._denovo_assembler = rec(orig(mc, "_denovo_assembler"), lambda b: (rnp.zeros((1, b["steps"], 3, b["reads"].shape[1]), dtype=rnp.int8), rnp.zeros((1, b["steps"]))), "_denovo_assembler")
            mc._read_mean_dist = lambda r: rnp.full((r.shape[1], 3), 1 / 3)
            mc.sample_snv_alleles = lambda dist: rnp.zeros(len(dist), dtype=rnp.int8)
            mc.seed_numba = lambda s_: log.append(("seed_numba", s_))
            _np_seed_shim(mc, log)

            def make():
                return mc.DenovoMCMC(ploidy=3, n_alleles=[2, 3, 2], inbreeding=E.SymReal(F), steps=5, chains=2, fix_homozygous=0.875, recombination_step_probability=0.25,
                                     partial_dosage_step_probability=0.375, dosage_step_probability=0.625, temperatures=(0.5, 0.25, 1.0), random_seed=11, llk_cache_threshold=77, n_intervals=2)

            A = (rnp.full((3, 3, 3), 0.25), rnp.array([2, 1, 3]))
            B = (rnp.full((2, 3, 3), 0.125), rnp.array([4, 5]))
            fit = lambda o, x: o.fit(x[0], read_counts=x[1])  # noqa: E731
        elif which.startswith("calling"):
            cc = E.load("mchap.calling.classes")
            haps = rnp.array([[0, 0], [0, 1], [1, 1]], dtype=rnp.int8)
            freqs = rnp.array([0.5, 0.25, 0.25])
            cc.mcmc_sampler = rec(orig(cc, "mcmc_sampler"), lambda b: (rnp.zeros((b["n_steps"], 3), dtype=rnp.int8), rnp.zeros(b["n_steps"])), "mcmc_sampler")
            cc.greedy_caller = rec(orig(cc, "greedy_caller"), lambda b: rnp.array([0, 1, 2], dtype=rnp.int8), "greedy_caller")
            cc.seed_numba = lambda s_: log.append(("seed_numba", s_))
            _np_seed_shim(cc, log)

            def make():
                return cc.CallingMCMC(ploidy=3, haplotypes=haps, frequencies=freqs, inbreeding=E.SymReal(F), steps=5, chains=2, random_seed=11,
                                      step_type="Gibbs" if which.endswith("gibbs") else "Metropolis-Hastings")

            A = (rnp.full((3, 2, 2), 0.25), rnp.array([2, 1, 3]))
            B = (rnp.full((2, 2, 2), 0.125), rnp.array([4, 5]))
            fit = lambda o, x: o.fit(x[0], read_counts=x[1])  # noqa: E731
        else:
            pc = E.load("mchap.pedigree.classes")
            haps = rnp.array([[0, 0], [0, 1], [1, 1]], dtype=rnp.int8)
            freqs = rnp.array([0.5, 0.25, 0.25])
            kw = dict(sample_ploidy=rnp.array([2, 4, 3]), sample_parents=rnp.array([[-1, -1], [-1, -1], [0, 1]]), gamete_tau=rnp.array([[1, 1], [2, 2], [1, 2]]),
                      gamete_lambda=rnp.array([[0.0, 0.0], [0.125, 0.0], [0.0, 0.25]]), gamete_error=rnp.array([[0.01, 0.02], [0.03, 0.04], [0.05, 0.06]]))
            pc.mcmc_sampler = rec(orig(pc, "mcmc_sampler"), lambda b: rnp.zeros((b["n_steps"], 3, 4), dtype=rnp.int16), "mcmc_sampler")
            pc.greedy_caller = rec(orig(pc, "greedy_caller"), lambda b: rnp.zeros(int(b["ploidy"]), dtype=rnp.int8), "greedy_caller")
            pc.seed_numba = lambda s_: log.append(("seed_numba", s_))
            _np_seed_shim(pc, log)
            Fs = [E.SymReal(F), E.SymReal(E.fresh_real(ctx, "F1", 0, 1)), E.SymReal(E.fresh_real(ctx, "F2", 0, 1))]

            def make():
                return pc.PedigreeCallingMCMC(sample_inbreeding=Fs, haplotypes=haps, frequencies=freqs, steps=5, annealing=3, chains=2, random_seed=11,
                                              step_type="Gibbs" if "gibbs" in which else "Metropolis-Hastings", swap_parental_alleles=True, **kw)

            A = (rnp.full((3, 2, 2, 2), 0.25), rnp.array([[1, 2], [3, 0], [4, 5]]))
            B = (rnp.full((3, 3, 2, 2), 0.125), rnp.array([[1, 1, 2], [3, 3, 0], [4, 4, 5]]))
            fit = lambda o, x: o.fit(x[0], x[1])  # noqa: E731
        obj = make()
        fit(obj, A)
        n1 = len(log)
        fit(obj, B)
        n2 = len(log)
        fit(make(), B)
        return log[n1:n2], log[n2:]

    first = True
    for pr in E.explore(body, stats=col.stats):
        if pr.exc is not None:
            col.fail(site, "exception", shape=dict(cls=which, refit=True), witness=dict(exc=repr(pr.exc)), desc="raised %r" % (pr.exc,))
            continue
        col.path()
        if first:
            col.reachable(pr.ctx)
            first = False
        second, fresh = pr.value
        why = None
        if [n for n, _ in second] != [n for n, _ in fresh]:
            why = "a second fit of the same object makes the calls %s, a fresh object %s" % ([n for n, _ in second], [n for n, _ in fresh])
        else:
            for (n, a), (_, b) in zip(second, fresh):
                if isinstance(a, dict):
                    diff = [k for k in b if a.get(k) != b.get(k)] + [k for k in a if k not in b]
                    if diff:
                        why = "%s receives %s=%s on the second fit of an object, %s from a fresh object (same parameters, same reads)" % (n, diff[0], str(a.get(diff[0]))[:90], str(b.get(diff[0]))[:90])
                        break
                elif a != b:
                    why = "%s(%r) on the second fit, %s(%r) from a fresh object" % (n, a, n, b)
                    break
        if why:
            col.fail(site, "fit-history-dependence", shape=dict(cls=which), witness=dict(cls=which, why=why), desc=why, model=E.model_dict(E.prove(pr.ctx, False).model))
        else:
            col.ok("the kernels receive identical arguments from the second fit of a reused %s object and from a fresh one (containers they may write to included)" % which)


# ====================================================================== replay: the same drivers on the REAL modules


def replay_real(v, driver):
    """run `driver(config, collector)` with the real mchap modules in place of the shadow ones and the solver's values for the
    symbolic reals/ints; every module attribute a driver overwrites is restored afterwards"""
    import importlib

    m = v.get("model") or (v.get("witness") or {}).get("model") or {}
    touched = {}

    def load(name, keep_init=False):
        mod = importlib.import_module(name)
        if name not in touched:
            touched[name] = (mod, dict(vars(mod)))
        return mod

    def fr(ctx, name, lo=None, hi=None, lo_strict=True, hi_strict=True):
        default = {"F": 0.375, "F1": 0.125, "F2": 0.625, "F_s0": 0.375, "F_s1": 0.125, "F_s2": 0.625}.get(name, 0.5)
        return z3.RealVal(repr(float(m.get(name, default))))

    class _One:
        def __init__(self):
            self.fails = []
            self.stats = E.Stats()

        def path(self, n=1):
            pass

        def reachable(self, ctx):
            return True

        def ok(self, desc=None):
            pass

        def fail(self, site, kind, shape=None, witness=None, desc=None, model=None):
            self.fails.append((kind, desc))

        def check(self, ctx, claim, site, kind, **k):
            if not z3.is_true(z3.simplify(claim)):
                self.fails.append((kind, k.get("desc")))
            return True

    saved = (E.load, E.fresh_int, E.fresh_real)
    E.load = load
    E.fresh_int = lambda ctx, name, lo, hi: z3.IntVal(max(lo, min(hi, int(m.get(name, lo)))))
    E.fresh_real = fr
    col = _One()
    try:
        driver(v["config"], col)
    except Exception as e:
        return False, "replay driver failed: %r" % (e,)
    finally:
        E.load, E.fresh_int, E.fresh_real = saved
        for name, (mod, snap) in touched.items():
            for k, val in snap.items():
                if vars(mod).get(k) is not val:
                    setattr(mod, k, val)
            vars(mod).pop("__wiring_orig__", None)
    if col.fails:
        return True, "real modules: %s" % (col.fails[0][1],)
    return False, "real modules: wiring as expected"


# ====================================================================== sampler loops -> steps (C02 / C18)

LOOPS = ["calling-loop", "calling-loop-nocache", "pedigree-loop", "pedigree-sweep"]


def _np_shuffle_shim(mod, ctx, tag):
    """mod.np whose random.shuffle applies a solver-chosen permutation (every permutation is explored)"""
    base = orig(mod, "np")
    n_calls = [0]

    class R:
        @staticmethod
        def shuffle(a):
            n = len(a)
            perms = list(itertools.permutations(range(n)))
            k = int(E.SymInt(E.fresh_int(ctx, "%s_perm%d" % (tag, n_calls[0]), 0, len(perms) - 1))) if n > 1 else 0
            n_calls[0] += 1
            vals = [a[i] for i in perms[k]]
            for i, v in enumerate(vals):
                a[i] = v

        def __getattr__(self, k):
            return getattr(base.random, k)

    class S:
        random = R()

        def __getattr__(self, k):
            return getattr(base, k)

    mod.np = S()


def run_loop(c, col):
    which = c["loop"]
    if E.load is _ENGINE_LOAD:
        E.reset_modules()
    E.cfg.concrete_ints = True

    def body(ctx):
        log = []
        F = E.fresh_real(ctx, "F", 0, 1)
        if which.startswith("calling-loop"):
            cm = E.load("mchap.calling.mcmc")
            haps = rnp.array([[0, 0], [0, 1], [1, 1]], dtype=rnp.int8)
            reads = rnp.full((3, 2, 2), 0.25)
            counts = rnp.array([2, 1, 3])
            freqs = rnp.array([0.5, 0.25, 0.25])
            init = rnp.array([0, 1, 2], dtype=rnp.int8)
            k = [0]

            def r_step(b):
                k[0] += 1
                g = b["genotype_alleles"]
                g[0] = k[0] % 3
                g[2] = (2 * k[0]) % 3
                return 0.5 + k[0]

            real = orig(cm, "compound_step")
            cm.compound_step = rec_fn(real, r_step, log, "compound_step")
            fn = orig(cm, "mcmc_sampler")
            fn = getattr(fn, "py_func", fn)
            if "cache" not in inspect.signature(fn).parameters:
                # the harness addresses the sampler's cache switch by name: an interface it no longer matches is not a verdict on the code
                raise E.Inconclusive("harness/interface mismatch: calling mcmc_sampler has no parameter 'cache' any more")
            gt, lt = fn(genotype_alleles=init, haplotypes=haps, reads=reads, read_counts=counts, inbreeding=E.SymReal(F), frequencies=freqs, n_steps=4,
                        cache=not which.endswith("nocache"), step_type=1)
            return F, log, dict(haps=haps, reads=reads, counts=counts, freqs=freqs, init=init, gt=gt, lt=lt)
        pm = E.load("mchap.pedigree.mcmc")
        haps = rnp.array([[0, 0], [0, 1], [1, 1]], dtype=rnp.int8)
        x = dict(sample_ploidy=rnp.array([2, 2, 2, 2]), sample_parents=rnp.array([[-1, -1], [-1, -1], [0, 1], [0, 1]]), gamete_tau=rnp.ones((4, 2), dtype=int),
                 gamete_lambda=rnp.zeros((4, 2)), gamete_error=rnp.full((4, 2), 0.01), sample_read_dists=rnp.full((4, 1, 2, 2), 0.25),
                 sample_read_counts=rnp.ones((4, 1), dtype=int), haplotypes=haps, log_frequencies=rnp.log(rnp.array([0.5, 0.25, 0.25])))
        init = rnp.array([[0, 1], [1, 2], [0, 2], [2, 2]], dtype=rnp.int16)
        if which == "pedigree-loop":
            k = [0]

            def r_comp(b):
                k[0] += 1
                b["sample_genotypes"][0, 0] = k[0] % 3
                b["sample_genotypes"][3, 1] = (k[0] + 1) % 3
                return None

            def r_swap(b):
                b["sample_genotypes"][1, 0] = (b["sample_genotypes"][1, 0] + 1) % 3
                return 0.5

            rc, rs = orig(pm, "compound_step"), orig(pm, "pair_allele_swap_step")
            pm.compound_step = rec_fn(rc, r_comp, log, "compound_step")
            pm.pair_allele_swap_step = rec_fn(rs, r_swap, log, "pair_allele_swap_step")
            fn = orig(pm, "mcmc_sampler")
            fn = getattr(fn, "py_func", fn)
            tr = fn(sample_genotypes=init, n_steps=3, annealing=0, step_type=1, swap_parental_alleles=True, **x)
            return F, log, dict(x, init=init, tr=tr)
        # pedigree-sweep: compound_step -> sample_step -> allele_step under every shuffle outcome
        ra = orig(pm, "allele_step")
        pm.allele_step = rec_fn(ra, lambda b: None, log, "allele_step")
        ss = orig(pm, "sample_step")
        pm.sample_step = getattr(ss, "py_func", ss)  # (on the real module: run the dispatcher's Python body so that the recorder is seen)
        _np_shuffle_shim(pm, ctx, "sh")
        x3 = dict(x)
        for kk in ("sample_ploidy", "sample_parents", "gamete_tau", "gamete_lambda", "gamete_error", "sample_read_dists", "sample_read_counts"):
            x3[kk] = x[kk][:3]
        x3["sample_ploidy"] = rnp.array([1, 3, 2])
        g3 = rnp.array([[0, -1, -1], [1, 2, 0], [0, 2, -1]], dtype=rnp.int16)
        children = rnp.array([[2, -1], [2, -1], [-1, -1]])
        scratch = {n_: rnp.zeros(3, dtype=rnp.int64) for n_ in ("dosage", "dosage_p", "dosage_q", "gamete_p", "gamete_q", "constraint_p", "constraint_q")}
        fn = orig(pm, "compound_step")
        fn = getattr(fn, "py_func", fn)
        cache = {}
        fn(sample_genotypes=g3, sample_children=children, llk_cache=cache, step_type=1, dosage_log_frequencies=rnp.zeros(3), **x3, **scratch)
        return F, log, dict(x3, g3=g3, children=children, cache=cache)

    site = {"calling": "mchap.calling.mcmc.mcmc_sampler", "pedigree": "mchap.pedigree.mcmc.mcmc_sampler"}[which.split("-")[0]]
    if which == "pedigree-sweep":
        site = "mchap.pedigree.mcmc.compound_step"
    first = True
    for pr in E.explore(body, stats=col.stats):
        if pr.exc is not None:
            col.fail(site, "exception", shape=dict(loop=which), witness=dict(exc=repr(pr.exc)), desc="raised %r" % (pr.exc,))
            continue
        col.path()
        if first:
            col.reachable(pr.ctx)
            first = False
        F, log, x = pr.value
        err, claims = verify_loop(which, F, log, x, eqr=lambda a, b: E.real_term(a) == (b if z3.is_expr(b) else E.real_term(b)))
        if err:
            col.fail(site, "loop-wiring", shape=dict(loop=which), witness=dict(loop=which, why=err), desc=err, model=E.model_dict(E.prove(pr.ctx, False).model))
        else:
            col.check(pr.ctx, z3.And(claims) if claims else z3.BoolVal(True), site, "loop-wiring", shape=dict(loop=which), witness=dict(loop=which),
                      desc={"calling-loop": "calling mcmc_sampler: one compound step per iteration with the sampler's own arguments and ONE cache; the trace records the state and llk after each step; the caller's initial genotype is not modified",
                            "calling-loop-nocache": "calling mcmc_sampler with cache=False passes no cache",
                            "pedigree-loop": "pedigree mcmc_sampler: one compound step then one allele swap per parental pair and iteration, same arrays and ONE cache; trace = sorted state after each iteration",
                            "pedigree-sweep": "pedigree compound_step: every (sample, allele copy) exactly once per sweep for every shuffle outcome, with the sampler's arguments"}[which])


def verify_loop(which, F, log, x, eqr):
    claims = []
    if which.startswith("calling-loop"):
        calls = [b for n, b in log if n == "compound_step"]
        if len(calls) != 4:
            return "compound_step called %d times for n_steps=4" % len(calls), claims
        caches = {id(b["llk_cache"]) for b in calls}
        for b in calls:
            if b["haplotypes"] is not x["haps"] or b["reads"] is not x["reads"] or b["read_counts"] is not x["counts"] or b["frequencies"] is not x["freqs"] or b["step_type"] != 1:
                return "compound_step does not receive the sampler's haplotypes / reads / counts / frequencies / step_type", claims
            claims.append(eqr(b["inbreeding"], F))
            if which.endswith("nocache"):
                if b["llk_cache"] is not None:
                    return "cache=False but compound_step receives a cache", claims
            elif not isinstance(b["llk_cache"], dict) or len(caches) != 1:
                return "cache=True: compound_step must receive one and the same dict in every iteration", claims
        if [int(v) for v in x["init"]] != [0, 1, 2]:
            return "the caller's initial genotype array was modified: %r" % (x["init"].tolist(),), claims
        want_g = [[k % 3, 1, (2 * k) % 3] for k in range(1, 5)]
        if rnp.asarray(x["gt"]).tolist() != want_g or [float(v) for v in x["lt"]] != [0.5 + k for k in range(1, 5)]:
            return "trace %r / %r is not the state / llk after each step (%r)" % (rnp.asarray(x["gt"]).tolist(), [float(v) for v in x["lt"]], want_g), claims
        return None, claims
    names = ("sample_ploidy", "sample_parents", "gamete_tau", "gamete_lambda", "gamete_error", "sample_read_dists", "sample_read_counts", "haplotypes", "log_frequencies")
    if which == "pedigree-loop":
        seq = [n for n, _ in log]
        if seq != ["compound_step", "pair_allele_swap_step"] * 3:
            return "per iteration expected one compound step and one swap for the single parental pair (0,1); got %s" % seq, claims
        caches = {id(b["llk_cache"]) for _, b in log}
        gens = {id(b["sample_genotypes"]) for _, b in log}
        if len(caches) != 1 or len(gens) != 1:
            return "steps of one run must share one cache and one state array", claims
        for n, b in log:
            for k in names:
                if b[k] is not x[k]:
                    return "%s: %s is not the sampler's array" % (n, k), claims
            if n == "compound_step":
                if b["step_type"] != 1 or rnp.asarray(b["sample_children"]).tolist()[:2] != [[2, 3], [2, 3]]:
                    return "compound_step step_type / children matrix = %r / %r" % (b["step_type"], rnp.asarray(b["sample_children"]).tolist()), claims
            else:
                mb = rnp.asarray(b["markov_blanket"])
                members = sorted(int(v) for v in (rnp.nonzero(mb)[0] if mb.dtype == bool else mb[mb >= 0]))
                if (int(b["p"]), int(b["q"])) != (0, 1) or members != [0, 1, 2, 3]:
                    return "swap step for pair (%s,%s) with blanket %r (expected pair (0,1) and its blanket: both parents and their children)" % (b["p"], b["q"], rnp.asarray(b["markov_blanket"]).tolist()), claims
        if rnp.asarray(x["init"]).tolist() != [[0, 1], [1, 2], [0, 2], [2, 2]]:
            return "the caller's initial genotypes were modified", claims
        st = [[0, 1], [1, 2], [0, 2], [2, 2]]
        want = []
        for k in range(1, 4):
            st[0][0] = k % 3
            st[3][1] = (k + 1) % 3
            st[1][0] = (st[1][0] + 1) % 3
            want.append([sorted(r) for r in st])
        if rnp.asarray(x["tr"]).tolist() != want:
            return "trace %r is not the sorted state after each iteration %r" % (rnp.asarray(x["tr"]).tolist(), want), claims
        return None, claims
    calls = [b for n, b in log if n == "allele_step"]
    visited = sorted((int(b["target_index"]), int(b["allele_index"])) for b in calls)
    want = sorted((t, a) for t, P in enumerate([1, 3, 2]) for a in range(P))
    if visited != want:
        return "sweep visits (sample, copy) %r, expected every pair once: %r" % (visited, want), claims
    for b in calls:
        for k in ("sample_ploidy", "sample_parents", "gamete_tau", "gamete_lambda", "gamete_error", "sample_read_dists", "sample_read_counts", "haplotypes", "log_frequencies"):
            if b[k] is not x[k]:
                return "allele_step: %s is not the sweep's array" % k, claims
        if b["sample_genotypes"] is not x["g3"] or b["sample_children"] is not x["children"] or b["llk_cache"] is not x["cache"] or b["step_type"] != 1:
            return "allele_step does not receive the sweep's state / children / cache / step_type", claims
    return None, claims



# ====================================================================== state that outlives a locus (C08: "regardless of what was computed earlier")


def _plain_repr(v, depth=0):
    if depth > 4:
        return "..."
    if isinstance(v, dict):
        return "{" + ", ".join("%s: %s" % (_plain_repr(k, depth + 1), _plain_repr(x, depth + 1)) for k, x in v.items()) + "}"
    if isinstance(v, (list, tuple, set, frozenset)):
        items = [_plain_repr(x, depth + 1) for x in v]
        if isinstance(v, (set, frozenset)):
            items = sorted(items)
        return type(v).__name__ + "(" + ", ".join(items) + ")"
    if isinstance(v, rnp.ndarray):
        return "array(%s, %s)" % (v.shape, [str(x) for x in v.ravel()[:50]])
    if isinstance(v, (int, float, str, bool, type(None))):
        return repr(v)
    if isinstance(v, E.Sym):
        return str(v)
    return "<%s>" % type(v).__name__ if callable(v) or isinstance(v, type(E)) else repr(v)[:200]


def snapshot_state(prog):
    """module-level containers of every loaded repository module and the program object's attributes, as comparable text"""
    import sys

    snap = {}
    mods = dict(E._modules) if E.load is _ENGINE_LOAD else {k: m for k, m in sys.modules.items() if k.startswith("mchap.") and m is not None}
    for name, mod in mods.items():
        for k, v in list(vars(mod).items()):
            if k.startswith("__") or not isinstance(v, (list, dict, set, rnp.ndarray)):
                continue
            if isinstance(v, rnp.ndarray) and v.size > 5000:
                snap["%s.%s" % (name, k)] = "array %s sum=%r" % (v.shape, float(v.sum()) if v.dtype != object else None)
            else:
                snap["%s.%s" % (name, k)] = _plain_repr(v)
    for k, v in vars(prog).items():
        snap["program.%s" % k] = _plain_repr(v)
    return snap


def diff_state(a, b):
    out = []
    for k in sorted(set(a) | set(b)):
        if a.get(k) != b.get(k):
            out.append("%s: %s -> %s" % (k, (a.get(k) or "<absent>")[:120], (b.get(k) or "<absent>")[:120]))
    return out
