"""C17 -- pedigree inheritance model is a proper probability distribution."""
import numpy as rnp
import z3

from nbsym import engine as E
from oracle import models as M

ID = "C17"
TITLE = "trio_log_pmf equals the independent gamete-pair oracle, sums to one; gamete pmf sums to one; zero-error pmf>0 iff trio_valid/duo_valid iff Mendelian oracle"
ENCODED = [
    "mchap.pedigree.prior.trio_log_pmf", "mchap.pedigree.prior.gamete_log_pmf", "mchap.pedigree.prior.increment_dosage",
    "mchap.pedigree.prior.set_initial_dosage", "mchap.pedigree.prior.dosage_permutations",
    "mchap.pedigree.prior.double_reduction_permutations", "mchap.pedigree.prior.log_unknown_dosage_prior",
    "mchap.pedigree.prior.set_allelic_dosage", "mchap.pedigree.prior.set_parental_copies",
    "mchap.pedigree.validation.trio_valid", "mchap.pedigree.validation.duo_valid", "mchap.jitutils.comb",
    "mchap.pedigree.classes.PedigreeAllelesMultiTrace.incongruence", "mchap.pedigree.classes._trace_incongruence",
]
STUBS = ["mchap.jitutils.add_log_prob -> ln(e^x+e^y) summary (lemma-checked in C17 itself on every run)"]
ASSUMES = ["allele frequencies symbolic > 0 summing to one", "error rates symbolic in (0,1) or the endpoints 0 / 1",
           "lambda symbolic in (0,1) (tau = 2 only, from a parent of any ploidy >= 2 incl. a diploid giving an unreduced gamete) or exactly 0"]
BOUNDS = {
    "quick": "parent p enumerated up to allele relabelling (thorough: all); trios 2x*2x (3 alleles), 4x*4x (2-3 alleles, with/without lambda), 2x*4x->3x (2 alleles), one/both parents unknown, clones tau=(0,2),(2,0),(4,0) with both parents known (2 alleles); all parent and progeny genotypes enumerated",
    "thorough": "adds 6x*6x (2 alleles), 2x*4x->3x and 4x*2x->3x with 3 alleles, clones tau=(0,2),(0,4),(4,0), 6x*2x->4x, unreduced tau=(2,2) from diploids",
}
OUTSIDE = "ploidy > 6, more than 4 alleles, float rounding"

# (ploidy_p, ploidy_q, tau_p, tau_q, n_alleles)   ploidy 0 = unknown parent
QUICK = [(2, 2, 1, 1, 3), (4, 4, 2, 2, 2), (4, 4, 2, 2, 3), (2, 4, 1, 2, 2), (2, 0, 1, 1, 3), (0, 0, 1, 1, 2), (4, 0, 2, 2, 2), (0, 4, 2, 2, 2),
         # clones of one KNOWN parent next to another known parent that contributes nothing (tau = 0 on either side)
         (2, 2, 0, 2, 2), (2, 2, 2, 0, 2), (4, 2, 4, 0, 2),
         # unreduced (tau = 2) gamete of a diploid next to an unknown parent, with and without double reduction
         (2, 0, 2, 1, 3), (0, 2, 1, 2, 2)]
# (4x*4x with 4 alleles -- 35 parent genotypes each -- was three quarters of the tier's cost, > 30 min on the loaded sandbox: sized out)
THOROUGH = QUICK + [(6, 6, 3, 3, 2), (2, 4, 1, 2, 3), (4, 2, 2, 1, 3), (2, 2, 0, 2, 3), (4, 4, 0, 4, 2), (4, 4, 4, 0, 2),
                    (6, 2, 3, 1, 2), (2, 2, 2, 2, 2), (6, 4, 3, 2, 2), (0, 0, 2, 2, 3), (6, 0, 3, 3, 2)]


def configs(tier):
    out = []
    for (pp, pq, tp, tq, nA) in (QUICK if tier == "quick" else THOROUGH):
        Ps = M.genotypes(nA, pp) if pp else [None]
        if tier == "quick" and pp:
            # quick tier: parent p up to allele relabelling (q and the progeny still range over everything)
            Ps = [g for g in Ps if _canonical(g)]
        lam_modes = [0]
        if (tp == 2 and pp >= 2) or (tq == 2 and pq >= 2):
            lam_modes.append(1)
        for P in Ps:
            for lam in lam_modes:
                for err in ("sym", "zero", "p0q1"):
                    if err == "p0q1" and not (pp and pq):
                        continue
                    if err == "zero" and not (pp or pq):
                        continue
                    out.append(dict(pp=pp, pq=pq, tp=tp, tq=tq, nA=nA, P=list(P) if P else None, lam=lam, err=err))
    out.append(dict(kind="lemma"))
    # PEDERR: the fraction of retained steps in which an individual fails the same validity test, against its OWN pedigree edges
    for name in (PEDERR_QUICK if tier == "quick" else list(PEDERR_PEDS)):
        out.append(dict(kind="pederr", ped=name))
    return out


# name -> (ploidies, parents, tau, lambda); genotypes over 2 alleles
PEDERR_PEDS = {
    "duo-p-unbalanced": ([2, 4], [[-1, -1], [0, -1]], [[1, 1], [1, 3]], [[0.0, 0.0], [0.0, 0.0]]),
    "duo-q-unbalanced": ([2, 4], [[-1, -1], [-1, 0]], [[1, 1], [3, 1]], [[0.0, 0.0], [0.0, 0.0]]),
    "duo-clone": ([2, 2], [[-1, -1], [0, -1]], [[1, 1], [2, 0]], [[0.0, 0.0], [0.0, 0.0]]),
    "duo-lambda-p": ([4, 4], [[-1, -1], [0, -1]], [[2, 2], [2, 2]], [[0.0, 0.0], [0.125, 0.0]]),
    "duo-lambda-q": ([4, 4], [[-1, -1], [-1, 0]], [[2, 2], [2, 2]], [[0.0, 0.0], [0.0, 0.125]]),
    "duo-unreduced-lambda": ([2, 4], [[-1, -1], [0, -1]], [[1, 1], [2, 2]], [[0.0, 0.0], [0.125, 0.0]]),
    "trio-unbalanced": ([2, 4, 3], [[-1, -1], [-1, -1], [0, 1]], [[1, 1], [2, 2], [1, 2]], [[0.0, 0.0]] * 3),
    "trio-lambda": ([4, 4, 4], [[-1, -1], [-1, -1], [1, 0]], [[2, 2], [2, 2], [2, 2]], [[0.0, 0.0], [0.0, 0.0], [0.125, 0.0]]),
}
PEDERR_QUICK = ["duo-p-unbalanced", "duo-q-unbalanced", "duo-clone", "duo-lambda-p", "duo-lambda-q", "duo-unreduced-lambda", "trio-unbalanced"]


def _canonical(g):
    """first-appearance labelling with non-increasing counts: 0001 yes, 0111 no"""
    cs = [g.count(a) for a in sorted(set(g))]
    return sorted(set(g)) == list(range(len(set(g)))) and cs == sorted(cs, reverse=True)


def weight(c):
    if c.get("kind") == "lemma":
        return 0
    if c.get("kind") == "pederr":
        return 500
    return (c["tp"] + c["tq"]) ** c["nA"] * (2 if c["lam"] else 1)


def _pad(g, n):
    g = list(g) if g is not None else []
    return E.np.array(g + [-1] * (n - len(g)), dtype=rnp.int64)


def _params(ctx, c):
    fs = E.simplex(ctx, "f", c["nA"])
    if c["err"] == "sym":
        ep = E.fresh_real(ctx, "ep", 0, 1)
        eq = E.fresh_real(ctx, "eq", 0, 1)
    elif c["err"] == "zero":
        ep = eq = 0
    else:
        ep, eq = 0, 1
    lp = E.fresh_real(ctx, "lp", 0, 1) if (c["lam"] and c["tp"] == 2 and c["pp"] >= 4) else 0
    lq = E.fresh_real(ctx, "lq", 0, 1) if (c["lam"] and c["tq"] == 2 and c["pq"] >= 4) else 0
    return fs, ep, eq, lp, lq


def _sym(x):
    return E.SymReal(x) if z3.is_expr(x) else float(x)


def run_config(c, col):
    E.use_summaries(True)
    E.reset_modules()
    E.cfg.concrete_ints = True
    if c.get("kind") == "lemma":
        return _lemma(col)
    if c.get("kind") == "pederr":
        return _run_pederr(c, col)
    pp_ = E.load("mchap.pedigree.prior")
    pv = E.load("mchap.pedigree.validation")
    nA, tp, tq = c["nA"], c["tp"], c["tq"]
    ploidy = tp + tq
    mp = max(ploidy, c["pp"], c["pq"])
    P = tuple(c["P"]) if c["P"] is not None else None
    Qs = M.genotypes(nA, c["pq"]) if c["pq"] else [None]
    progs = M.genotypes(nA, ploidy)
    site = "mchap.pedigree.prior.trio_log_pmf"
    shape = dict(balanced=(tp == tq), lam=bool(c["lam"]), err=c["err"], unknown=(not c["pp"]) + (not c["pq"]))
    prof = E.Profile()
    first = True
    with prof:
        for Q in Qs:
            def body(ctx):
                fs, ep, eq, lp, lq = _params(ctx, c)
                logf = E.real_array(fs, log=True)
                scr = [rnp.zeros(mp, dtype=rnp.int64) for _ in range(7)]
                dlf = E.np.zeros(mp, dtype=float)
                vals = {}
                valid = {}
                for g in progs:
                    l = pp_.trio_log_pmf(_pad(g, mp), _pad(P, mp), _pad(Q, mp), c["pp"], c["pq"], tp, tq, _sym(lp), _sym(lq),
                                         _sym(ep) if c["pp"] else 1.0, _sym(eq) if c["pq"] else 1.0, logf, *scr, dlf)
                    vals[g] = E.exp_term(l)
                    if c["err"] == "zero" and c["pp"] and c["pq"]:
                        valid[g] = bool(pv.trio_valid(_pad(g, ploidy), _pad(P, max(ploidy, c["pp"]))[: max(c["pp"], 1)] if False else E.np.array(list(P), dtype=rnp.int64),
                                                      E.np.array(list(Q), dtype=rnp.int64), tp, tq, _sym(lp), _sym(lq)))
                    elif c["err"] == "zero" and c["pp"] and tp > 0:
                        valid[g] = None
                return fs, ep, eq, lp, lq, vals, valid

            for pr in E.explore(body, stats=col.stats):
                if pr.exc is not None:
                    col.fail(site, "exception", shape=shape, witness=dict(P=P, Q=Q, exc=repr(pr.exc)), desc="trio_log_pmf raised %r" % (pr.exc,),
                             model=E.model_dict(_model(pr.ctx)))
                    continue
                col.path()
                ctx = pr.ctx
                fs, ep, eq, lp, lq, vals, valid = pr.value
                if first:
                    col.reachable(ctx)
                    first = False
                f = {i: fs[i] for i in range(nA)}
                e_p = ep if c["pp"] else 1
                e_q = eq if c["pq"] else 1
                w = dict(P=P, Q=Q)
                col.check(ctx, z3.Sum(list(vals.values())) == 1, site, "sum-to-one", shape=shape, witness=w,
                          desc="sum over progeny genotypes of trio pmf == 1 [%dx*%dx tau=(%d,%d) A=%d err=%s lam=%d]" % (c["pp"], c["pq"], tp, tq, nA, c["err"], c["lam"]))
                for g in progs:
                    orc = M.trio_pmf(g, P, Q, tp, tq, lp, lq, e_p, e_q, f)
                    col.check(ctx, vals[g] == orc, site, "pmf-vs-oracle", shape=shape, witness=dict(P=P, Q=Q, g=g),
                              desc="trio pmf(progeny) == sum over gamete pairs oracle [%dx*%dx tau=(%d,%d) err=%s lam=%d]" % (c["pp"], c["pq"], tp, tq, c["err"], c["lam"]))
                    if g in valid and valid[g] is not None:
                        orv = M.mendelian_valid(g, P, Q, tp, tq, dr_p=z3.is_expr(lp), dr_q=z3.is_expr(lq))
                        if valid[g] != orv:
                            col.fail("mchap.pedigree.validation.trio_valid", "validity-vs-oracle", shape=shape, witness=dict(P=P, Q=Q, g=g, got=valid[g], want=orv),
                                     desc="trio_valid != Mendelian oracle", model=E.model_dict(_model(ctx)))
                        else:
                            col.ok("trio_valid == Mendelian-support oracle (decided on the path)")
                        col.check(ctx, (vals[g] > 0) if valid[g] else (vals[g] == 0), site, "positive-iff-valid", shape=shape,
                                  witness=dict(P=P, Q=Q, g=g, valid=valid[g]), desc="zero error: pmf > 0 iff trio_valid")
        # gamete pmf sums to one (per parent genotype), duo validity
        if P is not None and tp > 0 and c["err"] == "sym":
            def body2(ctx):
                _, _, _, lp, _ = _params(ctx, c)
                tot = 0
                for g in M.genotypes(nA, tp):
                    gd = rnp.array([g.count(a) for a in range(nA)], dtype=rnp.int64)
                    pd = rnp.array([P.count(a) for a in range(nA)], dtype=rnp.int64)
                    tot = tot + E.np.exp(pp_.gamete_log_pmf(gd, tp, pd, c["pp"], _sym(lp)))
                duo = {}
                for g in progs:
                    # as the PEDERR code calls it: both genotypes sliced to their own ploidy
                    duo[g] = bool(pv.duo_valid(E.np.array(list(g), dtype=rnp.int64), E.np.array(list(P), dtype=rnp.int64), tp, _sym(lp)))
                return lp, tot, duo

            for pr in E.explore(body2, stats=col.stats):
                if pr.exc is not None:
                    raise pr.exc
                col.path()
                lp, tot, duo = pr.value
                col.check(pr.ctx, E.real_term(tot) == 1, "mchap.pedigree.prior.gamete_log_pmf", "gamete-sum-to-one", shape=shape, witness=dict(P=P),
                          desc="sum over gametes of gamete pmf == 1 [%dx tau=%d lam=%d]" % (c["pp"], tp, c["lam"]))
                for g, v in duo.items():
                    want = M.duo_mendelian_valid(g, P, tp, dr=z3.is_expr(lp))
                    if v != want:
                        col.fail("mchap.pedigree.validation.duo_valid", "validity-vs-oracle", shape=shape, witness=dict(P=P, g=g, got=v, want=want),
                                 desc="duo_valid != oracle", model=E.model_dict(_model(pr.ctx)))
                    else:
                        col.ok("duo_valid == Mendelian-support oracle (decided on the path)")
    col.functions |= set(prof.names())


def _model(ctx):
    r = E.prove(ctx, False, timeout=10000)
    return r.model


def _lemma(col):
    """the summary used for add_log_prob / normalise_log_probs equals the real function on arbitrary inputs"""
    E.use_summaries(False)
    E.reset_modules()
    ju = E.load("mchap.jitutils")

    def body(ctx):
        a = E.fresh_real(ctx, "a", 0, None, lo_strict=False)
        b = E.fresh_real(ctx, "b", 0, None, lo_strict=False)
        x, y = E.np.log(E.SymReal(a)), E.np.log(E.SymReal(b))
        return a, b, ju.add_log_prob(x, y)

    for pr in E.explore(body, stats=col.stats):
        if pr.exc is not None:
            raise pr.exc
        col.path()
        a, b, r = pr.value
        col.check(pr.ctx, E.exp_term(r) == a + b, "mchap.jitutils.add_log_prob", "summary-lemma",
                  desc="exp(add_log_prob(ln a, ln b)) == a + b for all a,b >= 0 (incl. both zero)")

    def body2(ctx):
        vs = [E.fresh_real(ctx, "v%d" % i, 0, None, lo_strict=False) for i in range(3)]
        ctx.assume(vs[0] + vs[1] + vs[2] > 0)
        arr = E.real_array(vs, log=True)
        return vs, ju.normalise_log_probs(arr)

    for pr in E.explore(body2, stats=col.stats):
        if pr.exc is not None:
            raise pr.exc
        col.path()
        vs, out = pr.value
        for i in range(3):
            col.check(pr.ctx, E.real_term(out[i]) * z3.Sum(vs) == vs[i], "mchap.jitutils.normalise_log_probs", "summary-lemma",
                      desc="normalise_log_probs(ln v)[i] == v_i / sum(v)")
    E.use_summaries(True)
    E.reset_modules()


# ------------------------------------------------------------------ replay


def _concrete(v):
    c = v["config"]
    m = v.get("model") or {}
    nA = c["nA"]
    f = [float(m.get("f%d" % i, 1.0 / nA)) for i in range(nA - 1)]
    f.append(1.0 - sum(f))
    if c["err"] == "sym":
        ep, eq = float(m.get("ep", 0.1)), float(m.get("eq", 0.2))
    elif c["err"] == "zero":
        ep = eq = 0.0
    else:
        ep, eq = 0.0, 1.0
    lp = float(m.get("lp", 0.25)) if (c["lam"] and c["tp"] == 2 and c["pp"] >= 4) else 0.0
    lq = float(m.get("lq", 0.25)) if (c["lam"] and c["tq"] == 2 and c["pq"] >= 4) else 0.0
    return c, f, ep, eq, lp, lq


def _num(t, env):
    return E.eval_term(t, env)


def _real_trio(c, g, P, Q, f, ep, eq, lp, lq):
    from mchap.pedigree import prior as rp

    ploidy = c["tp"] + c["tq"]
    mp = max(ploidy, c["pp"], c["pq"])

    def pad(x):
        x = list(x) if x is not None else []
        return rnp.array(x + [-1] * (mp - len(x)), dtype=rnp.int64)

    scr = [rnp.zeros(mp, dtype=rnp.int64) for _ in range(7)]
    return rp.trio_log_pmf(pad(g), pad(P), pad(Q), c["pp"], c["pq"], c["tp"], c["tq"], lp, lq, ep if c["pp"] else 1.0, eq if c["pq"] else 1.0,
                           rnp.log(rnp.array(f)), *scr, rnp.zeros(mp))


def _run_pederr(c, col):
    """PedigreeAllelesMultiTrace.incongruence (what call-pedigree reports as PEDERR) on solver-chosen traces == fraction of steps
    in which the individual is Mendelian-invalid for its own parents, gamete ploidies and double-reduction settings"""
    pc = E.load("mchap.pedigree.classes")
    site = "mchap.pedigree.classes.PedigreeAllelesMultiTrace.incongruence"
    ploidy, parents, tau, lam = PEDERR_PEDS[c["ped"]]
    n, mp = len(ploidy), max(ploidy)
    genos = [M.genotypes(2, P) for P in ploidy]
    steps = 2

    def body(ctx):
        tr = rnp.full((1, steps, n, mp), -1, dtype=rnp.int16)
        pick = []
        for s_ in range(steps):
            row = []
            for i in range(n):
                k = int(E.SymInt(E.fresh_int(ctx, "g%d_%d" % (s_, i), 0, len(genos[i]) - 1))) if (s_ == 0 or i == n - 1) else row_first[i]
                row.append(k)
                tr[0, s_, i, : ploidy[i]] = genos[i][k]
            if s_ == 0:
                row_first = row
            pick.append(row)
        trace = pc.PedigreeAllelesMultiTrace(tr, n_allele=2)
        out = trace.incongruence(sample_ploidy=rnp.array(ploidy), sample_parents=rnp.array(parents), gamete_tau=rnp.array(tau), gamete_lambda=rnp.array(lam, dtype=float))
        return pick, [float(x) for x in out]

    first = True
    for pr in E.explore(body, stats=col.stats):
        if pr.exc is not None:
            col.fail(site, "exception", shape=dict(ped=c["ped"]), witness=dict(exc=repr(pr.exc), model=E.model_dict(_model(pr.ctx))), desc="raised %r" % (pr.exc,))
            continue
        col.path()
        if first:
            col.reachable(pr.ctx)
            first = False
        pick, got = pr.value
        want = []
        for i in range(n):
            bad = 0
            p, q = parents[i]
            for row in pick:
                g = genos[i][row[i]]
                if p < 0 and q < 0:
                    ok = True
                elif p < 0 or q < 0:
                    e = 0 if q < 0 else 1
                    k = p if q < 0 else q
                    ok = M.duo_mendelian_valid(g, genos[k][row[k]], tau[i][e], dr=lam[i][e] > 0)
                else:
                    ok = M.mendelian_valid(g, genos[p][row[p]], genos[q][row[q]], tau[i][0], tau[i][1], dr_p=lam[i][0] > 0, dr_q=lam[i][1] > 0)
                bad += not ok
            want.append(bad / float(steps))
        if any(abs(a - b) > 1e-12 for a, b in zip(got, want)):
            col.fail(site, "pederr-vs-oracle", shape=dict(ped=c["ped"]), witness=dict(ped=c["ped"], states=[[list(genos[i][row[i]]) for i in range(n)] for row in pick], got=got, want=want, model=E.model_dict(_model(pr.ctx))),
                     desc="PEDERR %s, Mendelian oracle on the individual's own edges gives %s (%s, states %s)" % (got, want, c["ped"], [[list(genos[i][row[i]]) for i in range(n)] for row in pick]))
        else:
            col.ok("PEDERR == fraction of steps in which the individual is Mendelian-invalid for its own parents / tau / lambda (%s)" % c["ped"])


def replay(v):
    import math
    from mchap.pedigree import prior as rp, validation as rv

    if v["config"].get("kind") == "lemma":
        return False, "lemma failure (engine summary); not a repo violation"
    if v["config"].get("kind") == "pederr":
        from checks import wiring

        return wiring.replay_real(v, _run_pederr)
    c, f, ep, eq, lp, lq = _concrete(v)
    w = v["witness"]
    P = tuple(w["P"]) if w.get("P") is not None else None
    Q = tuple(w["Q"]) if w.get("Q") is not None else None
    env = dict(("f%d" % i, f[i]) for i in range(len(f)))
    env.update(ep=ep, eq=eq, lp=lp, lq=lq)
    fz = {i: z3.RealVal(repr(f[i])) for i in range(len(f))}
    tp, tq = c["tp"], c["tq"]

    def oracle(g):
        return float(E.eval_term(M.trio_pmf(g, P, Q, tp, tq, z3.RealVal(repr(lp)) if lp else 0, z3.RealVal(repr(lq)) if lq else 0,
                                            z3.RealVal(repr(ep)) if c["pp"] else 1, z3.RealVal(repr(eq)) if c["pq"] else 1, fz)))

    k = v["kind"]
    if k == "sum-to-one":
        tot = sum(math.exp(_real_trio(c, g, P, Q, f, ep, eq, lp, lq)) for g in M.genotypes(c["nA"], tp + tq))
        return abs(tot - 1) > 1e-6, "sum of trio pmf over progeny = %r (P=%s Q=%s f=%s ep=%s eq=%s lp=%s lq=%s)" % (tot, P, Q, f, ep, eq, lp, lq)
    if k == "pmf-vs-oracle":
        g = tuple(w["g"])
        a = math.exp(_real_trio(c, g, P, Q, f, ep, eq, lp, lq))
        b = oracle(g)
        return abs(a - b) > 1e-6 * max(b, 1e-9), "trio pmf=%r oracle=%r (g=%s P=%s Q=%s f=%s ep=%s eq=%s lp=%s lq=%s)" % (a, b, g, P, Q, f, ep, eq, lp, lq)
    if k == "positive-iff-valid":
        g = tuple(w["g"])
        a = math.exp(_real_trio(c, g, P, Q, f, ep, eq, lp, lq))
        val = bool(rv.trio_valid(rnp.array(g), rnp.array(P), rnp.array(Q), tp, tq, lp, lq))
        return (a > 0) != val, "pmf=%r trio_valid=%r (g=%s P=%s Q=%s lp=%s lq=%s)" % (a, val, g, P, Q, lp, lq)
    if k == "validity-vs-oracle":
        g = tuple(w["g"])
        if Q is not None:
            val = bool(rv.trio_valid(rnp.array(g), rnp.array(P), rnp.array(Q), tp, tq, lp, lq))
            want = M.mendelian_valid(g, P, Q, tp, tq, dr_p=lp > 0, dr_q=lq > 0)
        else:
            val = bool(rv.duo_valid(rnp.array(g), rnp.array(list(P)), tp, lp))
            want = M.duo_mendelian_valid(g, P, tp, dr=lp > 0)
        return val != want, "validity=%r oracle=%r (g=%s P=%s Q=%s)" % (val, want, g, P, Q)
    if k == "gamete-sum-to-one":
        tot = 0.0
        for g in M.genotypes(c["nA"], tp):
            gd = rnp.array([g.count(a) for a in range(c["nA"])])
            pd = rnp.array([P.count(a) for a in range(c["nA"])])
            tot += math.exp(rp.gamete_log_pmf(gd, tp, pd, c["pp"], lp))
        return abs(tot - 1) > 1e-6, "sum over gametes = %r (P=%s lp=%s)" % (tot, P, lp)
    if k == "exception":
        try:
            for g in M.genotypes(c["nA"], tp + tq):
                _real_trio(c, g, P, Q, f, ep, eq, lp, lq)
        except Exception as e:
            return True, "real code raised %r" % (e,)
        return False, "no exception on real code"
    return False, "unknown kind"


def validate(seed):
    import math
    import random

    E.use_summaries(True)
    E.reset_modules()
    E.cfg.concrete_ints = True
    pp_ = E.load("mchap.pedigree.prior")
    rnd = random.Random(seed)
    n = 0
    for _ in range(10):
        pp, pq, tp, tq, nA = rnd.choice(THOROUGH[:12])
        c = dict(pp=pp, pq=pq, tp=tp, tq=tq, nA=nA)
        P = rnd.choice(M.genotypes(nA, pp)) if pp else None
        Q = rnd.choice(M.genotypes(nA, pq)) if pq else None
        g = rnd.choice(M.genotypes(nA, tp + tq))
        f = [rnd.randint(1, 9) for _ in range(nA)]
        f = [round(x / sum(f), 3) for x in f]
        f[-1] = round(1 - sum(f[:-1]), 3)
        ep, eq = rnd.choice([0.0, 0.125, 1.0]), rnd.choice([0.0, 0.25])
        lp = rnd.choice([0.0, 0.125]) if (tp == 2 and pp >= 2) else 0.0
        lq = rnd.choice([0.0, 0.25]) if (tq == 2 and pq >= 2) else 0.0
        real = _real_trio(c, g, P, Q, f, ep, eq, lp, lq)
        mp = max(tp + tq, pp, pq)

        def body(ctx):
            logf = E.real_array([E.symfloat(repr(x)) for x in f], log=True)
            scr = [rnp.zeros(mp, dtype=rnp.int64) for _ in range(7)]
            l = pp_.trio_log_pmf(_pad(g, mp), _pad(P, mp), _pad(Q, mp), pp, pq, tp, tq, E.symfloat(repr(lp)), E.symfloat(repr(lq)),
                                 E.symfloat(repr(ep)) if pp else 1.0, E.symfloat(repr(eq)) if pq else 1.0, logf, *scr, E.np.zeros(mp, dtype=float))
            return E.to_float(l)

        vals = [pr.value for pr in E.explore(body) if pr.exc is None]
        assert len(vals) == 1, vals
        ok = (vals[0] == real) or abs(vals[0] - real) < 1e-9 * max(1, abs(real))
        assert ok, (c, P, Q, g, f, ep, eq, lp, lq, vals, real)
        n += 1
    E.cfg.concrete_ints = False
    return n
