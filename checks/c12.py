"""C12 -- haplotype encode/decode round-trips; assemble output is valid call input."""
import itertools

import numpy as rnp
import z3

from nbsym import engine as E

ID = "C12"
TITLE = "REF/ALT haplotype strings -> per-SNV integer alleles -> strings is the identity; recovered SNV positions are the polymorphic subset of SNVPOS; first-appearance allele numbering with REF = 0; haplotypes rendered by assemble are re-read by call/call-exact with the same REF/ALT"
TECHNIQUE = "solver-driven exhaustive enumeration of bounded records through the repo's shadow-loaded source (string code realises symbolic values); each realised record checked against an independent oracle and replayed on the real module"
ENCODED = ["mchap.application.call.program.call_sample_genotypes", "mchap.application.call_exact.program.call_sample_genotypes", "mchap.application.assemble.program.call_sample_genotypes",
           "mchap.io.loci.LocusPrior.from_variant_record", "mchap.io.loci.LocusPrior.encode_haplotypes", "mchap.io.loci.Locus._template_sequence",
           "mchap.io.loci.Locus.format_haplotypes", "mchap.encoding.character.transcode.as_allelic", "mchap.encoding.integer.transcode.as_characters"]
STUBS = ["pysam.VariantRecord -> duck-typed record (ref, alts, info, chrom/start/stop/id)"]
ASSUMES = ["sequence handling is numpy unicode / str.format code (C boundary): the bases of REF and ALT, the number of ALT alleles and the assemble-side SNV set are integer variables that the solver enumerates exhaustively inside the bound (realised mode)",
           "ALT haplotypes are pairwise distinct and differ from REF (as in any VCF record)"]
BOUNDS = {"quick": "wide loci of 70 and 130 SNVs (thorough 40..260), 3 haplotypes with solver-chosen alleles at the first / middle / last SNVs; pipeline: the assemble records of the C13 scenarios (6; thorough all) x 3 thresholds x dominant genotypes, re-read by call (trace chosen by the solver) and call-exact (real exact code), with and without AFP as prior; haplotypes of length 3 over {A,C,G}, REF + up to 2 ALT, every base combination; assemble side: every subset of positions as SNVPOS with up to 3 alleles per SNV and every called-haplotype set of size <= 3",
          "thorough": "length 4, up to 2 ALT; wide loci of 40..260 SNVs; every scenario in the record-level pipeline"}
OUTSIDE = "piping real assemble stdout through call with real BAM files and pysam's VCF parser (the pipeline group hands call / call-exact a duck-typed record built from the text line assemble formatted)"
TASKS_PER_CHILD = 4
LEVEL_TEXT = ("Solver-driven exhaustive enumeration of a bounded record space (string code realises symbolic values) against an independent oracle; weaker than the symbolic checks, stated in evidence.")
ALPHA = "ACG"


def configs(tier):
    out = []
    L = 3 if tier == "quick" else 4
    for ref in itertools.product("AC", repeat=L):
        for n_alt in ((0, 1, 2) if tier == "quick" else (1, 2)):  # (3 ALTs over 4 sites = 4096 records per reference, x 16 references: sized out)
            out.append(dict(group="record", L=L, ref="".join(ref), n_alt=n_alt))
    for ref in (["AAA", "ACA", "CAC"] if tier == "quick" else ["".join(r) for r in itertools.product("AC", repeat=3)]):
        out.append(dict(group="assemble", L=3, ref=ref))
    # wide loci: more than 127 alleles in total over the SNVs of one locus (fixed-width integer arithmetic on int8 haplotype arrays)
    for n_snv in ((70, 130) if tier == "quick" else (40, 64, 70, 130, 260)):
        out.append(dict(group="wide", n_snv=n_snv))
    # whole pipeline at record level: the text line written by assemble is re-read and called by call / call-exact
    from checks import c13

    for name in (c13.QUICK if tier == "quick" else [s_ for s_ in c13.SCENARIOS if s_ != "dupes"]):
        for prog in ("call", "call-exact"):
            out.append(dict(group="pipeline", scenario=name, prog=prog, report=3))
    return out


def weight(c):
    if c["group"] == "wide":
        return 3000
    return 27 ** c.get("n_alt", 2) if c["group"] != "pipeline" else 2000


class _Record:
    def __init__(self, ref, alts, info=None):
        self.ref = ref
        self.alts = tuple(alts) if alts else None
        self.info = info or {}
        self.chrom = "chr1"
        self.start = 50
        self.stop = 50 + len(ref)
        self.id = "loc"


def run_config(c, col):
    E.use_summaries(True)
    E.reset_modules()
    E.cfg.concrete_ints = True
    E.cfg.concrete_floats = True
    import warnings

    warnings.simplefilter("ignore")
    prof = E.Profile()
    with prof:
        {"record": _run_record, "assemble": _run_assemble, "pipeline": _run_pipeline, "wide": _run_wide}[c["group"]](c, col)
    col.functions |= set(prof.names())
    E.cfg.concrete_floats = False


def _check_locus(lp, ref, alts):
    """problems list for a LocusPrior built from (ref, alts)"""
    seqs = [ref] + list(alts)
    problems = []
    L = len(ref)
    poly = [j for j in range(L) if len({s[j] for s in seqs}) > 1]
    pos = [p - lp.start for p in lp.positions]
    if pos != poly:
        problems.append(("positions", "recovered SNV offsets %s, polymorphic columns %s" % (pos, poly)))
        return problems
    enc = rnp.asarray(lp.encode_haplotypes())
    if enc.shape != (len(seqs), len(poly)):
        problems.append(("encode-shape", "encode_haplotypes shape %s" % (enc.shape,)))
        return problems
    # first-appearance numbering, REF = 0
    for k, j in enumerate(poly):
        order = []
        for s in seqs:
            if s[j] not in order:
                order.append(s[j])
        if list(lp.alleles[k]) != order:
            problems.append(("allele-numbering", "alleles at offset %d are %s, first-appearance order %s" % (j, lp.alleles[k], order)))
        if [int(x) for x in enc[:, k]] != [order.index(s[j]) for s in seqs]:
            problems.append(("encoding", "column %d encoded %s expected %s" % (j, enc[:, k].tolist(), [order.index(s[j]) for s in seqs])))
    if enc.size and enc[0].any():
        problems.append(("ref-not-zero", "REF is not allele 0 everywhere"))
    back = lp.format_haplotypes(enc) if len(poly) else [lp.sequence] * len(seqs)
    if list(back) != seqs:
        problems.append(("round-trip", "render(encode(record)) = %s, record = %s" % (list(back), seqs)))
    if lp.sequence != ref or tuple(lp.alts) != tuple(alts):
        problems.append(("ref-alt-kept", "LocusPrior REF/ALT %s/%s differ from the record's %s/%s" % (lp.sequence, lp.alts, ref, alts)))
    return problems


def _run_record(c, col):
    lo = E.load("mchap.io.loci")
    site = "mchap.io.loci.LocusPrior.from_variant_record"
    L, ref, n_alt = c["L"], c["ref"], c["n_alt"]

    def body(ctx):
        alts = []
        for a in range(n_alt):
            alts.append("".join(ALPHA[int(E.SymInt(E.fresh_int(ctx, "b%d_%d" % (a, j), 0, 2)))] for j in range(L)))
        if len(set(alts + [ref])) != n_alt + 1:
            raise E.PathAbort()
        lp = lo.LocusPrior.from_variant_record(_Record(ref, alts))
        return alts, lp

    first = True
    for pr in E.explore(body, stats=col.stats):
        if pr.exc is not None:
            col.fail(site, "exception", witness=dict(exc=repr(pr.exc), model=E.model_dict(E.prove(pr.ctx, False).model), ref=ref), desc="raised %r" % (pr.exc,))
            continue
        col.path()
        if first:
            col.reachable(pr.ctx)
            first = False
        alts, lp = pr.value
        problems = _check_locus(lp, ref, alts)
        if problems:
            col.fail(site, problems[0][0], witness=dict(ref=ref, alts=alts, problems=[p[1] for p in problems]), desc=problems[0][1])
        else:
            col.ok("record -> LocusPrior -> integer alleles -> strings is the identity; positions/numbering as specified (bases solver-enumerated)")


def _run_wide(c, col):
    """a locus with many SNVs (2-3 alleles each, every 7th tri-allelic): haplotypes rendered by assemble's side and re-read by
    call's side; which haplotypes carry ALT bases at the first, a middle and the last SNVs is chosen by the solver"""
    lo = E.load("mchap.io.loci")
    site = "mchap.io.loci.Locus.format_haplotypes"
    n = c["n_snv"]
    L = 2 * n + 1
    ref = "".join("AC"[j % 2] for j in range(L))
    offs = [2 * k + 1 for k in range(n)]
    alle = []
    for k, j in enumerate(offs):
        others = [b for b in "ACGT" if b != ref[j]]
        alle.append(tuple([ref[j]] + others[: (2 if k % 7 == 3 else 1)]))
    variants = tuple(lo.SNP("chr1", 50 + j, 51 + j, ".", alleles=alle[k]) for k, j in enumerate(offs))
    probes = [0, n // 2, n - 2, n - 1]

    def body(ctx):
        haps = rnp.zeros((3, n), dtype=rnp.int8)
        for h in (1, 2):
            for k in probes:
                haps[h, k] = int(E.SymInt(E.fresh_int(ctx, "h%d_%d" % (h, k), 0, len(alle[k]) - 1)))
            for k in range(n):  # fixed background so that the two haplotypes differ in many places
                if k not in probes and (k + h) % 3 == 0:
                    haps[h, k] = len(alle[k]) - 1
        if len({tuple(r) for r in haps.tolist()}) != 3:
            raise E.PathAbort()
        locus = lo.Locus("chr1", 50, 50 + L, "loc", ref, variants)
        strings = locus.format_haplotypes(haps)
        rec = _Record(strings[0], strings[1:], info={"SNVPOS": tuple(j + 1 for j in offs)})
        lp = lo.LocusPrior.from_variant_record(rec)
        back = lp.format_haplotypes(lp.encode_haplotypes())
        return haps, strings, lp, back

    first = True
    for pr in E.explore(body, stats=col.stats):
        if pr.exc is not None:
            col.fail(site, "exception", shape=dict(group="wide"), witness=dict(exc=repr(pr.exc), n_snv=n), desc="raised %r" % (pr.exc,))
            continue
        col.path()
        if first:
            col.reachable(pr.ctx)
            first = False
        haps, strings, lp, back = pr.value
        problems = []
        for h, s_ in zip(haps.tolist(), strings):
            want = list(ref)
            for k, j in enumerate(offs):
                want[j] = alle[k][h[k]]
            if s_ != "".join(want):
                bad = [i for i in range(min(len(s_), L)) if s_[i] != want[i]]
                problems.append(("rendering", "haplotype rendered with %d wrong bases (first at offset %s of %d SNVs x up to 3 alleles)" % (len(bad) or abs(len(s_) - L), bad[:1], n)))
                break
        if list(back) != list(strings):
            problems.append(("round-trip", "format_haplotypes(encode_haplotypes()) of the re-read record differs from the record's sequences (%d SNVs)" % n))
        pos = [p_ - lp.start for p_ in lp.positions]
        if not set(pos) <= set(offs):
            problems.append(("positions-subset", "call-side SNV offsets are not a subset of SNVPOS"))
        if problems:
            col.fail(site, problems[0][0], shape=dict(group="wide"), witness=dict(n_snv=n, haps=[[int(haps[h, k]) for k in probes] for h in range(3)], problems=[p_[1] for p_ in problems]), desc=problems[0][1])
        else:
            col.ok("wide locus (%d SNVs, > 127 alleles in total for n >= 64): rendering and re-reading are exact" % n)


def _record_of_line(line):
    """what pysam hands to call / call-exact for a record line written by assemble (INFO flags as True, Number=. fields as tuples)"""
    f = line.rstrip("\n").split("\t")
    info = {}
    for item in f[7].split(";"):
        k, eq, v = item.partition("=")
        if not eq:
            info[k] = True
        elif k in ("SNVPOS",):
            info[k] = tuple(int(x) for x in v.split(",")) if v != "." else ()
        elif k in ("AFP", "ACP", "AOP", "AOPSUM", "AFPRIOR", "SNVDP", "AC"):
            info[k] = tuple(float(x) if x != "." else None for x in v.split(","))
        else:
            info[k] = v
    rec = _Record(f[3], [] if f[4] == "." else f[4].split(","), info=info)
    rec.chrom, rec.start, rec.id = f[0], int(f[1]) - 1, f[2]
    rec.stop = rec.start + len(f[3])
    return rec, f


def _run_pipeline(c, col):
    """assemble's formatted record -> LocusPrior.from_variant_record -> call / call-exact -> formatted record:
    same CHROM/POS/REF/ALT, and every genotype complete unless the record carries NOA / AF0"""
    from checks import c07

    E.cfg.concrete_floats = True
    prog_name = c["prog"]
    lo = E.load("mchap.io.loci")
    FORMAT = E.load("mchap.io.vcf.formatfields")
    cc = E.load("mchap.calling.classes")
    if prog_name == "call":
        mod = E.load("mchap.application.call")
    else:
        E.use_summaries(False)
        E.reset_modules()
        lo = E.load("mchap.io.loci")
        FORMAT = E.load("mchap.io.vcf.formatfields")
        cc = E.load("mchap.calling.classes")
        mod = E.load("mchap.application.call_exact")
    asm_body, infof, fmtf, samples, scen = c07._asm_driver(dict(c, group="asm-line"))
    args = E.load("mchap.application.arguments")
    site = "mchap.application.%s.program.call_sample_genotypes" % prog_name.replace("-", "_")
    mod.minimum_error_correction = lambda calls, haps: rnp.zeros(1)
    ploidy = {s_: len(gs[0]) for s_, gs in zip(samples, scen)}

    def body(ctx):
        line, thr, adata = asm_body(ctx)
        rec, f = _record_of_line(line)
        locus = lo.LocusPrior.from_variant_record(rec, frequency_tag="AFP" if int(E.SymInt(E.fresh_int(ctx, "usefreq", 0, 1))) else None)
        captured = {}

        class FakeMCMC:
            def __init__(self, **kw):
                captured.update(kw)

            def fit(self, reads, read_counts):
                n = len(captured["haplotypes"])
                P = captured["ploidy"]
                g = rnp.zeros((1, 2, P), dtype=rnp.int8)
                a = int(E.SymInt(E.fresh_int(ctx, "g%s" % reads, 0, n - 1)))
                g[0, :, -1] = a
                return cc.GenotypeAllelesMultiTrace(g, rnp.zeros((1, 2)), n)

        if prog_name == "call":
            mod.CallingMCMC = FakeMCMC
        prog = mod.program.__new__(mod.program)
        cinfo, cfmt = args.parse_report_fields(["AFP", "INFO/AFP", "AFPRIOR"])
        prog.info_fields, prog.format_fields = list(cinfo), list(cfmt)
        for k, v in dict(mcmc_steps=2, mcmc_chains=1, random_seed=1, mcmc_burn=0, mcmc_incongruence_threshold=0.6, samples=samples, sample_ploidy=dict(ploidy),
                         sample_inbreeding={s_: 0.0 for s_ in samples}, precision=3).items():
            setattr(prog, k, v)
        data = prog._locus_data(locus, {s_: [] for s_ in samples})
        n_pos = len(locus.positions)
        for s_ in samples:
            data.read_calls[s_] = rnp.zeros((1, n_pos), dtype=int)
            if prog_name == "call":
                data.read_dists[s_] = s_
                data.read_counts[s_] = None
            else:
                nmax = max([len(a_) for a_ in locus.alleles] + [1])
                data.read_dists[s_] = rnp.full((1, n_pos, nmax), 1.0 / nmax)
                data.read_counts[s_] = rnp.array([1])
            data.sampledata[FORMAT.DP][s_] = 7.0
            data.sampledata[FORMAT.RCOUNT][s_] = 9
            data.sampledata[FORMAT.RCALLS][s_] = 12
            data.sampledata[FORMAT.SNVDP][s_] = rnp.full(n_pos, 7.0)
        prog.call_sample_genotypes(data)
        prog.sumarise_vcf_record(data)
        return line, data.format_vcf_record()

    first = True
    for pr in E.explore(body, stats=col.stats):
        if pr.exc is not None:
            e = pr.exc.__cause__ or pr.exc
            col.fail(site, "exception", shape=dict(prog=prog_name), witness=dict(exc=repr(e), model=E.model_dict(E.prove(pr.ctx, False).model), scenario=c["scenario"]),
                     desc="%s cannot process a record written by assemble: %r" % (prog_name, e))
            continue
        col.path()
        if first:
            col.reachable(pr.ctx)
            first = False
        line, out = pr.value
        fa, fo = line.split("\t"), out.split("\t")
        problems = []
        if fa[:2] + fa[3:5] != fo[:2] + fo[3:5]:
            problems.append(("record-identity", "%s wrote CHROM/POS/REF/ALT %s for the assemble record %s" % (prog_name, fo[:2] + fo[3:5], fa[:2] + fa[3:5])))
        flt = fo[6].split(";")
        gts = [col_.split(":")[0] for col_ in fo[9:]]
        if not ({"NOA", "AF0"} & set(flt)) and any("." in g.split("/") for g in gts):
            problems.append(("incomplete-genotype", "%s wrote GT %s without NOA/AF0 (FILTER=%s) for the assemble record %s" % (prog_name, gts, fo[6], "\t".join(fa[:8])[:200])))
        if "REFMASKED" in fa[7].split(";") and any("0" in g.split("/") for g in gts):
            problems.append(("masked-ref-called", "assemble masked the reference but %s calls allele 0: %s" % (prog_name, gts)))
        if problems:
            col.fail(site, problems[0][0], shape=dict(prog=prog_name), witness=dict(assemble=line[:400], out=out[:400], model=E.model_dict(E.prove(pr.ctx, False).model), scenario=c["scenario"]), desc=problems[0][1])
        else:
            col.ok("%s re-reads the assemble record: same CHROM/POS/REF/ALT; genotypes complete unless NOA/AF0; masked reference never called" % prog_name)


def _run_assemble(c, col):
    """assemble side: a Locus with SNVs (some possibly monomorphic among the called haplotypes) renders called haplotypes; call re-reads them"""
    lo = E.load("mchap.io.loci")
    site = "mchap.io.loci.Locus.format_haplotypes"
    ref = c["ref"]
    L = len(ref)
    others = {"A": "CG", "C": "AG"}

    def body(ctx):
        # which offsets are SNVs, and how many alleles each has (2 or 3)
        snv = [j for j in range(L) if int(E.SymInt(E.fresh_int(ctx, "snv%d" % j, 0, 1)))]
        if not snv:
            raise E.PathAbort()
        variants = []
        for j in snv:
            na = 2 + int(E.SymInt(E.fresh_int(ctx, "na%d" % j, 0, 1)))
            variants.append(lo.SNP("chr1", 50 + j, 51 + j, ".", alleles=tuple([ref[j]] + list(others[ref[j]][: na - 1]))))
        locus = lo.Locus("chr1", 50, 50 + L, "loc", ref, tuple(variants))
        n_h = 1 + int(E.SymInt(E.fresh_int(ctx, "nh", 0, 2)))
        haps = [[0] * len(snv)]
        for h in range(1, n_h):
            haps.append([int(E.SymInt(E.fresh_int(ctx, "h%d_%d" % (h, k), 0, len(variants[k].alleles) - 1))) for k in range(len(snv))])
        if len({tuple(h) for h in haps}) != len(haps):
            raise E.PathAbort()
        arr = rnp.array(haps, dtype=rnp.int8)
        strings = locus.format_haplotypes(arr)
        rec = _Record(strings[0], strings[1:], info={"SNVPOS": tuple(j + 1 for j in snv)})
        lp = lo.LocusPrior.from_variant_record(rec)
        return snv, variants, haps, strings, lp

    first = True
    for pr in E.explore(body, stats=col.stats):
        if pr.exc is not None:
            col.fail(site, "exception", witness=dict(exc=repr(pr.exc), model=E.model_dict(E.prove(pr.ctx, False).model), ref=ref), desc="raised %r" % (pr.exc,))
            continue
        col.path()
        if first:
            col.reachable(pr.ctx)
            first = False
        snv, variants, haps, strings, lp = pr.value
        problems = []
        # rendering: template with the SNV alleles substituted
        for h, s in zip(haps, strings):
            want = list(ref)
            for k, j in enumerate(snv):
                want[j] = variants[k].alleles[h[k]]
            if s != "".join(want):
                problems.append(("rendering", "haplotype %s rendered as %s expected %s" % (h, s, "".join(want))))
        if strings[0] != ref:
            problems.append(("ref-rendering", "all-zero haplotype rendered as %s, reference is %s" % (strings[0], ref)))
        problems += _check_locus(lp, strings[0], strings[1:])
        pos = [p - lp.start for p in lp.positions]
        if not set(pos) <= set(snv):
            problems.append(("positions-subset", "call-side SNV offsets %s are not a subset of assemble's SNVPOS %s" % (pos, snv)))
        if problems:
            col.fail(site, problems[0][0], witness=dict(ref=ref, snv=snv, haps=haps, strings=strings, problems=[p[1] for p in problems]), desc=problems[0][1])
        else:
            col.ok("assemble-rendered haplotypes are re-read with the same REF/ALT; recovered SNVs = polymorphic subset of SNVPOS; encoding consistent")


# ------------------------------------------------------------------ replay


def replay(v):
    import warnings
    from mchap.io import loci as rlo

    warnings.simplefilter("ignore")
    c = v["config"]
    w = v["witness"]
    if c["group"] == "pipeline":
        from checks import wiring

        return wiring.replay_real(v, _run_pipeline)
    if c["group"] == "wide":
        from checks import wiring

        return wiring.replay_real(v, _run_wide)
    try:
        if c["group"] == "record":
            m = w.get("model") or {}
            alts = w.get("alts")
            if alts is None:
                alts = ["".join(ALPHA[int(m.get("b%d_%d" % (a, j), 0))] for j in range(c["L"])) for a in range(c["n_alt"])]
            lp = rlo.LocusPrior.from_variant_record(_Record(c["ref"], alts))
            problems = _check_locus(lp, c["ref"], alts)
            return bool(problems), "REF=%s ALT=%s: %s" % (c["ref"], alts, [p[1] for p in problems])
        ref = c["ref"]
        if "haps" not in w:
            return False, "no witness"
        snv, haps = w["snv"], w["haps"]
        others = {"A": "CG", "C": "AG"}
        m = w.get("model") or {}
        variants = []
        for j in snv:
            na = max(max(h[snv.index(j)] for h in haps) + 1, 2)
            variants.append(rlo.SNP("chr1", 50 + j, 51 + j, ".", alleles=tuple([ref[j]] + list(others[ref[j]][: na - 1]))))
        locus = rlo.Locus("chr1", 50, 50 + len(ref), "loc", ref, tuple(variants))
        strings = locus.format_haplotypes(rnp.array(haps, dtype=rnp.int8))
        lp = rlo.LocusPrior.from_variant_record(_Record(strings[0], strings[1:], info={"SNVPOS": tuple(j + 1 for j in snv)}))
        problems = _check_locus(lp, strings[0], strings[1:])
        for h, s in zip(haps, strings):
            want = list(ref)
            for k, j in enumerate(snv):
                want[j] = variants[k].alleles[h[k]]
            if s != "".join(want):
                problems.append(("rendering", "haplotype %s rendered as %s" % (h, s)))
        return bool(problems), "ref=%s SNVs=%s haplotypes=%s -> %s: %s" % (ref, snv, haps, strings, [p[1] for p in problems])
    except Exception as e:
        return v["kind"] == "exception", "real code raised %r" % (e,)


def validate(seed):
    """shadow-loaded vs real LocusPrior on the repo's own style of records"""
    import random
    from mchap.io import loci as rlo

    E.use_summaries(True)
    E.reset_modules()
    E.cfg.concrete_ints = True
    E.cfg.concrete_floats = True
    lo = E.load("mchap.io.loci")
    rnd = random.Random(seed)
    n = 0
    for _ in range(20):
        L = rnd.randint(2, 6)
        ref = "".join(rnd.choice("ACGT") for _ in range(L))
        alts = []
        while len(alts) < rnd.randint(1, 3):
            a = "".join(rnd.choice("ACGT") if rnd.random() < 0.4 else ref[j] for j in range(L))
            if a != ref and a not in alts:
                alts.append(a)
        a_ = rlo.LocusPrior.from_variant_record(_Record(ref, alts))
        b_ = lo.LocusPrior.from_variant_record(_Record(ref, alts))
        assert a_.positions == b_.positions and [tuple(x) for x in a_.alleles] == [tuple(x) for x in b_.alleles]
        assert rnp.array_equal(a_.encode_haplotypes(), rnp.asarray(b_.encode_haplotypes()))
        n += 1
    E.cfg.concrete_floats = False
    return n
