"""C09 -- likelihood caches are transparent; the carried likelihood always equals the recomputed one."""
import itertools

import numpy as rnp
import z3

from nbsym import engine as E
from nbsym import runner as R
from oracle import models as M

ID = "C09"
TITLE = "arraymap get/set (growth, flush) never serves a stale or foreign value; cached wrappers key on the genotype whose likelihood they return; moves carry the llk of the new state; pedigree dict-cache entries are computed from the sample's own count>0 reads"
ENCODED = [
    "mchap.assemble.arraymap.new", "mchap.assemble.arraymap.get", "mchap.assemble.arraymap.set",
    "mchap.assemble.likelihood.log_likelihood_cached", "mchap.assemble.likelihood.log_likelihood_structural_change_cached",
    "mchap.calling.likelihood.log_likelihood_alleles_cached", "mchap.pedigree.likelihood.log_likelihood_alleles_cached",
    "mchap.pedigree.mcmc.pair_allele_swap_step", "mchap.pedigree.mcmc.gibbs_probabilities", "mchap.pedigree.mcmc.metropolis_hastings_probabilities",
    "mchap.assemble.mutation.base_step", "mchap.assemble.structural.interval_step", "mchap.assemble.tempering.chain_swap_step",
    "mchap.assemble.mcmc._denovo_assembler", "mchap.calling.mcmc.compound_step",
]
STUBS = ["wrapper obligations: log_likelihood / log_likelihood_structural_change replaced by recorders returning ln L(genotype actually evaluated)",
         "carried-llk obligations are the C01/C02 harnesses restricted to their llk bookkeeping claims"]
ASSUMES = ["cached values are never NaN (NaN is the miss sentinel; likelihoods of valid inputs are not NaN)",
           "bit-level equality of cached and recomputed values is argued (same function, same array), only value-level equality over the reals is solver-checked"]
BOUNDS = {"quick": "arraymap: key length 2, 2 branches, <= 3 set operations + 1 get, initial size 2, max size 4 and 8 (growth and flush forced); wrappers: all genotypes ploidy 2 x 2 SNVs (abstract map) and every history of 3 plain / structural lookups over those genotypes on the real arraymap with capacity 8 (growth and overflow flush in between); calling dict cache: insert / lookup histories over alleles {0,1,2,31,32,33,40,63,64,65} at ploidy 2 and 3 with int64 keys; pedigree dict cache: diploid trio, 2 reads per sample with symbolic counts in 0..2",
          "thorough": "wrapper histories of 3 lookups, capacities 8 and 16 (2x2 genotypes) and 16 and 32 (2x3 genotypes); arraymap: key length <= 3, <= 3 branches, <= 4 operations, max size up to 16; pedigree: plus tetraploid trio"}
OUTSIDE = "longer histories than the bound (each get is covered by the inductive reading: any reachable map state of <= k sets); bit-level equality; numba typed-dict semantics"
TASKS_PER_CHILD = 4


def configs(tier):
    out = []
    quick = tier == "quick"
    maps = [(2, 2, 2, 2, 4), (2, 2, 3, 2, 4), (2, 2, 3, 2, 8)] if quick else [(2, 2, 3, 2, 4), (2, 2, 3, 2, 8), (2, 3, 3, 2, 8), (2, 2, 4, 2, 8), (3, 2, 3, 2, 8), (2, 2, 4, 2, 16), (3, 2, 4, 4, 8)]
    for (L, b, nops, init, mx) in maps:
        for k0 in itertools.product(range(b), repeat=min(L, 2)):
            out.append(dict(group="arraymap", L=L, b=b, nops=nops, init=init, max=mx, k0=list(k0)))
    out.append(dict(group="wrappers"))
    # the assemble wrappers on the REAL arraymap with a tiny capacity: histories of plain / structural lookups that force growth and
    # overflow flushes in between -- every value returned must be the likelihood of the genotype asked for
    for first in range(4):
        # (histories of 4 calls are 32768 paths per configuration: sized out; the thorough tier varies the capacity instead)
        for mx in ((8,) if quick else (8, 16)):
            out.append(dict(group="wraphist", first=first, max=mx, ncalls=3))
        for mx in ((16,) if quick else (16, 32)):
            out.append(dict(group="wraphist", first=first, max=mx, ncalls=3, B=3))  # 3 sites x 2 haplotypes; interval None / head / tail
    for G in ([[0, 0], [0, 1]], [[0, 1], [1, 0]], [[1, 1], [1, 1]]):
        for size in (4, 64):
            out.append(dict(group="transparent", G=G, max_size=size))
    for t in ((0, 1, 2) if True else ()):
        out.append(dict(group="pedcache", ped="trio2", fn="gibbs", t=t))
        out.append(dict(group="pedcache", ped="trio2", fn="mh", t=t))
    out.append(dict(group="pedcache", ped="trio2", fn="swap", t=0))
    if not quick:
        out.append(dict(group="pedcache", ped="trio4", fn="swap", t=0))
        out.append(dict(group="pedcache", ped="trio4", fn="gibbs", t=2))
    out.append(dict(group="carried", which="c01", cfg=dict(group="base", P=2, nal=[2, 2], inbred=True, lo=0, hi=6)))
    out.append(dict(group="carried", which="c01", cfg=dict(group="dos", P=3, nal=[2, 2], inbred=False, lo=0, hi=6)))
    out.append(dict(group="carried", which="c01", cfg=dict(group="rec", P=3, nal=[2, 2], inbred=False, lo=6, hi=12)))
    out.append(dict(group="carried", which="c01", cfg=dict(group="swap")))
    out.append(dict(group="carried", which="c01", cfg=dict(group="orch")))
    out.append(dict(group="carried", which="c02", cfg=dict(step="compound", P=2, A=2)))
    return out


def weight(c):
    if c["group"] == "arraymap":
        return c["b"] ** (c["L"] * c["nops"])
    return 5


def run_config(c, col):
    E.use_summaries(True)
    E.reset_modules()
    prof = E.Profile()
    with prof:
        globals()["_run_" + c["group"]](c, col)
    col.functions |= set(prof.names())


# ------------------------------------------------------------------ 1. arraymap bounded model check


def _run_arraymap(c, col):
    E.cfg.concrete_ints = True
    am = E.load("mchap.assemble.arraymap")
    L, b, nops = c["L"], c["b"], c["nops"]
    site = "mchap.assemble.arraymap.get"

    def body(ctx):
        m = am.new(L, b, initial_size=c["init"], max_size=c["max"])
        hist = []
        for o in range(nops):
            key = E.SArray(L, rnp.int64)
            ks = []
            for i in range(L):
                if o == 0 and i < len(c["k0"]):
                    kv = z3.IntVal(c["k0"][i])
                else:
                    kv = E.fresh_int(ctx, "k%d_%d" % (o, i), 0, b - 1)
                ks.append(kv)
                rnp.ndarray.__setitem__(key, i, E.SymInt(kv) if not z3.is_int_value(kv) else kv.as_long())
            val = z3.Real("v%d" % o)
            m = am.set(m, key, E.SymReal(val), empty_if_full=True)
            hist.append((ks, val))
        q = E.SArray(L, rnp.int64)
        qs = []
        for i in range(L):
            qv = E.fresh_int(ctx, "q_%d" % i, 0, b - 1)
            qs.append(qv)
            rnp.ndarray.__setitem__(q, i, E.SymInt(qv))
        out = am.get(m, q)
        return hist, qs, out

    first = True
    for pr in E.explore(body, stats=col.stats):
        if pr.exc is not None:
            col.fail("mchap.assemble.arraymap.set", "exception", witness=dict(exc=repr(pr.exc), model=E.model_dict(E.prove(pr.ctx, False).model)), desc="arraymap raised %r" % (pr.exc,))
            continue
        col.path()
        if first:
            col.reachable(pr.ctx)
            first = False
        hist, qs, out = pr.value
        out = E._toreal(E._z(out))
        isnan = out.nan if out.nan is not None else z3.BoolVal(False)
        expr = z3.RealVal(-12345)
        for ks, val in hist:
            expr = z3.If(z3.And([a == b_ for a, b_ in zip(ks, qs)]), val, expr)
        anyeq = z3.Or([z3.And([a == b_ for a, b_ in zip(ks, qs)]) for ks, val in hist])
        col.check(pr.ctx, z3.Or(isnan, z3.And(anyeq, out.e == expr)), site, "stale-or-foreign-value",
                  witness=dict(L=L, b=b, nops=nops, init=c["init"], max=c["max"]),
                  desc="get(key) after %d sets (growth/flush forced: init=%d max=%d) is a miss or the value last set for that key" % (nops, c["init"], c["max"]))


# ------------------------------------------------------------------ 2. cached wrappers


def _wraphist_universe(B):
    """(genotypes as flat tuples, first genotypes, (index vector, interval) of the structural variants)"""
    if B == 2:
        genos = list(itertools.product(range(2), repeat=4))
        return genos, [genos[0], genos[5], genos[10], genos[15]], [([1, 0], [0, 1])]
    # more sites than haplotypes (the usual case), whole-genotype (interval None) and tail intervals
    genos = [(0, 0, 0, 0, 0, 0), (0, 0, 0, 0, 0, 1), (0, 0, 1, 0, 0, 0), (0, 1, 0, 0, 0, 1), (0, 1, 1, 1, 0, 0), (1, 1, 0, 0, 0, 1), (1, 1, 1, 1, 1, 0), (1, 0, 1, 0, 1, 0)]
    return genos, [genos[0], genos[1], genos[4], genos[7]], [([1, 1], None), ([1, 0], [0, 1]), ([1, 0], [1, 3])]


def _run_wraphist(c, col):
    """log_likelihood_cached / log_likelihood_structural_change_cached over the real arraymap (tiny: every second insertion
    overflows): after any history of calls the value returned for a genotype is that genotype's likelihood"""
    E.cfg.concrete_ints = True
    lk = E.load("mchap.assemble.likelihood")
    am = E.load("mchap.assemble.arraymap")
    ju = E.load("mchap.jitutils")
    site = "mchap.assemble.likelihood.log_likelihood_structural_change_cached"
    P, B = 2, int(c.get("B", 2))
    genos, firsts, IVS = _wraphist_universe(B)

    def key_of(g):
        return tuple(int(x) for x in rnp.asarray(g).ravel())

    def Lv(k):
        # one unknown per genotype as a MULTISET of haplotypes: the likelihood does not depend on their order (C04), so a
        # rearrangement that only permutes whole haplotypes legitimately shares its entry
        rows = sorted(tuple(k[i * B:(i + 1) * B]) for i in range(P))
        return z3.Real("L_" + "_".join("".join(map(str, r)) for r in rows))

    def stub_llk(reads, genotype, read_counts=None):
        return E.np.log(E.SymReal(Lv(key_of(genotype))))

    def stub_llk_sc(reads, genotype, haplotype_indices, interval=None, read_counts=None):
        g = genotype.copy()
        ju.structural_change(g, haplotype_indices, interval)
        return E.np.log(E.SymReal(Lv(key_of(g))))

    lk.log_likelihood = stub_llk
    lk.log_likelihood_structural_change = stub_llk_sc

    def body(ctx):
        for k in genos:
            ctx.assume(Lv(k) > 0)
        cache = am.new(P * B, 2, initial_size=2, max_size=c["max"])
        res = []
        for i in range(c["ncalls"]):
            gi = genos.index(firsts[c["first"]]) if i == 0 else E.enum_int(ctx, "g%d" % i, 0, len(genos) - 1)
            variant = 0 if i == 0 else int(E.SymInt(E.fresh_int(ctx, "v%d" % i, 0, len(IVS))))
            G = rnp.array(genos[gi], dtype=rnp.int8).reshape(P, B)
            if variant == 0:
                out, cache = lk.log_likelihood_cached(None, G, None, cache)
                target = key_of(G)
                label = "plain"
            else:
                ix, iv = IVS[variant - 1]
                idx = rnp.array(ix)
                iva = None if iv is None else rnp.array(iv)
                out, cache = lk.log_likelihood_structural_change_cached(None, G, idx, iva, None, cache)
                g2 = G.copy()
                ju.structural_change(g2, idx, iva)
                target = key_of(g2)
                label = "sc:%s:%s" % ("".join(map(str, ix)), "none" if iv is None else "%d-%d" % tuple(iv))
            if not (G == rnp.array(genos[gi], dtype=rnp.int8).reshape(P, B)).all():
                raise AssertionError("wrapper modified the caller's genotype")
            res.append((label, list(genos[gi]), target, out))
        return res

    first = True
    for pr in E.explore(body, stats=col.stats):
        if pr.exc is not None:
            col.fail(site, "exception", shape=dict(group="wraphist"), witness=dict(exc=repr(pr.exc)), desc="raised %r" % (pr.exc,))
            continue
        col.path()
        if first:
            col.reachable(pr.ctx)
            first = False
        res = pr.value
        hist = [(v_, g_) for v_, g_, _, _ in res]
        claims = [E.exp_term(out) == Lv(target) for _, _, target, out in res]
        col.check(pr.ctx, z3.And(claims), site, "wrapper-history-value", shape=dict(group="wraphist"), witness=dict(history=hist, max_size=c["max"]),
                  desc="after any history of cached lookups (growth and overflow flushes of a tiny arraymap in between) the value returned is the likelihood of the genotype asked for (rearranged genotype for the structural wrapper)")


class _AbstractMap:
    """stands for an arbitrary coherent arraymap state (justified by group 1): a dict keyed by the tuple"""

    def __init__(self):
        self.d = {}
        self.log = []


def _run_wrappers(c, col):
    E.cfg.concrete_ints = True
    lk = E.load("mchap.assemble.likelihood")
    ju = E.load("mchap.jitutils")
    cl = E.load("mchap.calling.likelihood")
    pl = E.load("mchap.pedigree.likelihood")
    site = "mchap.assemble.likelihood.log_likelihood_cached"
    state = _AbstractMap()

    def fake_get(m, arr):
        k = tuple(int(x) for x in arr)
        state.log.append(("get", k))
        return m.d.get(k, float("nan"))

    def fake_set(m, arr, value, empty_if_full=False):
        k = tuple(int(x) for x in arr)
        state.log.append(("set", k, value))
        m.d[k] = value
        return m

    class AM:
        get = staticmethod(fake_get)
        set = staticmethod(fake_set)

    lk.arraymap = AM
    evaluated = []

    def key_of(g):
        return tuple(int(x) for x in rnp.asarray(g).ravel())

    def Lv(k):
        return z3.Real("L_" + "".join(map(str, k)))

    def stub_llk(reads, genotype, read_counts=None):
        evaluated.append(key_of(genotype))
        return E.np.log(E.SymReal(Lv(key_of(genotype))))

    def stub_llk_sc(reads, genotype, haplotype_indices, interval=None, read_counts=None):
        g = genotype.copy()
        ju.structural_change(g, haplotype_indices, interval)
        evaluated.append(key_of(g))
        return E.np.log(E.SymReal(Lv(key_of(g))))

    lk.log_likelihood = stub_llk
    lk.log_likelihood_structural_change = stub_llk_sc
    P, B = 2, 2
    genos = list(itertools.product(range(2), repeat=P * B))
    for g in genos:
        G = rnp.array(g, dtype=rnp.int8).reshape(P, B)
        for pre in (False, True):  # cache miss / cache hit
            for variant in ("plain", "sc"):
                def body(ctx):
                    for k in genos:
                        ctx.assume(Lv(k) > 0)
                    m = _AbstractMap()
                    state.log.clear()
                    evaluated.clear()
                    cv = z3.Real("cached")
                    idx = rnp.array([1, 0])
                    iv = rnp.array([0, 1])
                    if variant == "plain":
                        target = key_of(G)
                    else:
                        g2 = G.copy()
                        ju.structural_change(g2, idx, iv)
                        target = key_of(g2)
                    if pre:
                        m.d[target] = E.SymReal(cv)
                    if variant == "plain":
                        out, m2 = lk.log_likelihood_cached(None, G, read_counts=None, cache=m)
                    else:
                        out, m2 = lk.log_likelihood_structural_change_cached(None, G, idx, interval=iv, read_counts=None, cache=m)
                    return target, out, dict(m2.d), list(evaluated), cv, list(state.log)

                for pr in E.explore(body, stats=col.stats):
                    if pr.exc is not None:
                        if isinstance(pr.exc, (AttributeError, TypeError)) and ("AM" in str(pr.exc) or "_AbstractMap" in str(pr.exc)):
                            # the wrapper uses the arraymap beyond get/set: the abstract map cannot stand for it; such code is
                            # decided by the wraphist group, which runs the wrappers on the real arraymap
                            col.path()
                            col.ok("abstract-map obligation not applicable to this wrapper (uses more than arraymap.get/set): decided on the real arraymap by the wraphist group")
                            continue
                        raise pr.exc
                    col.path()
                    target, out, d, ev, cv, log = pr.value
                    w = dict(G=G.tolist(), variant=variant, hit=pre)
                    s_ = site if variant == "plain" else "mchap.assemble.likelihood.log_likelihood_structural_change_cached"
                    if pre:
                        ok = (not ev) and set(d) == {target}
                        col.check(pr.ctx, E.real_term(out) == cv, s_, "hit-returns-cached", witness=w, desc="cache hit returns the stored value for the key of the genotype asked for") if ok else col.fail(s_, "hit-recomputes-or-wrong-key", witness=dict(w, evaluated=ev, keys=list(d)), desc="cache hit path wrong")
                    else:
                        ok = ev == [target] and set(d) == {target}
                        if not ok:
                            col.fail(s_, "miss-wrong-key", witness=dict(w, evaluated=ev, keys=list(d), target=target), desc="on a miss the value is stored under a key that is not the evaluated genotype")
                        else:
                            col.check(pr.ctx, z3.And(E.exp_term(out) == Lv(target), E.exp_term(d[target]) == Lv(target)), s_, "miss-stores-own-llk", witness=w,
                                      desc="cache miss: returns and stores llk(genotype) under ravel(genotype) (rearranged genotype for the structural variant)")
    run_calling_dict_cache(col)


def run_calling_dict_cache(col):
    """calling.likelihood.log_likelihood_alleles_cached under insert/lookup histories with int64 keys (shared with C02)"""
    cl = E.load("mchap.calling.likelihood")
    # calling / pedigree dict caches
    evaluated2 = []

    def stub_alleles(reads, read_counts, haplotypes, genotype_alleles):
        evaluated2.append(tuple(sorted(int(a) for a in genotype_alleles)))
        return E.np.log(E.SymReal(z3.Real("LA_" + "_".join(map(str, sorted(int(a) for a in genotype_alleles))))))

    cl.log_likelihood_alleles = stub_alleles
    # Whatever key the wrapper uses, a value served from the cache must be the likelihood of the genotype asked for.  The cache is
    # an int64-keyed dict as under numba (keys wrap modulo 2^64: + * ** are ring homomorphisms, so wrapping the final key equals
    # wrapping every intermediate).  Histories: insert g1, then look up g1 in another allele order and every genotype that
    # differs from g1 in one allele, over an allele set that includes large indices (many known haplotypes).
    ALLELES = [0, 1, 2, 31, 32, 33, 40, 63, 64, 65]
    s_ = "mchap.calling.likelihood.log_likelihood_alleles_cached"

    def LA(g):
        return z3.Real("LA_" + "_".join(map(str, sorted(int(a) for a in g))))

    for P in (2, 3):
        base = list(itertools.combinations_with_replacement(ALLELES, P))

        def body(ctx, P=P, base=base):
            g1 = list(base[E.enum_int(ctx, "g1", 0, len(base) - 1)])
            cache = Int64Dict({-1: float("nan")})
            evaluated2.clear()
            res = [(tuple(g1), cl.log_likelihood_alleles_cached(None, None, None, rnp.array(g1), cache=cache))]
            res.append((tuple(g1), cl.log_likelihood_alleles_cached(None, None, None, rnp.array(g1[::-1]), cache=cache)))
            n_eval_same = len(evaluated2)
            for k in range(P):
                for a in ALLELES:
                    if a == g1[k]:
                        continue
                    g2 = list(g1)
                    g2[k] = a
                    res.append((tuple(g2), cl.log_likelihood_alleles_cached(None, None, None, rnp.array(g2), cache=cache)))
            res.append((tuple(g1), cl.log_likelihood_alleles_cached(None, None, None, rnp.array(g1), cache=cache)))
            return res, n_eval_same

        for pr in E.explore(body, stats=col.stats):
            if pr.exc is not None:
                raise pr.exc
            col.path()
            res, n_eval_same = pr.value
            wrong = [(g, o) for g, o in res if not z3.is_true(z3.simplify(E.exp_term(o) == LA(g)))]
            if wrong:
                g, o = wrong[0]
                col.fail(s_, "dict-cache-value", witness=dict(first=list(res[0][0]), asked=list(g), ploidy=P), desc="after caching %s the wrapper returns for %s a value that is not that genotype's likelihood (%s)" % (list(res[0][0]), list(g), str(E.exp_term(o))[:60]))
            else:
                col.check(pr.ctx, z3.And([E.exp_term(o) == LA(g) for g, o in res]), s_, "dict-cache-value", witness=dict(first=list(res[0][0]), ploidy=P),
                          desc="calling dict cache (int64 keys): every value returned after any of these insert/lookup histories is the likelihood of the genotype asked for, in any allele order")




class Int64Dict(dict):
    """dict whose integer keys live in int64 (numba's typed dict): two's-complement wrap on every access"""

    @staticmethod
    def _k(k):
        if isinstance(k, tuple):
            return tuple(Int64Dict._k(x) for x in k)
        if isinstance(k, (int, rnp.integer)):
            return ((int(k) + 2 ** 63) % 2 ** 64) - 2 ** 63
        if isinstance(k, E.Sym):
            return Int64Dict._k(int(k))
        return k

    def __init__(self, d=()):
        super().__init__()
        for k, v in dict(d).items():
            self[k] = v

    def __setitem__(self, k, v):
        super().__setitem__(self._k(k), v)

    def __getitem__(self, k):
        return super().__getitem__(self._k(k))

    def __contains__(self, k):
        return super().__contains__(self._k(k))


# ------------------------------------------------------------------ 2b. cache on / off / tiny (flushing) cache: same move distribution


def _run_transparent(c, col):
    """base_step and interval_step with the real likelihood on symbolic reads: the probability vector handed to
    random_choice and the returned llk are the same terms with cache=None, with a warm cache and with a cache so small
    that it is flushed in between"""
    E.cfg.concrete_ints = True
    mut = E.load("mchap.assemble.mutation")
    st = E.load("mchap.assemble.structural")
    am = E.load("mchap.assemble.arraymap")
    site = "mchap.assemble.likelihood.log_likelihood_cached"
    G = rnp.array(c["G"], dtype=rnp.int8)
    P, B = G.shape
    nal = [2, 2]
    cap = {}

    def choice(p):
        cap.setdefault("p", []).append(p.copy())
        return cap["force"]

    mut.random_choice = choice
    st.random_choice = choice

    def body(ctx):
        reads = E.SArray((2, B, 2), float)
        for r in range(2):
            for j in range(B):
                for a in range(2):
                    rnp.ndarray.__setitem__(reads, (r, j, a), E.SymReal(E.fresh_real(ctx, "p%d_%d_%d" % (r, j, a), 0)))
        lk = E.load("mchap.assemble.likelihood")
        lu = E.np.log(E.np.array(nal, dtype=float)).sum()
        counts = rnp.array([2, 1])
        out = {}
        for mode in ("none", "cache"):
            cap["p"] = []
            cache = None if mode == "none" else am.new(P * B, 2, initial_size=2, max_size=c["max_size"])
            g = G.copy()
            llk = lk.log_likelihood(reads, g, read_counts=counts)
            res = []
            # a short history: mutation at (0,1) forced to the other allele, then back, then a structural step, each re-using the cache
            for (h, j) in ((0, 1), (0, 1), (1, 0)):
                cap["force"] = 1 - int(g[h, j])
                llk, cache = mut.base_step(g, reads, llk, h, j, 2, lu, inbreeding=0, temp=1, read_counts=counts, cache=cache)
                res.append(llk)
            cap["force"] = 0
            llk, cache = st.interval_step(g, reads, llk, lu, inbreeding=0, interval=rnp.array([0, 1]), step_type=0, temp=1, read_counts=counts, cache=cache)
            res.append(llk)
            out[mode] = (list(cap["p"]), res, g.copy())
        return out

    first = True
    for pr in E.explore(body, stats=col.stats):
        if pr.exc is not None:
            col.fail(site, "exception", witness=dict(exc=repr(pr.exc)), desc="raised %r" % (pr.exc,))
            continue
        col.path()
        if first:
            col.reachable(pr.ctx)
            first = False
        (p0, l0, g0), (p1, l1, g1) = pr.value["none"], pr.value["cache"]
        if len(p0) != len(p1) or not (g0 == g1).all():
            col.fail(site, "trajectory-differs", witness=dict(G=c["G"]), desc="cache changes the number of proposals or the resulting genotype")
            continue
        cl = []
        for a, b in zip(p0, p1):
            cl += [E.real_term(x) == E.real_term(y) for x, y in zip(a, b)]
        cl += [E.exp_term(x) == E.exp_term(y) for x, y in zip(l0, l1)]
        col.check(pr.ctx, z3.And(cl), site, "cache-changes-kernel", witness=dict(G=c["G"], max_size=c["max_size"]), shape=dict(flush=c["max_size"] <= 4),
                  desc="probabilities handed to random_choice and carried llks are identical with cache=None and with an array_map cache (max_size=%d: %s) over a 4-move history on symbolic reads" % (c["max_size"], "flushes forced" if c["max_size"] <= 4 else "no flush"))


# ------------------------------------------------------------------ 4. pedigree dict caches with symbolic read counts


def _run_pedcache(c, col):
    from checks import c18

    ped = c18.PEDS[c["ped"]]
    H = c18.Harness(ped)
    # undo the likelihood stub: the real cached likelihood with symbolic reads and counts
    pl = E.load("mchap.pedigree.likelihood")
    H.pm.log_likelihood_alleles_cached = pl.log_likelihood_alleles_cached
    n, nA, mp = H.n, H.nA, H.mp
    NR = 2
    site = "mchap.pedigree.mcmc." + {"gibbs": "gibbs_probabilities", "mh": "metropolis_hastings_probabilities", "swap": "pair_allele_swap_step"}[c["fn"]]
    states = [s for s in c18._states(ped)][:: max(1, len(c18._states(ped)) // 4)][:4]
    first = True
    for state in states:
        def body(ctx, state=state):
            reads = E.SArray((n, NR, 1, nA), float)
            raw = {}
            for i in range(n):
                for r in range(NR):
                    for a in range(nA):
                        v = E.fresh_real(ctx, "r%d_%d_%d" % (i, r, a), 0)
                        rnp.ndarray.__setitem__(reads, (i, r, 0, a), E.SymReal(v))
                        raw[(i, r, a)] = v
            counts = E.SArray((n, NR), rnp.int64)
            cz = {}
            for i in range(n):
                for r in range(NR):
                    cv = E.fresh_int(ctx, "c%d_%d" % (i, r), 0, 2)
                    rnp.ndarray.__setitem__(counts, (i, r), E.SymInt(cv))
                    cz[(i, r)] = cv
                ctx.assume(z3.Or([cz[(i, r)] > 0 for r in range(NR)]))
            fs, logf, err, lam, ez, lz = H.params(ctx)
            haps = rnp.arange(nA).reshape(nA, 1).astype(rnp.int8)
            G = H.G(state)
            cache = {}
            if c["fn"] == "swap":
                p, q = c18._pairs(ped)[0]
                pairs, blankets = H.pm.parental_pair_markov_blankets(H.parents, H.children)
                a = sorted(set(state[p]))[0]
                bs = [x for x in sorted(set(state[q])) if x != a]
                if not bs:
                    return None

                class Rn:
                    calls = [list(state[p]).index(a), list(state[q]).index(bs[0])]

                    @staticmethod
                    def randint(k):
                        return Rn.calls.pop(0)

                    @staticmethod
                    def rand():
                        return 2.0

                class NPs:
                    random = Rn

                    def __getattr__(self, k):
                        return getattr(E.NP, k)

                H.pm.np = NPs()
                try:
                    H.pm.pair_allele_swap_step(p, q, blankets[0], G, H.ploidy, H.parents, H.tau, lam, err, reads, counts, haps, logf, cache, *H.scratch())
                finally:
                    H.pm.np = E.NP
            else:
                fn = H.pm.gibbs_probabilities if c["fn"] == "gibbs" else H.pm.metropolis_hastings_probabilities
                fn(c["t"], 0, G, H.ploidy, H.parents, H.children, H.tau, lam, err, reads, counts, haps, logf, cache, *H.scratch())
            return raw, cz, cache

        for pr in E.explore(body, stats=col.stats):
            if pr.exc is not None:
                col.fail(site, "exception", witness=dict(exc=repr(pr.exc), state=state), desc="raised %r" % (pr.exc,))
                continue
            if pr.value is None:
                continue
            col.path()
            ctx = pr.ctx
            if first:
                col.reachable(ctx)
                first = False
            raw, cz, cache = pr.value
            assert ctx.isolver.check() == z3.sat
            mdl = ctx.isolver.model()
            cnt = {k: int(E.model_value(mdl, v)) for k, v in cz.items()}
            for (s, gi), val in cache.items():
                s = int(s)
                g = M.vcf_order(nA, ped["ploidy"][s])[int(gi)]
                orc = z3.RealVal(1)
                for r in range(NR):
                    if cnt[(s, r)] > 0:
                        mean = z3.Sum([raw[(s, r, a)] for a in g]) / len(g)
                        for _ in range(cnt[(s, r)]):
                            orc = orc * mean
                col.check(ctx, E.exp_term(val) == orc, site, "dict-cache-entry", shape=dict(fn=c["fn"]),
                          witness=dict(state=state, sample=s, genotype=g, counts={"%d_%d" % k: v for k, v in cnt.items()}),
                          desc="cache[(sample, genotype)] == likelihood of that genotype on the sample's own count>0 reads (symbolic counts)  [%s %s]" % (c["ped"], c["fn"]))


# ------------------------------------------------------------------ 3. carried likelihood (C01 / C02 harnesses, llk claims only)

KEEP = {"carried-llk", "swap-llks", "swap-iff-accepted", "orchestration", "returned-llk", "llks-array"}


class _Filter:
    def __init__(self, col):
        self.col = col

    def __getattr__(self, k):
        return getattr(self.col, k)

    def check(self, ctx, claim, site, kind, **kw):
        if kind in KEEP:
            return self.col.check(ctx, claim, site, kind, **kw)
        return True

    def fail(self, site, kind, **kw):
        if kind in KEEP or kind == "exception":
            return self.col.fail(site, kind, **kw)

    def ok(self, desc=None):
        return None


def _run_carried(c, col):
    import importlib

    mod = importlib.import_module("checks." + c["which"])
    f = _Filter(col)
    f.stats = col.stats
    mod.run_config(c["cfg"], f)


# ------------------------------------------------------------------ replay


def replay(v):
    import math

    c = v["config"]
    k = v["kind"]
    m = v.get("model") or {}
    w = v.get("witness") or {}
    if c["group"] == "carried":
        import importlib

        mod = importlib.import_module("checks." + c["which"])
        return mod.replay(dict(v, config=c["cfg"]))
    if c["group"] == "arraymap":
        from mchap.assemble import arraymap as ram

        L, b, nops = c["L"], c["b"], c["nops"]
        mp = ram.new(L, b, initial_size=c["init"], max_size=c["max"])
        hist = {}
        try:
            for o in range(nops):
                key = rnp.array([c["k0"][i] if (o == 0 and i < len(c["k0"])) else int(m.get("k%d_%d" % (o, i), 0)) for i in range(L)])
                val = float(m.get("v%d" % o, o + 1.5))
                mp = ram.set(mp, key, val, empty_if_full=True)
                hist[tuple(key.tolist())] = val
            q = rnp.array([int(m.get("q_%d" % i, 0)) for i in range(L)])
            out = ram.get(mp, q)
        except Exception as e:
            return k == "exception", "real arraymap raised %r" % (e,)
        good = math.isnan(out) or (tuple(q.tolist()) in hist and hist[tuple(q.tolist())] == out)
        return not good, "get(%s) = %r after sets %s" % (q.tolist(), out, hist)
    if c["group"] == "pedcache":
        return _replay_pedcache(v)
    if c["group"] == "transparent":
        return _replay_transparent(v)
    if c["group"] == "wrappers":
        return _replay_wrappers(v)
    if c["group"] == "wraphist":
        return _replay_wraphist(v)
    return False, "kind?"


def _replay_transparent(v):
    """the same 4-move history on the real jitted code with and without cache (seeded identically)"""
    import math
    from mchap.assemble import mutation as rm, structural as rs, arraymap as ram
    from mchap.assemble.likelihood import log_likelihood
    from mchap.jitutils import seed_numba

    c = v["config"]
    m = v.get("model") or {}
    G = rnp.array(c["G"], dtype=rnp.int8)
    P, B = G.shape
    reads = rnp.array([[[float(m.get("p%d_%d_%d" % (r, j, a), 0.3 + 0.2 * a + 0.1 * r)) for a in range(2)] for j in range(B)] for r in range(2)])
    counts = rnp.array([2, 1])
    lu = math.log(4.0)
    outs = []
    for mode in ("none", "cache"):
        seed_numba(5)
        rnp.random.seed(5)
        cache = None if mode == "none" else ram.new(P * B, 2, initial_size=2, max_size=c["max_size"])
        g = G.copy()
        llk = log_likelihood(reads, g, read_counts=counts)
        tr = []
        for _ in range(20):
            for (h, j) in ((0, 1), (1, 0), (0, 0)):
                llk, cache = rm.base_step(g, reads, llk, h, j, 2, lu, 0.0, 1.0, counts, cache)
            llk, cache = rs.interval_step(g, reads, llk, lu, 0.0, rnp.array([0, 1]), 0, 1.0, counts, cache)
            tr.append((g.copy().tolist(), float(llk)))
        outs.append(tr)
    same = outs[0] == outs[1]
    return not same, "20-iteration trajectories with and without cache %s (reads %s)" % ("agree" if same else "DIFFER", reads.tolist())


def _replay_wrappers(v):
    import math
    from mchap.assemble import likelihood as rl, arraymap as ram
    from mchap import jitutils as rj

    w = v["witness"]
    if "G" not in w:
        # the same insert / lookup history on the REAL jitted wrapper with a numba typed dict (int64 keys), against fresh values
        import numba
        from mchap.calling import likelihood as rcl

        rs = rnp.random.RandomState(5)
        n_h = 70
        haps = rs.randint(0, 2, size=(n_h, 9)).astype(rnp.int8)
        haps[0] = 0
        reads = rs.dirichlet([1.0, 1.0], size=(4, 9))
        counts = rnp.array([1, 2, 1, 3])
        g1 = [int(a) for a in w.get("first", w.get("alleles", [0, 1]))]
        P = len(g1)
        cache = numba.typed.Dict.empty(key_type=numba.types.int64, value_type=numba.types.float64)
        cache[-1] = math.nan
        ALLELES = [0, 1, 2, 31, 32, 33, 40, 63, 64, 65]
        hist = [g1, g1[::-1]] + [g1[:k] + [a] + g1[k + 1:] for k in range(P) for a in ALLELES if a != g1[k]] + [g1]
        for g in hist:
            ga = rnp.array(g, dtype=rnp.int64)
            got = rcl.log_likelihood_alleles_cached(reads, counts, haps, ga, cache)
            want = rcl.log_likelihood_alleles(reads, counts, haps, rnp.sort(ga))
            if abs(got - want) > 1e-9 * max(1.0, abs(want)):
                return True, "after caching %s the real wrapper returns %r for %s, recomputed %r" % (g1, got, g, want)
        return False, "real wrapper: every value of the history equals the recomputed likelihood"
    G = rnp.array(w["G"], dtype=rnp.int8)
    reads = rnp.array([[[0.9, 0.1], [0.8, 0.2]], [[0.3, 0.7], [0.6, 0.4]]])
    cache = ram.new(4, 2, initial_size=4, max_size=64)
    idx, iv = rnp.array([1, 0]), rnp.array([0, 1])
    if w["variant"] == "plain":
        want = rl.log_likelihood(reads, G)
        a, cache = rl.log_likelihood_cached(reads, G, None, cache)
        b, cache = rl.log_likelihood_cached(reads, G, None, cache)
        stored = ram.get(cache, G.ravel())
    else:
        g2 = G.copy()
        rj.structural_change(g2, idx, iv)
        want = rl.log_likelihood(reads, g2)
        a, cache = rl.log_likelihood_structural_change_cached(reads, G, idx, iv, None, cache)
        b, cache = rl.log_likelihood_structural_change_cached(reads, G, idx, iv, None, cache)
        stored = ram.get(cache, g2.ravel())
    bad = abs(a - want) > 1e-12 or abs(b - want) > 1e-12 or not (stored == want)
    return bad, "first=%r second=%r stored=%r recomputed=%r" % (a, b, stored, want)


def _replay_wraphist(v):
    """the same history on the real jitted wrappers and arraymap, against freshly computed likelihoods"""
    import math
    from mchap.assemble import likelihood as rl, arraymap as ram
    from mchap import jitutils as rj

    w = v["witness"]
    B = int(v["config"].get("B", 2))
    reads = rnp.array([[[0.9, 0.1], [0.8, 0.2], [0.35, 0.65]], [[0.3, 0.7], [0.6, 0.4], [0.15, 0.85]], [[0.55, 0.45], [0.2, 0.8], [0.7, 0.3]]])[:, :B, :].copy()
    cache = ram.new(2 * B, 2, initial_size=2, max_size=int(w.get("max_size", 8)))
    for variant, g in w["history"]:
        G = rnp.array(g, dtype=rnp.int8).reshape(2, B)
        if variant == "plain":
            got, cache = rl.log_likelihood_cached(reads, G, None, cache)
            want = rl.log_likelihood(reads, G)
        else:
            _, ixs, tag = variant.split(":")
            idx = rnp.array([int(x) for x in ixs])
            iv = None if tag == "none" else rnp.array([int(x) for x in tag.split("-")])
            got, cache = rl.log_likelihood_structural_change_cached(reads, G, idx, iv, None, cache)
            g2 = G.copy()
            rj.structural_change(g2, idx, iv)
            want = rl.log_likelihood(reads, g2)
        if abs(got - want) > 1e-12:
            return True, "history %s: the real %s wrapper returns %r for %s, recomputed %r" % (w["history"], variant, got, g, want)
    return False, "real wrappers: every value of the history equals the recomputed likelihood"


def _replay_pedcache(v):
    """real py_func run with a plain dict cache; every entry against a from-scratch likelihood"""
    import math
    from checks import c18
    from mchap.pedigree import mcmc as rm
    from mchap.assemble.likelihood import log_likelihood as rllk

    c = v["config"]
    m = v.get("model") or {}
    w = v["witness"]
    ped = c18.PEDS[c["ped"]]
    n, nA, mp = len(ped["ploidy"]), ped["nA"], max(ped["ploidy"])
    NR = 2
    reads = rnp.zeros((n, NR, 1, nA))
    counts = rnp.zeros((n, NR), dtype=rnp.int64)
    for i in range(n):
        for r in range(NR):
            counts[i, r] = int(w["counts"]["%d_%d" % (i, r)])
            for a in range(nA):
                reads[i, r, 0, a] = float(m.get("r%d_%d_%d" % (i, r, a), 0.1 + 0.2 * i + 0.3 * r + 0.05 * a))
    vv = dict(v, config=dict(ped=c["ped"], step="gibbs"))
    _, _, f, err, lam = c18._concrete(vv)
    state = tuple(tuple(g) for g in w["state"])
    parents = rnp.array(ped["parents"])
    children = rm.sample_children_matrix(parents)
    haps = rnp.arange(nA).reshape(nA, 1).astype(rnp.int8)
    scr = [rnp.zeros(mp, dtype=rnp.int64) for _ in range(7)] + [rnp.zeros(mp)]
    G = c18._Gnum(ped, state)
    cache = {}
    pairs, blankets = rm.parental_pair_markov_blankets(parents, children)
    real_np = rm.np
    saved_llk = rm.log_likelihood_alleles_cached
    rm.log_likelihood_alleles_cached = saved_llk.py_func  # plain dict cache needs the Python function
    try:
        if c["fn"] == "swap":
            p, q = c18._pairs(ped)[0]
            a = sorted(set(state[p]))[0]
            b = [x for x in sorted(set(state[q])) if x != a][0]
            calls = [list(state[p]).index(a), list(state[q]).index(b)]

            class Rn:
                @staticmethod
                def randint(k):
                    return calls.pop(0)

                @staticmethod
                def rand():
                    return 2.0

            class S:
                def __getattr__(self, k):
                    return getattr(real_np, k)

            s_ = S()
            s_.random = Rn
            rm.np = s_
            rm.pair_allele_swap_step.py_func(p, q, blankets[0], G, rnp.array(ped["ploidy"]), parents, rnp.array(ped["tau"]), lam, err, reads, counts, haps, rnp.log(rnp.array(f)), cache, *scr)
        else:
            fn = rm.gibbs_probabilities if c["fn"] == "gibbs" else rm.metropolis_hastings_probabilities
            fn.py_func(c["t"], 0, G, rnp.array(ped["ploidy"]), parents, children, rnp.array(ped["tau"]), lam, err, reads, counts, haps, rnp.log(rnp.array(f)), cache, *scr)
    finally:
        rm.np = real_np
        rm.log_likelihood_alleles_cached = saved_llk
    bad = []
    for (s, gi), val in cache.items():
        g = M.vcf_order(nA, ped["ploidy"][s])[int(gi)]
        own = counts[s] > 0
        want = rllk(reads[s][own], haps[list(g)], read_counts=counts[s][own])
        if abs(val - want) > 1e-9 * max(1, abs(want)):
            bad.append((int(s), g, float(val), float(want)))
    return bool(bad), "cache entries differing from the sample's own likelihood: %s (counts=%s)" % (bad[:3], counts.tolist())


def validate(seed):
    """arraymap: engine vs real jitted code on random concrete operation sequences"""
    import math
    import random
    from mchap.assemble import arraymap as ram

    E.use_summaries(True)
    E.reset_modules()
    E.cfg.concrete_ints = True
    am = E.load("mchap.assemble.arraymap")
    rnd = random.Random(seed)
    n = 0
    for _ in range(20):
        L, b = rnd.randint(1, 3), rnd.randint(2, 3)
        init, mx = rnd.choice([2, 4]), rnd.choice([4, 8, 16])
        ops = [([rnd.randrange(b) for _ in range(L)], rnd.randint(1, 99) / 4.0) for _ in range(rnd.randint(1, 8))]
        q = [rnd.randrange(b) for _ in range(L)]
        m1 = ram.new(L, b, initial_size=init, max_size=mx)
        for k, val in ops:
            m1 = ram.set(m1, rnp.array(k), val, empty_if_full=True)
        want = ram.get(m1, rnp.array(q))

        def body(ctx):
            m2 = am.new(L, b, initial_size=init, max_size=mx)
            for k, val in ops:
                m2 = am.set(m2, rnp.array(k), val, empty_if_full=True)
            return E.to_float(am.get(m2, rnp.array(q)))

        vals = [p.value for p in E.explore(body) if p.exc is None]
        assert len(vals) == 1 and ((math.isnan(vals[0]) and math.isnan(want)) or vals[0] == want), (ops, q, vals, want)
        n += 1
    return n
