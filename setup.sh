#!/bin/sh
# Build /verif/.venv: an overlay on /venv (the repo's interpreter with numba/numpy/pysam)
# plus the z3-solver wheel from the offline wheelhouse. Idempotent, offline.
set -e
cd "$(dirname "$0")"
if [ -x .venv/bin/python ] && .venv/bin/python -c "import z3, numba, pysam" 2>/dev/null; then
    exit 0
fi
rm -rf .venv
/venv/bin/python -m venv .venv
SP=$(.venv/bin/python -c "import sysconfig; print(sysconfig.get_paths()['purelib'])")
echo "import site; site.addsitedir('/venv/lib/python3.12/site-packages')" > "$SP/overlay.pth"
PIP_NO_INDEX=1 .venv/bin/pip install -q --no-index --find-links /opt/veriftools/wheels z3-solver
.venv/bin/python -c "import z3, numba, pysam, numpy; print('setup ok', z3.get_version_string())"
